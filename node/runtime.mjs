// runtime.mjs <job.json> <out.json>
//   Runs the REAL isograph-react runtime (libs/isograph-react/src/core/*.ts, loaded through the
//   TS-stripping loader) on artifacts the real compiler generated, and reports what it observed:
//     * keys:      response keys the runtime computes for normalization AST nodes (observed through a
//                  Proxy response during the real normalizeData of a one-node AST)
//     * normalize: real normalizeData of a response wrapped in a recording Proxy (keys looked up vs
//                  keys present per response object), records written to the store
//     * read:      real readButDoNotEvaluate on the entrypoint reader, DoneReading events, thrown values
//     * refetch:   every function the readers returned for refetchable selections is invoked with a
//                  recording network function installed; (operation, variables) recorded
//   All decisions are taken on the Python side (pylib/rt_common.py).
import { register } from 'node:module';
import { readFileSync, writeFileSync, existsSync } from 'node:fs';
import { pathToFileURL } from 'node:url';
import path from 'node:path';

const [, , jobFile, outFile] = process.argv;
const job = JSON.parse(readFileSync(jobFile, 'utf8'));
const artifactDir = job.artifactDir ? path.resolve(job.artifactDir) : null;
register('./hooks.mjs', import.meta.url, { data: { artifactDirs: artifactDir ? [artifactDir] : [], eagerComponents: true } });

const REPO = process.env.VERIF_REPO || '/repo';
const CORE = path.join(REPO, 'libs/isograph-react/src/core');
const imp = (f) => import(pathToFileURL(path.join(CORE, f)).href);
const cache = await imp('cache.ts');
const read = await imp('read.ts');
const envMod = await imp('IsographEnvironment.ts');
const logging = await imp('logging.ts');
const pw = await imp('PromiseWrapper.ts');
const optimistic = await imp('optimisticProxy.ts');
await imp('makeNetworkRequest.ts');

const out = { errors: [], entrypoints: {}, keys: null, runtime: { core: CORE } };
const INTRINSIC = new Set(['id', '__typename']);

let networkCalls = [];
function mkEnv() {
  const networkFunction = (operation, variables) => {
    networkCalls.push({ operation, variables });
    return new Promise(() => {}); // never resolves: nothing is normalized behind our back
  };
  return envMod.createIsographEnvironmentCore(envMod.createIsographStore(), networkFunction, () => () => null);
}

// --- the key the runtime looks up in a network response for one normalization AST node -------------
function runtimeKeys(node) {
  const env = mkEnv();
  const looked = [];
  const resp = new Proxy({}, { get(_t, k) { if (typeof k === 'string') looked.push(k); return undefined; } });
  const root = { __link: envMod.ROOT_ID, __typename: 'Query' };
  cache.normalizeData(env, env.store, [{ ...node, selections: [] }], resp, {}, root, new Map());
  return looked;
}

function annotate(selections) {
  return (selections || []).map((n) => {
    if (n.kind === 'InlineFragment') return { kind: n.kind, type: n.type, selections: annotate(n.selections) };
    let keys = null, error = null;
    try { keys = runtimeKeys(n); } catch (e) { error = String(e && e.message); }
    return { kind: n.kind, fieldName: n.fieldName, arguments: n.arguments ?? null, concreteType: n.concreteType, keys, error,
      selections: n.kind === 'Linked' ? annotate(n.selections) : undefined };
  });
}

if (job.keyNodes) {
  out.keys = job.keyNodes.map((n) => {
    try { return { keys: runtimeKeys(n), storeKey: cache.getParentRecordKey(n, job.keyVariables || {}) }; }
    catch (e) { return { error: String(e && e.message) }; }
  });
}

// --- recording Proxy around a response ---------------------------------------------------------------
function wrapResponse(resp, rec) {
  function wrap(v, p) {
    if (Array.isArray(v)) return v.map((x, i) => wrap(x, p + '[' + i + ']'));
    if (v === null || typeof v !== 'object') return v;
    const info = { path: p, present: Object.keys(v), looked: new Set() };
    rec.push(info);
    const wrapped = new Map();
    return new Proxy(v, {
      get(t, k, r) {
        if (typeof k !== 'string') return Reflect.get(t, k, r);
        info.looked.add(k);
        if (!wrapped.has(k)) wrapped.set(k, wrap(t[k], p + '/' + k));
        return wrapped.get(k);
      },
    });
  }
  return wrap(resp, '');
}

function countRecords(store) {
  let n = 0, fields = 0;
  let layer = store;
  while (layer != null) {
    for (const byId of Object.values(layer.data || {})) {
      if (byId == null) continue;
      for (const rec of Object.values(byId)) { n++; if (rec) fields += Object.keys(rec).length; }
    }
    layer = layer.parentStoreLayer;
  }
  return { records: n, fields };
}

function reasons(r) {
  const outp = [];
  let x = r;
  while (x && outp.length < 12) { outp.push(String(x.reason)); x = x.nestedReason; }
  return outp;
}

function describeThrown(e) {
  if (e && typeof e.then === 'function') return { kind: 'promise' };
  return { kind: 'error', message: String(e && e.message).slice(0, 400), stack: String(e && e.stack).split('\n').slice(1, 4).join(' | ').slice(0, 400) };
}

// --- client pointer resolvers are user code: stand-in that returns link(s) found in the data it read -----
function collectLinks(v, acc) {
  if (v == null || typeof v !== 'object') return acc;
  if (Array.isArray(v)) { for (const x of v) collectLinks(x, acc); return acc; }
  if (typeof v.__link === 'string' && typeof v.__typename === 'string' && Object.keys(v).length === 2) { acc.push(v); return acc; }
  for (const k of Object.keys(v)) collectLinks(v[k], acc);
  return acc;
}
const stats = { pointerResolversPatched: 0, pointerResolverCalls: 0, pointerLinksReturned: 0 };
function pointerResolver(info) {
  return ({ data }) => {
    stats.pointerResolverCalls++;
    let links = collectLinks(data, []);
    if (info && info.possible) links = links.filter((l) => info.possible.includes(l.__typename));
    if (info && info.list) { stats.pointerLinksReturned += links.length; return links; }
    if (links.length) stats.pointerLinksReturned++;
    return links.length ? links[0] : null;
  };
}
const patched = new WeakSet();
const pointerByFn = new Map();   // reader artifact function of a client pointer -> {list, possible}
function patchPointers(readerAst, seen) {
  for (const n of readerAst || []) {
    if (n.kind === 'Linked') {
      if (n.condition && !patched.has(n) && pointerByFn.has(n.condition)) {
        const info = pointerByFn.get(n.condition);
        let art = null;
        try { art = n.condition(); } catch { art = null; }
        if (art) {
          const artifact = { ...art, resolver: pointerResolver(info) };
          n.condition = () => artifact;
          patched.add(n);
          stats.pointerResolversPatched++;
        }
      }
      if (n.condition) { try { const a = n.condition(); if (a && !seen.has(a.readerAst)) { seen.add(a.readerAst); patchPointers(a.readerAst, seen); } } catch { /* reported by read */ } }
      patchPointers(n.selections, seen);
    } else if (n.kind === 'Resolver') {
      let art = null;
      try { art = n.readerArtifact(); } catch { art = null; }
      if (art && !seen.has(art.readerAst)) { seen.add(art.readerAst); patchPointers(art.readerAst, seen); }
    }
  }
}

// --- walk reader ASTs alongside the data that readData returned ---------------------------------------
function walkData(ast, data, ctx, found, counters) {
  if (data == null || typeof data !== 'object') return;
  for (const n of ast || []) {
    switch (n.kind) {
      case 'Scalar': counters.scalarsRead++; break;
      case 'Link': counters.linksRead++; break;
      case 'Linked': {
        const key = n.alias ?? n.fieldName;
        const v = data[key];
        const step = { t: 'linked', alias: key };
        if (n.refetchQueryIndex != null) {
          counters.clientPointersRead++;
          const fns = Array.isArray(v) ? v : [v];
          fns.forEach((fn, i) => {
            if (typeof fn === 'function') found.push({ kind: 'pointer', path: [...ctx.path, step], name: n.fieldName, localIndex: n.refetchQueryIndex, entryIndex: ctx.indexMap[n.refetchQueryIndex], fn, node: n, ctx, item: Array.isArray(v) ? i : null });
          });
          break;
        }
        counters.linkedRead++;
        if (n.condition) counters.refinementsRead++;
        const sub = { ...ctx, path: [...ctx.path, step] };
        if (Array.isArray(v)) { for (const item of v) if (item != null) walkData(n.selections, item, sub, found, counters); }
        else if (v != null) walkData(n.selections, v, sub, found, counters);
        break;
      }
      case 'Resolver': {
        const v = data[n.alias];
        let art = null;
        try { art = n.readerArtifact(); } catch { art = null; }
        if (!art) break;
        counters.resolverNodes++;
        const indexMap = (n.usedRefetchQueries || []).map((i) => ctx.indexMap[i]);
        if (indexMap.some((x) => x === undefined)) counters.usedRefetchQueriesOutOfRange++;
        const sub = { path: [...ctx.path, { t: 'resolver', alias: n.alias }], indexMap };
        if (v && typeof v === 'object' && 'data' in v) walkData(art.readerAst, v.data, sub, found, counters);
        else counters.resolverValuesNotDescended++;
        break;
      }
      case 'ImperativelyLoadedField': {
        counters.imperativeFieldsRead++;
        const fn = data[n.alias];
        if (typeof fn === 'function') found.push({ kind: 'imperative', path: [...ctx.path, { t: 'field', alias: n.alias }], name: n.name, localIndex: n.refetchQueryIndex, entryIndex: ctx.indexMap[n.refetchQueryIndex], fn, node: n, ctx });
        break;
      }
      case 'LoadablySelectedField': {
        counters.loadableFieldsRead++;
        const fn = data[n.alias];
        if (typeof fn === 'function') found.push({ kind: 'loadable', path: [...ctx.path, { t: 'field', alias: n.alias }], name: n.name, fn, node: n, ctx });
        break;
      }
      default: counters.unknownReaderNodes++;
    }
  }
}

function serOp(op) {
  if (!op) return null;
  return op.kind === 'Operation' ? { kind: op.kind, text: op.text } : { kind: op.kind, operationId: op.operationId };
}

const tick = () => new Promise((r) => setImmediate(r));

async function invoke(f, nested, entrypointByObject) {
  const rec = { kind: f.kind, name: f.name, path: f.path, localIndex: f.localIndex ?? null, entryIndex: f.entryIndex ?? null, item: f.item ?? null, calls: [], error: null, stableId: null };
  try {
    let args = {};
    if (f.kind === 'imperative' || f.kind === 'pointer') {
      const w = f.entryIndex != null ? nested[f.entryIndex] : null;
      rec.allowedVariables = w ? w.allowedVariables : null;
      const shapes = (job.refetchArgs || {})[f.name] || {};
      // the caller passes the refetched field's own arguments; the entrypoint's variables are the runtime's business
      for (const k of (w ? w.allowedVariables : [])) {
        if ((f.entrypointVariableNames || []).includes(k)) continue;
        args[k] = (k in shapes) ? structuredClone(shapes[k]) : 'arg:' + k;
      }
    } else {
      args = { ...(job.loadableArgs || {}) };
    }
    rec.args = { ...args };
    networkCalls = [];
    const pair = f.kind === 'imperative' ? f.fn(args) : f.fn(args, { shouldFetch: 'Yes' });
    rec.stableId = String(pair[0]);
    const result = pair[1]();
    if (networkCalls.length === 0 && f.kind === 'loadable' && f.node.entrypoint && f.node.entrypoint.kind === 'EntrypointLoader') {
      rec.lazyEntrypoint = true;
      try { await f.node.entrypoint.loader(); } catch (e) { rec.error = 'loader: ' + String(e && e.message); }
      await tick(); await tick();
    }
    rec.returned = Array.isArray(result) ? 'pair' : typeof result;
    rec.calls = networkCalls.map((c) => {
      let matchIndex = null;
      nested.forEach((w, i) => { if (w.artifact && w.artifact.networkRequestInfo && w.artifact.networkRequestInfo.operation === c.operation) matchIndex = matchIndex ?? i; });
      let entrypointKey = null;
      for (const [obj, key] of entrypointByObject) if (obj.networkRequestInfo && obj.networkRequestInfo.operation === c.operation) entrypointKey = key;
      return { operation: serOp(c.operation), variables: c.variables, matchesNestedIndex: matchIndex, entrypointKey };
    });
    if (f.kind === 'loadable') {
      const ep = f.node.entrypoint;
      rec.targetEntrypoint = ep && ep.kind === 'Entrypoint' ? (entrypointByObject.get(ep) ?? null) : (ep ? 'loader:' + ep.typeAndField : null);
      rec.queryArguments = f.node.queryArguments ?? null;
    }
  } catch (e) {
    rec.error = rec.error || String(e && e.message).slice(0, 300);
  }
  networkCalls = [];
  return rec;
}

// --- per entrypoint ---------------------------------------------------------------------------------------
const entrypointByObject = new Map();
if (artifactDir) {
  for (const [key, info] of Object.entries(job.pointers || {})) {
    // a pointer that nothing reachable selects has no artifacts
    if (!existsSync(path.join(artifactDir, key, 'resolver_reader.ts'))) { stats.pointersWithoutArtifact = (stats.pointersWithoutArtifact || 0) + 1; continue; }
    try {
      const m = await import(pathToFileURL(path.join(artifactDir, key, 'resolver_reader.ts')).href);
      pointerByFn.set(m.default, info);
    } catch (e) { out.errors.push({ pointer: key, error: String(e && e.message).slice(0, 400) }); }
  }
  for (const key of job.allEntrypoints || []) {
    try {
      const m = await import(pathToFileURL(path.join(artifactDir, key, 'entrypoint.ts')).href);
      entrypointByObject.set(m.default, key);
    } catch (e) { out.errors.push({ entrypoint: key, error: String(e && e.message).slice(0, 400) }); }
  }
}

for (const [key, spec] of Object.entries(job.entrypoints || {})) {
  const res = { cases: [], astKeys: null, refetchAstKeys: [], loadError: null };
  out.entrypoints[key] = res;
  let ep = null;
  for (const [obj, k] of entrypointByObject) if (k === key) ep = obj;
  if (!ep) { res.loadError = 'entrypoint module not loaded'; continue; }
  try {
    const nri = ep.networkRequestInfo;
    let na = nri.normalizationAst;
    if (na && na.kind === 'NormalizationAstLoader') na = await na.loader();
    let rwr = ep.readerWithRefetchQueries;
    if (rwr.kind === 'ReaderWithRefetchQueriesLoader') rwr = await rwr.loader();
    const readerArtifact = typeof rwr.readerArtifact === 'function' ? rwr.readerArtifact() : rwr.readerArtifact;
    const nested = rwr.nestedRefetchQueries || [];
    if (job.wantKeys) {
      res.astKeys = annotate(na.selections);
      res.refetchAstKeys = nested.map((w) => annotate(w.artifact.networkRequestInfo.normalizationAst.selections));
    }
    patchPointers(readerArtifact.readerAst, new Set());
    for (const cs of spec.cases || []) {
      const c = { tag: cs.tag ?? null, normalize: null, read: null, refetch: [] };
      res.cases.push(c);
      const env = mkEnv();
      const events = [];
      logging.registerLogger(env, (m) => {
        if (m.kind === 'DoneReading') {
          const ev = { kind: m.kind, fieldName: m.fieldName, response: m.response.kind };
          if (m.response.kind === 'MissingData') {
            ev.reasons = reasons(m.response);
            let x = m.response;
            while (x.nestedReason && x.nestedReason.kind === 'MissingData') x = x.nestedReason;
            ev.recordLink = x.recordLink;
            try {
              const keys = new Set();
              let layer = env.store;
              while (layer != null) {
                const r = layer.data[x.recordLink.__typename]?.[x.recordLink.__link];
                if (r) for (const k of Object.keys(r)) keys.add(k);
                layer = layer.parentStoreLayer;
              }
              ev.recordKeys = [...keys];
            } catch { ev.recordKeys = null; }
          }
          events.push(ev);
        }
        else if (m.kind === 'MissingFieldHandlerCalled') events.push({ kind: m.kind, fieldName: m.fieldName });
      });
      const root = { __link: envMod.ROOT_ID, __typename: ep.concreteType };
      // normalize exactly as makeNetworkRequest does on a network response
      const rec = [];
      const norm = { ok: true, error: null };
      try {
        env.store = optimistic.addNetworkResponseStoreLayer(env.store);
        cache.normalizeData(env, env.store, na.selections, wrapResponse(cs.response, rec), cs.variables, root, new Map());
      } catch (e) { norm.ok = false; norm.error = describeThrown(e); }
      let keysPresent = 0, keysLooked = 0, intrinsic = 0;
      norm.mismatches = [];
      for (const info of rec) {
        const present = new Set(info.present);
        keysPresent += present.size;
        const notLooked = info.present.filter((k) => !info.looked.has(k));
        const notRequested = [];
        for (const k of info.looked) { if (present.has(k)) keysLooked++; else if (INTRINSIC.has(k)) intrinsic++; else notRequested.push(k); }
        if (notLooked.length || notRequested.length) norm.mismatches.push({ path: info.path, notLooked, notRequested, present: info.present });
      }
      Object.assign(norm, { objects: rec.length, keysPresent, keysLooked, intrinsicLookups: intrinsic }, countRecords(env.store));
      c.normalize = norm;
      if (!norm.ok) continue;
      // read
      const frag = {
        kind: 'FragmentReference',
        readerWithRefetchQueries: pw.wrapResolvedValue({ kind: 'ReaderWithRefetchQueries', readerArtifact, nestedRefetchQueries: nested }),
        fieldName: readerArtifact.fieldName, readerArtifactKind: readerArtifact.kind,
        root: cs.root || root, variables: cs.variables, networkRequest: pw.wrapResolvedValue(undefined),
      };
      const rd = { ok: false, thrown: null, events, counters: null };
      c.read = rd;
      let item = null;
      try {
        item = read.readButDoNotEvaluate(env, frag, { suspendIfInFlight: false, throwOnNetworkError: false }).item;
        rd.ok = true;
      } catch (e) { rd.thrown = describeThrown(e); }
      if (!rd.ok) continue;
      const counters = { scalarsRead: 0, linksRead: 0, linkedRead: 0, refinementsRead: 0, clientPointersRead: 0, resolverNodes: 0, resolverValuesNotDescended: 0,
        imperativeFieldsRead: 0, loadableFieldsRead: 0, usedRefetchQueriesOutOfRange: 0, unknownReaderNodes: 0 };
      const found = [];
      try { walkData(readerArtifact.readerAst, item, { path: [], indexMap: nested.map((_, i) => i) }, found, counters); }
      catch (e) { rd.walkError = String(e && e.message); }
      rd.counters = counters;
      rd.refetchablesFound = found.length;
      if (job.invoke) {
        for (const f of found) { f.entrypointVariableNames = spec.variableNames || []; c.refetch.push(await invoke(f, nested, entrypointByObject)); }
      }
    }
    res.nestedCount = nested.length;
  } catch (e) {
    res.loadError = String(e && e.stack).slice(0, 600);
  }
}
out.stats = stats;
writeFileSync(outFile, JSON.stringify(out));
process.exit(0);
