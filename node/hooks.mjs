// ESM loader hooks: TypeScript stripping (= TS syntax oracle), resolution of
// extension-less relative imports (= import-closure oracle), stubs for react
// and for user modules imported by generated artifacts.
import { readFileSync, existsSync, statSync } from 'node:fs';
import { fileURLToPath, pathToFileURL } from 'node:url';
import { stripTypeScriptTypes } from 'node:module';
import path from 'node:path';

const HERE = path.dirname(fileURLToPath(import.meta.url));
let artifactDirs = [];
// eagerComponents (runtime.mjs only; `dump` leaves it off): load `@component` readers as
// eager readers so that the real readData recurses into them.
let eagerComponents = false;
export async function initialize(data) {
  artifactDirs = (data && data.artifactDirs) || [];
  eagerComponents = !!(data && data.eagerComponents);
}

const PKG = {
  react: path.join(HERE, 'stubs/react.mjs'),
  '@isograph/react': path.join(HERE, 'stubs/isograph_react.mjs'),
  '@iso': path.join(HERE, 'stubs/iso.mjs'),
  '@isograph/disposable-types': '/repo/libs/isograph-disposable-types/src/index.ts',
  '@isograph/react-disposable-state': '/repo/libs/isograph-react-disposable-state/src/index.ts',
  '@isograph/reference-counted-pointer': '/repo/libs/isograph-reference-counted-pointer/src/index.ts',
};

function inArtifactDir(p) {
  return artifactDirs.some((d) => p === d || p.startsWith(d + path.sep));
}

function isFile(p) {
  try { return statSync(p).isFile(); } catch { return false; }
}

export function resolveRelative(spec, parentPath) {
  const base = path.resolve(path.dirname(parentPath), spec);
  const cands = [base, base + '.ts', base + '.tsx', base + '.js', base + '.jsx', base + '.mjs',
    path.join(base, 'index.ts'), path.join(base, 'index.tsx'), path.join(base, 'index.js')];
  for (const c of cands) if (isFile(c)) return c;
  return null;
}

export async function resolve(specifier, context, nextResolve) {
  if (PKG[specifier]) return { url: pathToFileURL(PKG[specifier]).href, shortCircuit: true };
  if ((specifier.startsWith('./') || specifier.startsWith('../')) && context.parentURL && context.parentURL.startsWith('file:')) {
    const parent = fileURLToPath(context.parentURL);
    const r = resolveRelative(specifier, parent);
    if (r) return { url: pathToFileURL(r).href, shortCircuit: true };
    const e = new Error(`VERIF_UNRESOLVED_IMPORT ${specifier} from ${parent}`);
    e.code = 'ERR_MODULE_NOT_FOUND';
    throw e;
  }
  return nextResolve(specifier, context);
}

const IMPORT_RE = /^[ \t]*import\s+(type\s+)?([^'"\n;]*?)\s*from\s*(['"])([^'"\n]+)\3\s*;?[ \t]*$/gm;

function parseClause(clause) {
  // returns {def, ns, named:[{imported, local}]}
  const out = { def: null, ns: null, named: [] };
  let rest = clause.trim();
  const m = rest.match(/\{([^}]*)\}/);
  if (m) {
    for (const part of m[1].split(',')) {
      const p = part.trim();
      if (!p) continue;
      if (p.startsWith('type ')) continue;
      const mm = p.split(/\s+as\s+/);
      out.named.push({ imported: mm[0].trim(), local: (mm[1] || mm[0]).trim() });
    }
    rest = (rest.slice(0, m.index) + rest.slice(m.index + m[0].length)).trim();
  }
  rest = rest.replace(/,\s*$/, '').replace(/^,\s*/, '').trim();
  if (rest.startsWith('*')) {
    out.ns = rest.replace(/^\*\s*as\s+/, '').trim();
  } else if (rest) {
    out.def = rest.replace(/,.*$/, '').trim();
  }
  return out;
}

function used(code, name, importStmt) {
  const re = new RegExp('(?<![\\w$.])' + name.replace(/[$]/g, '\\$') + '(?![\\w$])', 'g');
  const without = code.replace(importStmt, '');
  return re.test(without);
}

export function transformTs(source, filePath) {
  let src = source;
  const isArtifact = inArtifactDir(filePath);
  // (a) imports of user modules from generated artifacts -> stubs
  if (isArtifact) {
    src = src.replace(IMPORT_RE, (stmt, typeKw, clause, q, spec) => {
      if (typeKw) return stmt;
      if (!(spec.startsWith('./') || spec.startsWith('../'))) return stmt;
      const target = path.resolve(path.dirname(filePath), spec);
      if (inArtifactDir(target)) return stmt;
      const c = parseClause(clause);
      const decls = [];
      const mk = (n) => `Object.assign((x) => x, {__verifStub: ${JSON.stringify(n + '@' + spec)}})`;
      if (c.def) decls.push(`${c.def} = ${mk('default')}`);
      if (c.ns) decls.push(`${c.ns} = new Proxy({}, {get: (_, k) => (x) => x})`);
      for (const n of c.named) decls.push(`${n.local} = ${mk(n.imported)}`);
      return decls.length ? `const ${decls.join(', ')};` : '';
    });
  }
  if (isArtifact && eagerComponents && /resolver_reader\.ts$/.test(filePath)) {
    src = src.replace(/kind: "ComponentReaderArtifact"/g, 'kind: "EagerReaderArtifact"');
  }
  // (b) the TypeScript syntax oracle
  let js = stripTypeScriptTypes(src, { mode: 'transform' });
  // (c) the stripper keeps value-syntax imports of type-only names: drop unused specifiers
  js = js.replace(IMPORT_RE, (stmt, typeKw, clause, q, spec) => {
    if (typeKw) return '';
    const c = parseClause(clause);
    const keepNamed = c.named.filter((n) => used(js, n.local, stmt));
    const keepDef = c.def && used(js, c.def, stmt) ? c.def : null;
    const keepNs = c.ns && used(js, c.ns, stmt) ? c.ns : null;
    const parts = [];
    if (keepDef) parts.push(keepDef);
    if (keepNs) parts.push(`* as ${keepNs}`);
    if (keepNamed.length) parts.push('{' + keepNamed.map((n) => (n.imported === n.local ? n.local : `${n.imported} as ${n.local}`)).join(', ') + '}');
    if (!parts.length) return `import ${q}${spec}${q};`; // keep the edge for import closure
    return `import ${parts.join(', ')} from ${q}${spec}${q};`;
  });
  return js;
}

export async function load(url, context, nextLoad) {
  if (url.startsWith('file:') && /\.(ts|mts)$/.test(url)) {
    const p = fileURLToPath(url);
    const source = readFileSync(p, 'utf8');
    let js;
    try {
      js = transformTs(source, p);
    } catch (e) {
      const err = new Error(`VERIF_TS_SYNTAX_ERROR ${p}: ${e.message}`);
      err.code = 'VERIF_TS_SYNTAX_ERROR';
      throw err;
    }
    return { format: 'module', source: js, shortCircuit: true };
  }
  return nextLoad(url, context);
}
