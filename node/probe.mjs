// probe.mjs dump <artifactDir> <out.json>
//   Imports every generated artifact through the loader (TS syntax oracle,
//   import-closure oracle) and dumps an "artifact model" as JSON.
import { register } from 'node:module';
import { readdirSync, readFileSync, writeFileSync, statSync } from 'node:fs';
import { pathToFileURL } from 'node:url';
import path from 'node:path';
import { transformTs, resolveRelative } from './hooks.mjs';

const [, , mode, artifactDirArg, outFile, ...rest] = process.argv;
const artifactDir = path.resolve(artifactDirArg);
register('./hooks.mjs', import.meta.url, { data: { artifactDirs: [artifactDir] } });
// transformTs is also used in-process for the per-file syntax check
import('./hooks.mjs').then((m) => m.initialize({ artifactDirs: [artifactDir] }));

function walk(dir, out = []) {
  for (const e of readdirSync(dir, { withFileTypes: true })) {
    const p = path.join(dir, e.name);
    if (e.isDirectory()) walk(p, out);
    else out.push(p);
  }
  return out;
}

// string- and comment-aware scan for import specifiers in the ORIGINAL text
function scanImports(src) {
  const out = [];
  let i = 0;
  const n = src.length;
  const isId = (c) => /[A-Za-z0-9_$]/.test(c);
  while (i < n) {
    const c = src[i];
    if (c === '/' && src[i + 1] === '/') { while (i < n && src[i] !== '\n') i++; continue; }
    if (c === '/' && src[i + 1] === '*') { i = src.indexOf('*/', i + 2); if (i < 0) break; i += 2; continue; }
    if (c === '\'' || c === '"' || c === '`') {
      const q = c; i++;
      while (i < n && src[i] !== q) { if (src[i] === '\\') i++; i++; }
      i++; continue;
    }
    if (src.startsWith('import', i) && (i === 0 || !isId(src[i - 1])) && !isId(src[i + 6] || ' ')) {
      // find the next string literal before a ';' or newline-terminated statement
      let j = i + 6;
      let typeOnly = /^\s+type[\s{]/.test(src.slice(j, j + 8));
      let dynamic = /^\s*\(/.test(src.slice(j, j + 4));
      while (j < n && src[j] !== '\'' && src[j] !== '"' && src[j] !== ';') j++;
      if (j < n && (src[j] === '\'' || src[j] === '"')) {
        const q = src[j]; let k = j + 1;
        while (k < n && src[k] !== q) { if (src[k] === '\\') k++; k++; }
        out.push({ spec: src.slice(j + 1, k), typeOnly, dynamic });
        i = k + 1; continue;
      }
      i = j; continue;
    }
    i++;
  }
  return out;
}

const model = { artifactDir, files: {}, imports: [], entrypoints: {}, refetch: {}, errors: [], isoTs: null, json: {} };
const all = walk(artifactDir).sort();
for (const f of all) {
  const rel = path.relative(artifactDir, f);
  if (f.endsWith('.ts')) {
    const src = readFileSync(f, 'utf8');
    let ok = true, error = null;
    try { transformTs(src, f); } catch (e) { ok = false; error = String(e.message).slice(0, 300); }
    model.files[rel] = { syntax_ok: ok, error, bytes: src.length };
    for (const imp of scanImports(src)) {
      let resolved = null, kind = 'package';
      if (imp.spec.startsWith('./') || imp.spec.startsWith('../')) {
        kind = 'relative';
        const r = resolveRelative(imp.spec, f);
        resolved = r ? path.relative(artifactDir, r) : null;
      }
      model.imports.push({ file: rel, spec: imp.spec, kind, resolved, typeOnly: imp.typeOnly, dynamic: imp.dynamic });
    }
    if (rel === 'iso.ts') model.isoTs = src;
  } else if (f.endsWith('.json')) {
    const src = readFileSync(f, 'utf8');
    try { model.json[rel] = JSON.parse(src); model.files[rel] = { syntax_ok: true, bytes: src.length }; }
    catch (e) { model.files[rel] = { syntax_ok: false, error: String(e.message).slice(0, 300), bytes: src.length }; }
  } else {
    model.files[rel] = { syntax_ok: true, bytes: statSync(f).size, other: true };
  }
}

const entrypointByObject = new Map();
const readerByFn = new Map();
const loaded = {};
async function imp(rel) {
  if (loaded[rel] !== undefined) return loaded[rel];
  try {
    const m = await import(pathToFileURL(path.join(artifactDir, rel)).href);
    loaded[rel] = m;
  } catch (e) {
    loaded[rel] = null;
    model.errors.push({ file: rel, error: String(e && e.message).slice(0, 400), code: e && e.code });
  }
  return loaded[rel];
}

function serOperation(op) {
  if (!op) return null;
  if (op.kind === 'Operation') return { kind: op.kind, text: op.text };
  return { kind: op.kind, operationId: op.operationId, extraInfo: op.extraInfo ?? null };
}

function serReaderAst(ast, seen) {
  return (ast || []).map((n) => {
    switch (n.kind) {
      case 'Scalar': return { kind: n.kind, fieldName: n.fieldName, alias: n.alias, arguments: n.arguments, isFallible: n.isFallible, isUpdatable: n.isUpdatable };
      case 'Link': return { kind: n.kind, alias: n.alias };
      case 'Linked': return {
        kind: n.kind, fieldName: n.fieldName, alias: n.alias, arguments: n.arguments, isFallible: n.isFallible,
        isUpdatable: n.isUpdatable, refetchQueryIndex: n.refetchQueryIndex ?? null,
        condition: n.condition ? serReader(n.condition, seen) : null,
        selections: serReaderAst(n.selections, seen),
      };
      case 'Resolver': return { kind: n.kind, alias: n.alias, arguments: n.arguments, usedRefetchQueries: n.usedRefetchQueries, reader: serReader(n.readerArtifact, seen) };
      case 'ImperativelyLoadedField': return { kind: n.kind, alias: n.alias, name: n.name, refetchQueryIndex: n.refetchQueryIndex, refetchReaderAst: serReaderAst(n.refetchReaderArtifact && n.refetchReaderArtifact.readerAst, seen) };
      case 'LoadablySelectedField': {
        const ep = n.entrypoint;
        let target = null;
        if (ep && ep.kind === 'Entrypoint') target = entrypointByObject.get(ep) ?? '<unknown entrypoint object>';
        else if (ep && ep.kind === 'EntrypointLoader') target = 'loader:' + ep.typeAndField;
        return { kind: n.kind, alias: n.alias, name: n.name, queryArguments: n.queryArguments, refetchReaderAst: serReaderAst(n.refetchReaderAst, seen), entrypoint: target, entrypointKind: ep && ep.kind };
      }
      default: return { kind: n.kind, unknown: true };
    }
  });
}

function serReader(fnOrArtifact, seen) {
  if (!fnOrArtifact) return null;
  const id = readerByFn.get(fnOrArtifact) ?? null;
  let art;
  try { art = typeof fnOrArtifact === 'function' ? fnOrArtifact() : fnOrArtifact; } catch (e) { return { error: String(e.message) }; }
  if (id && seen.has(id)) return { ref: id, kind: art.kind, fieldName: art.fieldName };
  const seen2 = new Set(seen); if (id) seen2.add(id);
  return { id, kind: art.kind, fieldName: art.fieldName, hasUpdatable: art.hasUpdatable, readerAst: serReaderAst(art.readerAst, seen2) };
}

const epFiles = Object.keys(model.files).filter((f) => f.endsWith('/entrypoint.ts'));
const readerFiles = Object.keys(model.files).filter((f) => f.endsWith('/resolver_reader.ts'));
for (const f of readerFiles) { const m = await imp(f); if (m && m.default) readerByFn.set(m.default, f.replace(/\/resolver_reader\.ts$/, '')); }
for (const f of epFiles) { const m = await imp(f); if (m && m.default) entrypointByObject.set(m.default, f.replace(/\/entrypoint\.ts$/, '')); }
for (const f of Object.keys(model.files)) if (f.endsWith('.ts') && loaded[f] === undefined) await imp(f);

for (const f of epFiles) {
  const m = loaded[f];
  if (!m || !m.default) continue;
  const a = m.default;
  const key = f.replace(/\/entrypoint\.ts$/, '');
  const nri = a.networkRequestInfo || {};
  let na = nri.normalizationAst;
  if (na && na.kind === 'NormalizationAstLoader') { try { na = await na.loader(); } catch (e) { na = { error: String(e.message) }; } }
  const rwr = a.readerWithRefetchQueries || {};
  let nested = rwr.nestedRefetchQueries, readerArt = rwr.readerArtifact, lazy = false;
  if (rwr.kind === 'ReaderWithRefetchQueriesLoader') {
    lazy = true;
    try { const r = await rwr.loader(); nested = r.nestedRefetchQueries; readerArt = r.readerArtifact; } catch (e) { model.errors.push({ file: f, error: 'loader: ' + e.message }); }
  }
  model.entrypoints[key] = {
    concreteType: a.concreteType,
    operation: serOperation(nri.operation),
    normalizationAst: na,
    lazyReader: lazy,
    nestedRefetchQueries: (nested || []).map((w) => ({
      allowedVariables: w.allowedVariables,
      concreteType: w.artifact && w.artifact.concreteType,
      kind: w.artifact && w.artifact.kind,
      operation: serOperation(w.artifact && w.artifact.networkRequestInfo && w.artifact.networkRequestInfo.operation),
      normalizationAst: w.artifact && w.artifact.networkRequestInfo && w.artifact.networkRequestInfo.normalizationAst,
    })),
    reader: serReader(readerArt, new Set()),
  };
}
writeFileSync(outFile, JSON.stringify(model));
console.log(JSON.stringify({ files: Object.keys(model.files).length, entrypoints: Object.keys(model.entrypoints).length, errors: model.errors.length }));
