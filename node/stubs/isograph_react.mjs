// '@isograph/react' as seen by generated artifacts: the real core modules, never
// src/index.ts (which pulls the .tsx React files).
export * from '/repo/libs/isograph-react/src/core/makeNetworkRequest.ts';
export * from '/repo/libs/isograph-react/src/core/PromiseWrapper.ts';
export * from '/repo/libs/isograph-react/src/core/IsographEnvironment.ts';
export * from '/repo/libs/isograph-react/src/core/read.ts';
export * from '/repo/libs/isograph-react/src/core/cache.ts';
export * from '/repo/libs/isograph-react/src/core/logging.ts';
