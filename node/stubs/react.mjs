// minimal stand-in for 'react' (the runtime core never renders)
const React = {
  createContext: (v) => ({ _v: v, Provider: () => null }),
  useContext: (c) => c._v,
  useState: (v) => [v, () => {}],
  useEffect: () => {},
  useMemo: (f) => f(),
  useRef: (v) => ({ current: v }),
  useCallback: (f) => f,
  createElement: () => null,
  Fragment: 'Fragment',
};
export default React;
export const createContext = React.createContext;
export const useContext = React.useContext;
export const useState = React.useState;
export const useEffect = React.useEffect;
export const useMemo = React.useMemo;
export const useRef = React.useRef;
export const useCallback = React.useCallback;
export const createElement = React.createElement;
export const Fragment = React.Fragment;
