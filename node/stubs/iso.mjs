export const iso = () => (f) => f;
