#!/bin/bash
# usage: tools/seeded_verify.sh <dir with patch.diff + run_demo.sh>   (run from anywhere)
# Confirms in a scratch worktree of /repo (outside /repo and /verif): the change compiles, the repository's own
# test suite passes with it, the demonstration fails with it and passes without it.  Writes <dir>/verify.log.
# One verification at a time (flock); private cargo target dir (a target dir shared with other worktrees gave
# wrong demo results: binaries relinked against another worktree's rlib).
set -u
d=$(realpath "$1")
wt=/var/tmp/vf-scratch/verify-wt
export CARGO_TARGET_DIR=/var/tmp/vf-scratch/verify-target CARGO_NET_OFFLINE=true
exec 9>/var/tmp/vf-scratch/verify.lock; flock 9
[ -d $wt ] || git -C /repo worktree add --detach $wt HEAD >/dev/null 2>&1 || exit 2
git -C $wt checkout -q -- . ; git -C $wt clean -fdq; git -C $wt checkout -q --detach $(git -C /repo rev-parse HEAD)
log=$d/verify.log; : > $log
{
echo "base commit: $(git -C $wt rev-parse --short HEAD)"
git -C $wt apply $d/patch.diff || { echo "PATCH DOES NOT APPLY"; }
( cd $wt && cargo test --workspace --no-fail-fast --offline --lib --bins --tests > $d/verify_suite.log 2>&1 ); s=$?
pass=$(grep -E "^test result" $d/verify_suite.log | awk '{p+=$4; f+=$6} END {print p" passed "f" failed"}')
echo "suite with change (cargo test --workspace --no-fail-fast --offline --lib --bins --tests): exit=$s $pass"
bash $d/run_demo.sh $wt > $d/verify_demo_with.log 2>&1; a=$?
echo "demo with change: exit=$a (expected non-zero)"
git -C $wt checkout -q -- . ; git -C $wt clean -fdq
bash $d/run_demo.sh $wt > $d/verify_demo_without.log 2>&1; b=$?
echo "demo without change: exit=$b (expected 0)"
if [ $s -eq 0 ] && [ $a -ne 0 ] && [ $b -eq 0 ]; then echo "VERIFIED"; else echo "NOT VERIFIED"; fi
} >> $log 2>&1
cat $log
