#!/bin/bash
# usage: tools/run_all.sh <tier> <seed> [ids...]   -> logs under /var/tmp/vf-logs
cd /verif
tier=${1:-quick}; seed=${2:-1}; shift; shift
ids="$@"
[ -z "$ids" ] && ids=$(python3 -c "import json;print(' '.join(c['property_id'] for c in json.load(open('MANIFEST.json'))['checks']))")
mkdir -p /var/tmp/vf-logs
for id in $ids; do
  t0=$(date +%s)
  VERIF_SEED=$seed ./check $id --tier $tier > /var/tmp/vf-logs/$id.$tier.$seed.log 2>&1
  rc=$?
  t1=$(date +%s)
  echo "$id tier=$tier seed=$seed rc=$rc wall=$((t1-t0))s $(grep -c '^VIOLATION' /var/tmp/vf-logs/$id.$tier.$seed.log) viol $(grep -c '^KNOWN-FINDING' /var/tmp/vf-logs/$id.$tier.$seed.log) known"
done
