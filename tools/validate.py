#!/usr/bin/env python3-vt
"""Validates MANIFEST.json and every evidence file against the schemas in /root/.vp."""
import json, os, sys, glob
import jsonschema
V = os.path.dirname(os.path.dirname(os.path.abspath(__file__)))
ok = True
m = json.load(open(os.path.join(V, "MANIFEST.json")))
try:
    jsonschema.validate(m, json.load(open("/root/.vp/MANIFEST.schema.json")))
    print("MANIFEST ok:", len(m["checks"]), "checks,", len(m.get("not_applicable", [])), "not_applicable")
except jsonschema.ValidationError as e:
    ok = False; print("MANIFEST INVALID:", e.message)
es = json.load(open("/root/.vp/EVIDENCE.schema.json"))
for c in m["checks"]:
    f = c["evidence_file"]
    if not os.path.exists(f):
        print("missing evidence", f); ok = False; continue
    try:
        ev = json.load(open(f))
        jsonschema.validate(ev, es)
        if ev["level"] != c["level_claimed"]["category"]:
            print("level mismatch", f); ok = False
    except Exception as e:
        ok = False; print("EVIDENCE INVALID", f, str(e)[:200])
sys.exit(0 if ok else 1)
