#!/bin/bash
# usage: tools/seeded_run.sh <patch.diff> <ID> [<ID>...]   applies the patch to /repo ITSELF, runs the checks, reverts.
# Only when nobody else is working in /repo.
set -u
patch=$(realpath "$1"); shift
[ -n "$(git -C /repo status --porcelain --untracked-files=no)" ] && { echo "/repo has uncommitted changes; refusing"; exit 2; }
git -C /repo apply "$patch" || { echo "patch does not apply"; exit 2; }
cd /verif
for id in "$@"; do
  ./check $id --tier ${TIER:-quick} > /var/tmp/vf-logs/seeded.$id.log 2>&1
  echo "$id rc=$? $(grep -c '^VIOLATION' /var/tmp/vf-logs/seeded.$id.log) violations: $(grep -m2 'signature=' /var/tmp/vf-logs/seeded.$id.log | cut -c1-220)"
done
git -C /repo checkout -- .
git -C /repo status --porcelain --untracked-files=no | head -3
