#!/usr/bin/env python3
"""Prints a markdown summary of known_findings.json + known_findings.d/*.json (for DESIGN.md section 10)."""
import glob, json, os, re, collections
V = os.path.dirname(os.path.dirname(os.path.abspath(__file__)))
files = [os.path.join(V, "known_findings.json")] + sorted(glob.glob(os.path.join(V, "known_findings.d", "*.json")))
fixed, open_ = collections.defaultdict(list), collections.defaultdict(list)
for f in files:
    d = json.load(open(f))
    for x in d.get("fixed", []):
        m = re.match(r"fixed: property=(C\d\d) (\w+) (.*)", x, re.S)
        fixed[m.group(1)].append((m.group(2), m.group(3).strip()))
    for x in d.get("findings", []):
        if x.get("status", "open") == "open":
            open_[x["property"]].append((x["signature"], x["description"]))
print("### 10.1 Genuine defects repaired (`fix:` commits in /repo)\n")
print("| property | commit | what failed |\n|---|---|---|")
for p in sorted(fixed):
    for h, w in fixed[p]:
        print(f"| {p} | `{h}` | {w[:300].replace('|', '/')} |")
print(f"\n{sum(len(v) for v in fixed.values())} repairs.\n")
print("### 10.2 Genuine defects recorded as known findings (open)\n")
print("| property | signature | what fails / why not repaired here |\n|---|---|---|")
for p in sorted(open_):
    for s, w in open_[p]:
        print(f"| {p} | `{s}` | {w[:420].replace('|', '/')} |")
print(f"\n{sum(len(v) for v in open_.values())} open findings.")
