#!/usr/bin/env python3
"""Prints the prompt for a fresh 'breaker' sub-agent for one property (used by hand when launching agents)."""
import json, sys
pid, tag = sys.argv[1], sys.argv[2]
p = [json.loads(l) for l in open('/verif/properties.jsonl') if json.loads(l)['id'] == pid][0]
wt = f"/tmp/seed/{tag}"
print(f"""You are testing how well a property of the isographlabs/isograph repository is protected. You have your own scratch git worktree of the repository at {wt} (a detached checkout; the Rust workspace is at its top level; no network; build with `CARGO_TARGET_DIR=/tmp/seed/target cargo build --offline` / `CARGO_TARGET_DIR=/tmp/seed/target cargo test --workspace --no-fail-fast --offline` from {wt} — the shared target dir is used by other people too, so waiting for the cargo lock is normal; a first full test build takes several minutes). Work ONLY inside {wt} and {wt}-out; do not read or touch /repo, /verif or anything else outside those two directories.

The property (a semantic guarantee users of the repository rely on):

  id: {p['id']}
  title: {p['title']}
  statement: {p['statement']}
  quantified over: {p['quantifier']['text']}
  anchored in: {json.dumps(p['anchors'].get('files'))}; mechanisms: {json.dumps(p['anchors'].get('mechanism'))}

Your job: write ONE realistic change to the repository's source (the kind of regression a plausible refactoring, optimisation or bug fix could introduce) that BREAKS this property while the code still compiles and the whole existing test suite (`cargo test --workspace --no-fail-fast --offline`) still passes. Prefer a change that needs something specific to manifest — a particular interleaving, a crash or fault at a particular point, a multi-step sequence of operations, an unusual input, or two cooperating sites that each look fine alone — not one that ordinary use would expose at once (e.g. do not simply make the main path always wrong). Keep it small (a few lines to a few dozen). Code guarded by `#[cfg(isographlabs_isograph_verif)]` is test instrumentation: do not change or rely on it.

Also write a demonstration: a test or a small program (Rust integration test inside the worktree, or a script plus input files run against the built `isograph_cli` binary — whatever fits) that FAILS with your change and PASSES without it, showing the property is really broken (not merely that output text changed).

Steps: read the anchored code; design the change; apply it in {wt}; confirm the workspace builds and the full existing test suite passes with the change; confirm your demonstration fails with the change and passes on the original code (to switch between the two states save your change with `git -C {wt} diff > {wt}-out/patch.diff` and use `git -C {wt} apply -R {wt}-out/patch.diff` / `git -C {wt} apply {wt}-out/patch.diff`; do NOT use `git stash`, `git commit`, `git checkout <branch>` or `git reset`: refs are shared with other worktrees). Then write into {wt}-out/ (create it): `patch.diff` (output of `git -C {wt} diff` for the source change ONLY, without the demonstration), the demonstration files (with a `run_demo.sh` that exits non-zero when the property is broken and explains how to run it against an arbitrary checkout path given as $1), and `README.md` saying: what the change is, why it breaks the property, what it needs in order to manifest (input shape / interleaving / sequence), the commands you ran and their results (test suite with the change; demonstration with and without). Do not commit anything. Your final message should summarise the same.""")
