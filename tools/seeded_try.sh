#!/bin/bash
# usage: tools/seeded_try.sh <patch.diff> <ID> [<ID>...]
# Runs CLI-based (E3) checks against a scratch worktree of /repo with the patch applied (VERIF_REPO), so /repo
# itself is not disturbed while other work is going on.  Harness-crate checks need /repo itself: use seeded_run.sh.
set -u
patch=$(realpath "$1"); shift
wt=/var/tmp/vf-scratch/seeded-wt
mkdir -p /var/tmp/vf-scratch
if [ ! -d $wt ]; then git -C /repo worktree add --detach $wt HEAD >/dev/null || exit 2; fi
git -C $wt checkout -q --detach $(git -C /repo rev-parse HEAD) || exit 2
git -C $wt checkout -q -- . ; git -C $wt clean -fdq
git -C $wt apply "$patch" || { echo "patch does not apply"; exit 2; }
cd /verif
for id in "$@"; do
  VERIF_REPO=$wt VERIF_TMP=/verif/.work/seeded ./check $id --tier ${TIER:-quick} > /var/tmp/vf-logs/seeded.$id.log 2>&1
  echo "$id rc=$? $(grep -c '^VIOLATION' /var/tmp/vf-logs/seeded.$id.log) violations: $(grep -m2 'signature=' /var/tmp/vf-logs/seeded.$id.log | cut -c1-220)"
done
git -C $wt checkout -q -- . ; git -C $wt clean -fdq
