#!/usr/bin/env python3
"""Regenerates /verif/MANIFEST.json from the table below (kept by hand)."""
import json, os
V = os.path.dirname(os.path.dirname(os.path.abspath(__file__)))
ALL = [json.loads(l)["id"] for l in open(os.path.join(V, "properties.jsonl"))]

E1 = "pico_mon"
CHECKS = {
 "C01": dict(engine=E1, level="exploration", technique="runtime monitor: online reference-model (pure twin) comparison over generated histories on the real pico",
   text="Held on N generated histories (evidence gives N, ops, nested values compared): every top-level and nested memoized value equalled a from-scratch evaluation on a model. Sampling, not proof; the histories are biased to the orderings tests never sample (absent-then-written sources, remove/re-set, write-GC-call).",
   note="Trusted: the twin functions and the model in harness/pico_mon/src/program.rs; one test program stands for all programs.", ref="3/C01"),
 "C02": dict(engine=E1, level="exploration", technique="runtime monitor: offline checker over the event log (Enter/Read/Dep/Exit) recorded at pico's client boundary",
   text="Held on N histories: every re-execution of a memoized body was justified by a changed direct dependency or a possible GC discard; equal-value writes, unrelated writes and backdating opportunities are counted in the evidence.",
   note="Trusted: the justification rule (DESIGN 3/C02) and the harness's guaranteed-retained model.", ref="3/C02"),
 "C03": dict(engine=E1, level="exploration", technique="runtime monitors (retention model, reference liveness via drop-registering values) + Miri (quick) + ASan/valgrind (thorough)",
   text="Held on N GC-heavy histories natively and a few hundred under Miri: retained results were not re-executed, references read the same value across GC, no UB other than the listed known finding (intern_ref shared identity).",
   note="Trusted: harness retention model; Miri/ASan see only the executed histories.", ref="3/C03"),
 "C04": dict(engine=E1, level="exploration", technique="runtime monitor: twin comparison for same-signature functions + hook recording memo-key -> function identity in harness and real CLI",
   text="Held on N histories calling two token-identical #[memo] functions from different modules, and no memo key was registered by two identities among the functions executed by pico_mon and by isograph_cli on the checked-in projects.",
   note="Hook pico::verif (cfg) is trusted to report the key the macro really uses.", ref="3/C04"),
}

def main():
    checks = []
    for pid in ALL:
        c = CHECKS.get(pid)
        if not c or pid in WITHHELD or not os.path.exists(os.path.join(V, "pylib", "props", pid.lower() + ".py")):
            continue
        checks.append({
            "property_id": pid,
            "quick_cmd": f"./check {pid} --tier quick",
            "thorough_cmd": f"./check {pid} --tier thorough",
            "evidence_file": f"/verif/evidence/{pid}.json",
            "replay_cmd_template": f"./check {pid} --replay {{path}}",
            "engine": c["engine"],
            "level_claimed": {"category": c["level"], "text": c["text"], "design_ref": c["ref"]},
            "level_note": c["note"],
            "technique": c["technique"],
        })
    claimed = {c["property_id"] for c in checks}
    na = [{"property_id": p, "reason": NOT_YET.get(p, "check not built yet in this round; design in DESIGN.md section 3")} for p in ALL if p not in claimed]
    m = {
        "version": 1,
        "setup_cmd": "./check --setup",
        "hooks": {
            "guard": "isographlabs_isograph_verif",
            "enable": "RUSTFLAGS=\"--cfg isographlabs_isograph_verif\" (set by pylib/runner.py for every cargo build of /repo code)",
            "baseline_off_cmd": "cd /repo && cargo test --workspace --no-fail-fast --offline",
            "source_commits": HOOK_COMMITS,
            "add_only": True,
        },
        "engines": [dict(e, serves_properties=[p for p in e["serves_properties"] if p in claimed]) for e in ENGINES
                    if any(p in claimed for p in e["serves_properties"])],
        "checks": checks,
        "not_applicable": na,
        "notes": "Technique family: runtime monitoring and sanitizers. See DESIGN.md; known_findings.json lists genuine defects (open and fixed).",
    }
    json.dump(m, open(os.path.join(V, "MANIFEST.json"), "w"), indent=1)
    print("claimed", sorted(claimed), "not_applicable", len(na))

NOT_YET = {}
WITHHELD = {}
NOT_YET.update(WITHHELD)
ENGINES = [
 {"name": "pico_mon", "path": "harness/pico_mon", "serves_properties": ["C01", "C02", "C03", "C04"],
  "kind_free_text": "Rust binary linking the real pico: history generator, executor, event log at pico's client boundary, online/offline monitors; runs natively, under Miri, ASan, valgrind"},
]

E2 = "intern_mon"; E3 = "e3_cli_node"; EU = "util_tools"; EL = "lsp_tools"; ES = "swc_tools"; EG = "gql_tools"; EF = "iso_tools"
CHECKS.update({
 "C05": dict(engine=E2, level="exploration", technique="runtime monitoring: concurrent seeded histories on the real intern tables with injected delays at hook sites, offline checkers (bijection, per-value linearizability of get_interned, density, Ord, serde round trip) + Miri many-seeds (quick) + TSan/ASan (thorough)",
   text="Held on N multi-threaded histories (evidence: histories, ops, contended try_write, distinct hook-order interleavings, Miri seeds completed): ids and values stayed in bijection, lookups returned the interned value, indices dense and stable, ordering and serialisation faithful; no Miri/TSan/ASan report. Schedules are sampled (OS scheduler x delay plans x Miri seeds), not enumerated.",
   note="Trusted: offline checkers in harness/intern_mon/src/c05.rs; hook H2 only adds delay points between critical sections.", ref="3/C05"),
 "C06": dict(engine=E2, level="exploration", technique="runtime monitoring: concurrent add/get/len histories on the real AtomicArena with injected delays at bucket-boundary races, unique elements + drop counters, offline checker + Miri many-seeds (quick) + TSan/ASan/memory_consistency_assertions (thorough)",
   text="Held on N histories (evidence: bucket-allocation races observed, interleaving fingerprints, Miri seeds): no Ref handed out twice, every get read the element added under that Ref, len monotone and exact after join, each element dropped exactly once; no Miri/TSan/ASan report. Sampled schedules.",
   note="Trusted: checker in harness/intern_mon/src/c06.rs; elements are unique so reads identify writes.", ref="3/C06"),
 "C07": dict(engine=EU, level="exploration", technique="runtime monitoring: generated/mutated/extreme inputs into the real parse_iso_literal in child processes (signals, panics, CPU clock) with a span/semantic-token well-formedness monitor; libFuzzer+ASan leg in thorough",
   text="Held on N inputs (grammar-directed, token- and byte-level mutations, extremes): no panic/abort, bounded CPU per parse, every span in range, ordered and on char boundaries, semantic tokens increasing and disjoint; the deep-nesting stack overflows are listed known findings.",
   note="Trusted: hand-written AST visitor in harness/util_tools/src/ast.rs covers all span-carrying public fields.", ref="3/C07"),
 "C09": dict(engine=E3, level="exploration", technique="runtime monitoring: real isograph_cli on generated + checked-in projects; every operation string as node evaluates it is parsed and validated (spec section 5) by the reference GraphQL implementation pylib/gqlref.py",
   text="Held on N compiled projects / M distinct operations (evidence lists per-rule subject counts): every operation parsed and validated against the project schema, except the listed known finding (same response name under two refinements with different types).",
   note="Trusted: pylib/gqlref.py (spec transcription, self-tested each run).", ref="3/C09"),
 "C11": dict(engine=E3, level="exploration", technique="runtime monitoring: tree comparison of each generated operation (parsed by reference parser) with the normalization AST node evaluates from the artifact, incl. concreteType vs schema kind",
   text="Held on N operations (entrypoints and refetch queries) of generated + checked-in projects: same fields/arguments/inline fragments per level, Linked vs Scalar, concreteType exactly for object types.",
   note="Trusted: gqlref parser and the project's schema files; dynamic half observed in C10/C12.", ref="3/C11"),
 "C13": dict(engine=E3, level="exploration", technique="runtime monitoring: every generated file parsed by node 22's TypeScript stripper / JSON.parse and actually imported through an ESM loader; relative import specifiers scanned from the original text must resolve to generated files",
   text="Held on N compiles over distinct option combinations and hostile text (descriptions, strings, headers): all artifacts parsed, loaded and were import-closed.",
   note="Trusted: node's TypeScript stripper as syntax oracle (no type checking).", ref="3/C13"),
 "C21": dict(engine=EL, level="exploration", technique="runtime monitoring: in-process long-lived LspState driven through the real notification/request dispatch (hook H6) vs two fresh servers after every step; serialised answers compared; divergences shrunk",
   text="Held on N edit/notification histories: diagnostics, semantic tokens, formatting, hover and definition of the long-lived server equalled a fresh server on the effective contents; one listed known finding (open buffer of a file absent on disk).",
   note="Trusted: the harness's notion of effective contents (disk overridden by open buffers).", ref="3/C21"),
 "C22": dict(engine=EL, level="exploration", technique="runtime monitoring: real formatting request on generated documents; monitors: re-parse, span-erased AST equality, idempotence, independent LSP edit applier",
   text="Held on N accepted literals in generated documents with non-ASCII surroundings.",
   note="Trusted: span-erasing AST comparison in harness/lsp_tools/src/ast.rs and the edit applier.", ref="3/C22"),
 "C23": dict(engine=EL, level="exploration", technique="runtime monitoring: semantic tokens / diagnostics / formatting / hover / definition ranges decoded with an independent byte<->UTF-16 converter and compared with the parser's byte spans",
   text="Held on N documents with 2-4-byte characters, CRLF and multi-line tokens: every range addressed exactly the text it describes.",
   note="Trusted: reference converter in harness/lsp_tools/src/pos.rs.", ref="3/C23"),
 "C28": dict(engine=ES, level="exploration", technique="runtime monitoring: the real swc plugin pass (rlib) on the same generated source files the real CLI compiled; import specifiers resolved against files on disk; printed module compared with a hand-substituted one",
   text="Held on N iso calls in generated modules over header whitespace/directive/keyword-prefix variety, both module settings, file depths and artifact_directory settings.",
   note="Trusted: what the compiler understood is read back from iso.ts and entrypoint.ts files it wrote.", ref="3/C28"),
 "C29": dict(engine=EG, level="exploration", technique="runtime monitoring: differential testing of the relay parser/printer against construction-known trees and the reference parser gqlref on generated, mutated and edge-case documents",
   text="Held on N documents except the listed known findings (escape decoding, i64 ints, empty documents, empty extensions, printer drops).",
   note="Trusted: pylib/gqlref.py and pylib/gqlgen.py (AST-first generator).", ref="3/C29"),
 "C30": dict(engine=EG, level="exploration", technique="runtime monitoring: differential testing of graphql_schema_parser against construction-known trees, gqlref and (third opinion) the relay parser",
   text="Held on N schema documents inside the supported subset except the listed known findings.",
   note="Trusted: pylib/gqlref.py; subset grammar written in pylib/props/c30.py.", ref="3/C30"),
 "C31": dict(engine=EU, level="exploration", technique="runtime monitoring: real text_with_carats on generated texts with every span (short texts) against an independent row/column/caret-cell model; Miri leg for slicing",
   text="Held on N (text, span) pairs incl. multi-byte characters, CRLF, outer offsets: no panic, row/column right, one caret per character of the span.",
   note="Trusted: model in harness/util_tools/src/carats.rs.", ref="3/C31"),
 "C32": dict(engine=EU, level="exploration", technique="runtime monitoring: derived resolve() at every byte offset of generated literals vs an independent AST walk (pointer identity of nodes and ancestor chains)",
   text="Held on N literals x every offset: returned node innermost, chain equals the true ancestor chain.",
   note="Trusted: hand-written walker in harness/util_tools/src/resolve.rs.", ref="3/C32"),
 "C33": dict(engine=EU, level="exploration", technique="runtime monitoring: real sign_file / is_valid_signature on generated contents and every single-character edit (short contents)",
   text="Held on N contents and M edits: signed files verify (token once or several times), every edit outside the hex digits invalidates.",
   note="Trusted: edit enumerator in harness/util_tools/src/signed.rs.", ref="3/C33"),
})
ENGINES += [
 {"name": E2, "path": "harness/intern_mon", "serves_properties": ["C05", "C06"], "kind_free_text": "Rust binary over the real intern crate (hook H2 delay points): seeded multi-threaded histories, per-thread logs, offline checkers; native, Miri many-seeds, TSan, ASan"},
 {"name": E3, "path": "pylib/e3.py", "serves_properties": ["C08","C09","C10","C11","C12","C13","C14","C15","C16","C17","C24","C25","C26","C27"], "kind_free_text": "project generator (pylib/isogen.py) -> real isograph_cli subprocess -> node 22 probe (node/probe.mjs: TS stripper, ESM loader, real isograph-react runtime) -> Python oracles with reference GraphQL implementation"},
 {"name": EU, "path": "harness/util_tools", "serves_properties": ["C07","C31","C32","C33"], "kind_free_text": "Rust tool: generators + monitors around parse_iso_literal, resolve, text_with_carats, signedsource; child-process isolation, Miri, libFuzzer"},
 {"name": EL, "path": "harness/lsp_tools", "serves_properties": ["C21","C22","C23"], "kind_free_text": "Rust tool driving the real language-server state and handlers in-process (hook H6) against fresh servers and independent converters"},
 {"name": ES, "path": "harness/swc_tools", "serves_properties": ["C28"], "kind_free_text": "Rust tool linking the swc plugin as rlib; parse/transform/print of generated modules"},
 {"name": EG, "path": "harness/gql_tools", "serves_properties": ["C29","C30"], "kind_free_text": "Rust tool dumping relay graphql-syntax and graphql_schema_parser trees as canonical JSON for comparison with pylib/gqlref.py"},
 {"name": EF, "path": "harness/iso_tools", "serves_properties": ["C18","C19","C20"], "kind_free_text": "Rust tool `fsops` over isograph_compiler::verif (hook H4 + write_artifacts_to_disk re-export): `sets` drives seeded artifact-set sessions through the real plan/apply/state code on real directories with hostile initial content; `project` drives real projects through CompilerState/update_sources/compile with a per-primitive fault plan; pylib/fsops_common.py adds the real isograph_cli as a black box and under strace fault/kill injection"},
]

CHECKS.update({
 "C08": dict(engine=E3, level="exploration", technique="runtime monitoring: the real isograph_cli run as a child process per case (signal, exit status, panic text, child CPU time) on generated, mutated and hostile projects",
   text="Held on N compiles (generated valid projects, single/multi-fault mutants, ~30 hostile shapes, raw mutations of checked-in and generated projects): no signal, no panic, bounded CPU, exit 0 or a diagnostic; listed known findings excepted.",
   note="Trusted: panic detection by stderr text/exit 101; a config naming files that do not exist is treated as not well-formed.", ref="3/C08"),
 "C14": dict(engine=E3, level="exploration", technique="runtime monitoring: repeated compiles in fresh processes over copies created in different orders and over layout-permuted copies; byte comparison of artifact trees and of normalised diagnostics",
   text="Held on N comparisons over valid and invalid projects: identical artifact bytes and diagnostics across fresh processes and file creation orders; identical artifacts (modulo user-module import paths) and diagnostic message sets across layouts.",
   note="Trusted: normalisation of timing text and of import specifiers leaving the artifact directory.", ref="3/C14"),
 "C15": dict(engine=E3, level="exploration", technique="runtime monitoring: metamorphic testing - meaning-preserving rearrangements of generated programs compiled by the real CLI, entrypoint query_text.ts and normalization_ast.ts compared byte for byte",
   text="Held on N metamorphic pairs (permute, duplicate under alias, extract client field, inline client field; composed up to 3).",
   note="Trusted: the transformations in pylib/isomut.py preserve the set of (field, arguments) paths.", ref="3/C15"),
 "C16": dict(engine=E3, level="exploration", technique="runtime monitoring: generated well-typed programs and single-fault mutants compiled by the real CLI; oracle = exit status + diagnostic presence per fault kind and position",
   text="Held on N programs and M single-fault mutants over 19 fault kinds at top-level/nested/refinement/client-argument positions: valid accepted, invalid rejected; one listed known finding (undefined argument named id).",
   note="Trusted: the generator's type discipline and the mutators' single-fault construction.", ref="3/C16"),
 "C17": dict(engine=E3, level="exploration", technique="runtime monitoring: snapshot (path, bytes, mtime ns, inode) of the artifact directory before/after failing compiles by the real CLI over varied initial directory states",
   text="Held on N failing compiles (validation faults, literal/schema syntax errors, missing schema/type, duplicate declarations) over previous-compile/stale/foreign/empty/absent directories: no file created, modified or deleted.",
   note="Watch-mode clause observed by the C20 engine.", ref="3/C17"),
 "C26": dict(engine=E3, level="exploration", technique="runtime monitoring: persisted and non-persisted builds of the same project by the real CLI, artifacts evaluated by node; ids re-hashed with hashlib, documents compared as GraphQL ASTs, file entries vs referenced ids",
   text="Held on N projects x option combinations (md5/sha256/default, extra info, custom file): ids are hashes of recorded documents, documents equal the non-persisted operations, file records exactly the referenced operations.",
   note="Trusted: python hashlib; pylib/gqlref.py for document equality.", ref="3/C26"),
})

EW = "watch_tools"
CHECKS.update({
 "C20": dict(engine=EW, level="exploration", technique="runtime monitoring: (a) in-process replay of seeded edit scripts (real syscalls on a temp tree, debounced events synthesised from shapes recorded with the real debouncer, batched windows, deferred batches, interleaved garbage collections) through the real categorisation/update/compile path vs a fresh CompilerState after every step - artifact paths+bytes, diagnostics set, artifact directory on disk; failing scripts shrunk; (b) real isograph_cli --watch subprocesses edited with real syscalls, compared with a batch compile of a copy, ordering enforced by a probe-file recompile, liveness checked; thorough re-measures the event shapes",
   text="Held on N scripts / M step comparisons (sim) and K real watch sessions: after every event batch the incremental state's artifacts, diagnostics and artifact directory equalled a fresh compile and the watcher kept running, except for six listed known-finding signatures (schema removed/replaced; extension removed/replaced x3; non-UTF-8 source file; panic inside notify-debouncer-full). Seven defects found by this check were fixed.",
   note="Trusted: the recorded inotify event shapes (rechecked in thorough); that path-disjoint edits of one debounce window concatenate; diagnostic locations compared only by message where hash order decides the location. Not covered: config-file edits, schema inside project_root, symlinks, non-Linux backends, the start-up window before watches exist.", ref="3/C20"),
})
ENGINES += [{"name": EW, "path": "harness/watch_tools", "serves_properties": ["C20"], "kind_free_text": "Rust tool replaying generated file-system edit scripts against a long-lived CompilerState exactly as handle_watch_command's loop does (hook H5 categorize_and_filter_events -> update_sources -> compile -> gc), with synthesised notify events from recorded real shapes, compared with a fresh CompilerState after every step; plus real isograph_cli --watch sessions"}]

CHECKS.update({
 "C24": dict(engine=E3, level="exploration", technique="runtime monitoring: real isograph_cli on generated prefix-name / header-whitespace projects and checked-in projects; overload list, patterns and the two type-level definitions parsed from the generated iso.ts; each source literal (compiler's extraction regex, template-cooked) resolved against them in source order",
   text="Held on N accepted programs / M iso literals: every client field, pointer and entrypoint literal has an overload in iso.ts and the first overload (source order) matching its text under the file's own Whitespace/MatchesWhitespaceAndString definitions is its own; literals whose header is not `<kw> <Type>.<field>` with one space match no overload (six listed known findings).",
   note="No tsc offline: overload resolution = first applicable overload; the two type-level definitions are read from the file and must equal the modelled shape (else inconclusive); literals with backslash or `${` counted but not resolved.", ref="3/C24"),
 "C27": dict(engine=E3, level="exploration", technique="runtime monitoring: generated + checked-in projects compiled by the real CLI, artifacts evaluated by node; param_type.ts / raw_response_type.ts parsed by a hand-written parser of the emitted type sub-language (pylib/ts_types.py) and compared with the generator's intent model, with the reader AST + schema (gqlref), and with the operation text + schema",
   text="Held on N param types (P properties) and R raw response types (K keys): one property per selection named by alias or name, `| null` per level iff schema nullability, ReadonlyArray depth = list depth incl. nested lists, nesting, refinements/__typename/client fields/loadable/refetch/link/pointers typed by their convention; same keys and isFallible as the reader AST; raw response types have the key sets, nesting and wrappers of their operation; listed known findings excepted.",
   note="Trusted: pylib/ts_types.py parser, gqlref, isogen intent model; the JS type of scalars is not checked; the printer's inline-fragment union convention is followed; only the `data` member is compared; files node's stripper rejects are left to C13.", ref="3/C27"),
})

CHECKS.update({
 "C18": dict(engine=EF, level="exploration", technique="runtime monitoring: real plan/apply code (in-process, hook re-exports) on 1-5-step random artifact-set sessions over arbitrary initial directory contents; real CompilerState sessions and the real isograph_cli on generated projects with edit sequences; lstat tree walk vs artifact set, operation list and inode/mtime of aged files for write minimality",
   text="Held on N artifact-set sessions (M writes), P in-process project sessions and Q CLI projects over missing/empty/stale/foreign/file-for-directory/symlink directory states: directory == artifacts after every successful write; no unchanged artifact rewritten by later writes.",
   note="Trusted: tree walker; entity/selectable names never collide with root file names; an artifact path that is a regular file is counted as refused; in-process legs need cfg(isographlabs_isograph_verif), CLI leg and cross-check are hook-free; tmpfs and ext4 targets.", ref="3/C18"),
 "C19": dict(engine=EF, level="fault_enumeration", technique="runtime monitoring with exhaustive fault enumeration: every primitive k of the write phase failed through the hook fault plan (artifact-set sessions and real CompilerState sessions; first and later compiles), then 0-3 changes and recovery in the same session and in a fresh session; hook-free leg: real isograph_cli under strace inject error=EIO / signal=KILL at every write-phase syscall invocation, then an untraced compile; oracle = C18 tree equality",
   text="Held: every fault point of every case (N points over DeleteDirectory/CreateDirectory/WriteFile/DeleteFile; S strace injections over openat/mkdir/unlinkat/write, EIO and KILL) reported an error and was repaired by the next successful compile in the same session and in a new one; exhaustive per case.",
   note="Enumeration is exhaustive per generated case (counts by a fault-free dry run; exhaustive=false if any point was missed); in-process faults fail a primitive before it acts, partial effects only through strace; strace when=N counts per thread, each injection confirmed on an artifact path; operation kind inferred from the error path.", ref="3/C19"),
})

CHECKS.update({
 "C10": dict(engine=E3, level="exploration", technique="runtime monitoring: artifacts of the real compiler loaded into the REAL isograph-react runtime (libs/isograph-react/src/core/*.ts) in node 22; conforming responses generated from the operation text + schema; real normalizeData then real readButDoNotEvaluate through every non-loadable resolver; oracle = the runtime's own DoneReading{MissingData} logger event / thrown promise / exception",
   text="Held on N generated responses over M programs (client field chains with arguments, @component readers, refinements, pointers, loadable boundaries, exposed mutation fields; checked-in projects): after normalizing a conforming response every reachable reader found every server field it reads.",
   note="Trusted: response generator (walks operation text against the schema), loader rewrite ComponentReaderArtifact->EagerReaderArtifact so that readData recurses; suspense/promise paths not driven (no React).", ref="3/C10"),
 "C12": dict(engine=E3, level="exploration", technique="runtime monitoring: static key uniqueness/legality over generated operations + the key the REAL runtime looks up (recording Proxy response during the real normalizeData) vs the alias the compiler printed + a micro-workload feeding adversarial argument lists to the runtime key function (synthetic normalization AST node) and to the compiler",
   text="Held on N operations / K compared keys except the listed known findings (strings that differ only in non-word characters or imitate the key structure collide; integers outside the JS safe range).",
   note="Trusted: canonical argument comparison in pylib/e3_oracles.py; the synthetic AST nodes are built independently of the compiler.", ref="3/C12"),
 "C25": dict(engine=E3, level="exploration", technique="runtime monitoring: static composition of usedRefetchQueries/refetchQueryIndex over the artifact model + dynamic leg in node 22: real normalizeData + readButDoNotEvaluate, then every refetch function the readers returned is INVOKED with a recording network function; operation sent, variables and index compared with the refetch artifact generated for that selection at that position",
   text="Held on N programs in which one client field with refetchable selections (__refetch, exposed mutation fields, @loadable children, pointers) is reused by several parents and entrypoints at different positions: every composed index was in range and selected the refetch query of that field at that position; one listed known finding about refetch variables.",
   note="Trusted: symbolic substitution of arguments along reader chains in pylib/rt_common.py; recording network function.", ref="3/C25"),
})

import subprocess
HOOK_COMMITS = [l.split()[0] for l in subprocess.run(["git", "-C", "/repo", "log", "--format=%h %s"], capture_output=True, text=True).stdout.splitlines() if "verif hook" in l]

if __name__ == "__main__":
    main()
