#!/usr/bin/env python3
"""Regenerates /verif/MANIFEST.json from the table below (kept by hand)."""
import json, os
V = os.path.dirname(os.path.dirname(os.path.abspath(__file__)))
ALL = [json.loads(l)["id"] for l in open(os.path.join(V, "properties.jsonl"))]

E1 = "pico_mon"
CHECKS = {
 "C01": dict(engine=E1, level="exploration", technique="runtime monitor: online reference-model (pure twin) comparison over generated histories on the real pico",
   text="Held on N generated histories (evidence gives N, ops, nested values compared): every top-level and nested memoized value equalled a from-scratch evaluation on a model. Sampling, not proof; the histories are biased to the orderings tests never sample (absent-then-written sources, remove/re-set, write-GC-call).",
   note="Trusted: the twin functions and the model in harness/pico_mon/src/program.rs; one test program stands for all programs.", ref="3/C01"),
 "C02": dict(engine=E1, level="exploration", technique="runtime monitor: offline checker over the event log (Enter/Read/Dep/Exit) recorded at pico's client boundary",
   text="Held on N histories: every re-execution of a memoized body was justified by a changed direct dependency or a possible GC discard; equal-value writes, unrelated writes and backdating opportunities are counted in the evidence.",
   note="Trusted: the justification rule (DESIGN 3/C02) and the harness's guaranteed-retained model.", ref="3/C02"),
 "C03": dict(engine=E1, level="exploration", technique="runtime monitors (retention model, reference liveness via drop-registering values) + Miri (quick) + ASan/valgrind (thorough)",
   text="Held on N GC-heavy histories natively and a few hundred under Miri: retained results were not re-executed, references read the same value across GC, no UB other than the listed known finding (intern_ref shared identity).",
   note="Trusted: harness retention model; Miri/ASan see only the executed histories.", ref="3/C03"),
 "C04": dict(engine=E1, level="exploration", technique="runtime monitor: twin comparison for same-signature functions + hook recording memo-key -> function identity in harness and real CLI",
   text="Held on N histories calling two token-identical #[memo] functions from different modules, and no memo key was registered by two identities among the functions executed by pico_mon and by isograph_cli on the checked-in projects.",
   note="Hook pico::verif (cfg) is trusted to report the key the macro really uses.", ref="3/C04"),
}

def main():
    checks = []
    for pid in ALL:
        c = CHECKS.get(pid)
        if not c or not os.path.exists(os.path.join(V, "pylib", "props", pid.lower() + ".py")):
            continue
        checks.append({
            "property_id": pid,
            "quick_cmd": f"./check {pid} --tier quick",
            "thorough_cmd": f"./check {pid} --tier thorough",
            "evidence_file": f"/verif/evidence/{pid}.json",
            "replay_cmd_template": f"./check {pid} --replay {{path}}",
            "engine": c["engine"],
            "level_claimed": {"category": c["level"], "text": c["text"], "design_ref": c["ref"]},
            "level_note": c["note"],
            "technique": c["technique"],
        })
    claimed = {c["property_id"] for c in checks}
    na = [{"property_id": p, "reason": NOT_YET.get(p, "check not built yet in this round; design in DESIGN.md section 3")} for p in ALL if p not in claimed]
    m = {
        "version": 1,
        "setup_cmd": "./check --setup",
        "hooks": {
            "guard": "isographlabs_isograph_verif",
            "enable": "RUSTFLAGS=\"--cfg isographlabs_isograph_verif\" (set by pylib/runner.py for every cargo build of /repo code)",
            "baseline_off_cmd": "cd /repo && cargo test --workspace --no-fail-fast --offline",
            "source_commits": HOOK_COMMITS,
            "add_only": True,
        },
        "engines": ENGINES,
        "checks": checks,
        "not_applicable": na,
        "notes": "Technique family: runtime monitoring and sanitizers. See DESIGN.md; known_findings.json lists genuine defects (open and fixed).",
    }
    json.dump(m, open(os.path.join(V, "MANIFEST.json"), "w"), indent=1)
    print("claimed", sorted(claimed), "not_applicable", len(na))

NOT_YET = {}
ENGINES = [
 {"name": "pico_mon", "path": "harness/pico_mon", "serves_properties": ["C01", "C02", "C03", "C04"],
  "kind_free_text": "Rust binary linking the real pico: history generator, executor, event log at pico's client boundary, online/offline monitors; runs natively, under Miri, ASan, valgrind"},
]
import subprocess
HOOK_COMMITS = [l.split()[0] for l in subprocess.run(["git", "-C", "/repo", "log", "--format=%h %s"], capture_output=True, text=True).stdout.splitlines() if "verif hook" in l]

if __name__ == "__main__":
    main()
