#!/usr/bin/env python3
"""Regenerates the generated blocks of DESIGN.md: section 10 (findings, from known_findings*.json) and the table of
section 11 (seeded changes, from seeded/*/meta.json).  Hand-written text around the blocks is left alone."""
import glob, json, os, re, subprocess, sys
V = os.path.dirname(os.path.dirname(os.path.abspath(__file__)))
p = os.path.join(V, "DESIGN.md")
s = open(p).read()


def block(name, body):
    global s
    b, e = f"<!-- BEGIN GENERATED {name} -->", f"<!-- END GENERATED {name} -->"
    if b not in s:
        s += f"\n{b}\n{e}\n"
    s = re.sub(re.escape(b) + r".*?" + re.escape(e), lambda m: b + "\n" + body.strip() + "\n" + e, s, flags=re.S)


findings = subprocess.run([sys.executable, os.path.join(V, "tools", "gen_findings_md.py")], capture_output=True, text=True).stdout
block("FINDINGS", findings)
rows = ["| id | property | the change | what it needs to manifest | first run of the checks | caught by (after) | confirmed |", "|---|---|---|---|---|---|---|"]
for f in sorted(glob.glob(os.path.join(V, "seeded", "*", "meta.json"))):
    m = json.load(open(f))
    d = os.path.dirname(f)
    ver = "?"
    vl = os.path.join(d, "verify.log")
    if os.path.exists(vl):
        t = open(vl).read()
        ver = "verified" if "\nVERIFIED" in t else ("see meta" if "NOT VERIFIED" in t else "running")
    cr = m.get("checks_run", {})
    first = next(iter(cr.values()), "")
    missed = any(k.lower().find("before") >= 0 or k.lower().find("first run") >= 0 for k in cr)
    firsttxt = ("missed / inconclusive → strengthened: " + m.get("led_to", "")) if missed else "caught"
    esc = lambda x: str(x).replace("|", "/").replace("\n", " ")
    rows.append(f"| {m['id']} | {m['property']} | {esc(m['change'])[:260]} | {esc(m['needs_to_manifest'])[:260]} | {esc(firsttxt)[:200]} | {', '.join(m.get('caught_by', [])) or '—'} | {ver} |")
block("SEEDED", "\n".join(rows))
open(p, "w").write(s)
print("DESIGN.md updated:", len(rows) - 2, "seeded changes")
