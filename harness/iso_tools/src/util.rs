//! Small shared pieces: PRNG, directory tree walking / comparison / materialisation.
use std::collections::{BTreeMap, BTreeSet};
use std::fs;
use std::io;
use std::os::unix::fs::MetadataExt;
use std::path::{Path, PathBuf};
use std::time::{Duration, SystemTime};

#[derive(Clone)]
pub struct Rng(pub u64);

impl Rng {
    pub fn new(seed: u64) -> Self {
        Rng(seed ^ 0x9E37_79B9_7F4A_7C15)
    }
    pub fn next(&mut self) -> u64 {
        self.0 = self.0.wrapping_add(0x9E37_79B9_7F4A_7C15);
        let mut z = self.0;
        z = (z ^ (z >> 30)).wrapping_mul(0xBF58_476D_1CE4_E5B9);
        z = (z ^ (z >> 27)).wrapping_mul(0x94D0_49BB_1331_11EB);
        z ^ (z >> 31)
    }
    pub fn below(&mut self, n: usize) -> usize {
        if n == 0 { 0 } else { (self.next() % n as u64) as usize }
    }
    pub fn chance(&mut self, percent: u64) -> bool {
        self.next() % 100 < percent
    }
    pub fn pick<'a, T>(&mut self, xs: &'a [T]) -> &'a T {
        &xs[self.below(xs.len())]
    }
    pub fn shuffle<T>(&mut self, xs: &mut [T]) {
        for i in (1..xs.len()).rev() {
            let j = self.below(i + 1);
            xs.swap(i, j);
        }
    }
    pub fn fork(&mut self, label: u64) -> Rng {
        Rng::new(self.next() ^ label.wrapping_mul(0xD6E8_FEB8_6659_FD93))
    }
}

pub fn fnv64(bytes: &[u8]) -> u64 {
    let mut h: u64 = 0xcbf2_9ce4_8422_2325;
    for b in bytes {
        h ^= *b as u64;
        h = h.wrapping_mul(0x0000_0100_0000_01B3);
    }
    h
}

/// What a directory is supposed to contain: relative path -> bytes.
pub type Expected = BTreeMap<String, Vec<u8>>;

#[derive(Debug, Clone, PartialEq, Eq, PartialOrd, Ord)]
pub struct TreeDiff {
    /// extra-file | missing-file | different-bytes | stray-empty-directory | extra-symlink | extra-special |
    /// root-not-directory | unreadable
    pub kind: &'static str,
    pub path: String,
}

#[derive(Debug, Clone, PartialEq, Eq)]
pub enum Node {
    File(Vec<u8>),
    Dir,
    Symlink(String),
    Special,
}

/// Every entry below `root` (relative paths, `/`-separated). `None` if root is missing.
pub fn walk(root: &Path) -> io::Result<Option<BTreeMap<String, Node>>> {
    let md = match fs::symlink_metadata(root) {
        Ok(m) => m,
        Err(e) if e.kind() == io::ErrorKind::NotFound => return Ok(None),
        Err(e) => return Err(e),
    };
    let mut out = BTreeMap::new();
    if !md.is_dir() {
        out.insert(
            String::new(),
            if md.file_type().is_symlink() {
                Node::Symlink(fs::read_link(root)?.to_string_lossy().to_string())
            } else if md.is_file() {
                Node::File(fs::read(root)?)
            } else {
                Node::Special
            },
        );
        return Ok(Some(out));
    }
    fn rec(dir: &Path, rel: &str, out: &mut BTreeMap<String, Node>) -> io::Result<()> {
        for entry in fs::read_dir(dir)? {
            let entry = entry?;
            let name = entry.file_name().to_string_lossy().to_string();
            let r = if rel.is_empty() { name.clone() } else { format!("{rel}/{name}") };
            let ft = entry.file_type()?;
            if ft.is_symlink() {
                out.insert(r, Node::Symlink(fs::read_link(entry.path())?.to_string_lossy().to_string()));
            } else if ft.is_dir() {
                out.insert(r.clone(), Node::Dir);
                rec(&entry.path(), &r, out)?;
            } else if ft.is_file() {
                out.insert(r, Node::File(fs::read(entry.path())?));
            } else {
                out.insert(r, Node::Special);
            }
        }
        Ok(())
    }
    rec(root, "", &mut out)?;
    Ok(Some(out))
}

/// The oracle of C18: the directory holds exactly `expected`.
/// An empty artifact set is satisfied by a missing or an empty directory.
pub fn compare(root: &Path, expected: &Expected) -> Vec<TreeDiff> {
    let mut diffs = vec![];
    let tree = match walk(root) {
        Ok(t) => t,
        Err(e) => {
            return vec![TreeDiff { kind: "unreadable", path: e.to_string() }];
        }
    };
    let tree = match tree {
        None => {
            if let Some(p) = expected.keys().next() {
                diffs.push(TreeDiff { kind: "missing-file", path: p.clone() });
            }
            return diffs;
        }
        Some(t) => t,
    };
    if tree.contains_key("") {
        return vec![TreeDiff { kind: "root-not-directory", path: String::new() }];
    }
    let mut needed_dirs: BTreeSet<String> = BTreeSet::new();
    for p in expected.keys() {
        let mut cur = p.as_str();
        while let Some(i) = cur.rfind('/') {
            cur = &cur[..i];
            needed_dirs.insert(cur.to_string());
        }
    }
    for (p, node) in &tree {
        match node {
            Node::File(bytes) => match expected.get(p) {
                None => diffs.push(TreeDiff { kind: "extra-file", path: p.clone() }),
                Some(want) if want != bytes => {
                    diffs.push(TreeDiff { kind: "different-bytes", path: p.clone() })
                }
                Some(_) => {}
            },
            Node::Dir => {
                if !needed_dirs.contains(p) {
                    let prefix = format!("{p}/");
                    let has_file = tree
                        .range(prefix.clone()..)
                        .take_while(|(k, _)| k.starts_with(&prefix))
                        .any(|(_, n)| !matches!(n, Node::Dir));
                    if !has_file {
                        diffs.push(TreeDiff { kind: "stray-empty-directory", path: p.clone() });
                    }
                }
            }
            Node::Symlink(_) => diffs.push(TreeDiff { kind: "extra-symlink", path: p.clone() }),
            Node::Special => diffs.push(TreeDiff { kind: "extra-special", path: p.clone() }),
        }
    }
    for p in expected.keys() {
        if !matches!(tree.get(p), Some(Node::File(_))) {
            diffs.push(TreeDiff { kind: "missing-file", path: p.clone() });
        }
    }
    diffs.sort();
    diffs
}

/// Recreates `dst` as a copy of the tree `src` (files, directories, symlinks).
pub fn copy_tree(src: &Path, dst: &Path) -> io::Result<()> {
    remove_any(dst)?;
    let md = match fs::symlink_metadata(src) {
        Ok(m) => m,
        Err(e) if e.kind() == io::ErrorKind::NotFound => return Ok(()),
        Err(e) => return Err(e),
    };
    if md.file_type().is_symlink() {
        return std::os::unix::fs::symlink(fs::read_link(src)?, dst);
    }
    if md.is_file() {
        fs::copy(src, dst)?;
        return Ok(());
    }
    fs::create_dir_all(dst)?;
    for entry in fs::read_dir(src)? {
        let entry = entry?;
        copy_tree(&entry.path(), &dst.join(entry.file_name()))?;
    }
    Ok(())
}

pub fn remove_any(p: &Path) -> io::Result<()> {
    match fs::symlink_metadata(p) {
        Err(e) if e.kind() == io::ErrorKind::NotFound => Ok(()),
        Err(e) => Err(e),
        Ok(md) if md.is_dir() => fs::remove_dir_all(p),
        Ok(_) => fs::remove_file(p),
    }
}

/// (inode, mtime ns) of every regular file below root.
pub fn stamps(root: &Path) -> BTreeMap<String, (u64, i128)> {
    let mut out = BTreeMap::new();
    fn rec(dir: &Path, rel: &str, out: &mut BTreeMap<String, (u64, i128)>) {
        let Ok(rd) = fs::read_dir(dir) else { return };
        for entry in rd.flatten() {
            let name = entry.file_name().to_string_lossy().to_string();
            let r = if rel.is_empty() { name.clone() } else { format!("{rel}/{name}") };
            let Ok(md) = fs::symlink_metadata(entry.path()) else { continue };
            if md.is_dir() {
                rec(&entry.path(), &r, out);
            } else if md.is_file() {
                out.insert(r, (md.ino(), md.mtime() as i128 * 1_000_000_000 + md.mtime_nsec() as i128));
            }
        }
    }
    if root.is_dir() {
        rec(root, "", &mut out);
    }
    out
}

/// Gives every regular file below root the same, old modification time so that any later
/// write is visible as a changed mtime whatever the clock granularity.
pub fn age_files(root: &Path, step: u64) {
    let t = SystemTime::UNIX_EPOCH + Duration::from_secs(1_000_000_000 + step);
    fn rec(dir: &Path, t: SystemTime) {
        let Ok(rd) = fs::read_dir(dir) else { return };
        for entry in rd.flatten() {
            let Ok(md) = fs::symlink_metadata(entry.path()) else { continue };
            if md.is_dir() {
                rec(&entry.path(), t);
            } else if md.is_file() {
                if let Ok(f) = fs::OpenOptions::new().write(true).open(entry.path()) {
                    let _ = f.set_modified(t);
                }
            }
        }
    }
    if root.is_dir() {
        rec(root, t);
    }
}

/// Which paths look written since `before` (taken right after `age_files`).
pub fn written_since(before: &BTreeMap<String, (u64, i128)>, after: &BTreeMap<String, (u64, i128)>) -> BTreeSet<String> {
    let mut out = BTreeSet::new();
    for (p, st) in after {
        match before.get(p) {
            Some(b) if b == st => {}
            _ => {
                out.insert(p.clone());
            }
        }
    }
    out
}

pub fn path_in_message(msg: &str) -> Option<PathBuf> {
    let i = msg.find("at path \"")? + "at path \"".len();
    let rest = &msg[i..];
    let j = rest.find("\". ")?;
    Some(PathBuf::from(&rest[..j]))
}

pub fn arg<'a>(args: &'a [String], name: &str) -> Option<&'a str> {
    args.iter().position(|a| a == name).and_then(|i| args.get(i + 1)).map(|s| s.as_str())
}

pub fn arg_u64(args: &[String], name: &str, default: u64) -> u64 {
    arg(args, name).and_then(|s| s.parse().ok()).unwrap_or(default)
}
