//! Leg A of C18 / C19: arbitrary artifact-set sequences over arbitrary initial directory
//! contents, driven through the real planning / apply / bookkeeping code of
//! `isograph_compiler` (`verif::write_artifacts_to_disk`, or `verif::get_file_system_operations`
//! + `verif::apply_file_system_operations` when the operation list is to be observed) on a real
//! directory.
use std::collections::{BTreeMap, BTreeSet, HashSet};
use std::fs;
use std::panic::{AssertUnwindSafe, catch_unwind};
use std::path::{Path, PathBuf};

use artifact_content::FileSystemState;
use common_lang_types::{
    ArtifactPath, ArtifactPathAndContent, EntityNameAndSelectableName, FileSystemOperation,
};
use intern::string_key::Intern;
use isograph_compiler::verif;
use serde_json::{Value, json};

use crate::util::*;

pub const ENTITIES: [&str; 6] = ["Query", "User", "Pet", "A", "Ab", "Node_1"];
pub const SELECTABLES: [&str; 6] = ["name", "Card", "x", "xy", "__refetch__0", "HomePage"];
pub const NESTED_FILES: [&str; 6] = [
    "resolver_reader.ts",
    "param_type.ts",
    "output_type.ts",
    "entrypoint.ts",
    "query_text.ts",
    "normalization_ast.ts",
];
pub const ROOT_FILES: [&str; 4] = ["iso.ts", "tsconfig.json", "persisted_documents.json", "types.d.ts"];
const ROOT: u8 = 255;

#[derive(Clone, Copy, PartialEq, Eq, PartialOrd, Ord, Hash, Debug)]
pub struct APath {
    ent: u8,
    sel: u8,
    file: u8,
}

impl APath {
    fn rel(&self) -> String {
        if self.ent == ROOT {
            ROOT_FILES[self.file as usize].to_string()
        } else {
            format!(
                "{}/{}/{}",
                ENTITIES[self.ent as usize], SELECTABLES[self.sel as usize], NESTED_FILES[self.file as usize]
            )
        }
    }
}

type ASet = BTreeMap<APath, u8>;
type Step = Vec<(APath, u8)>;

fn content(id: u8) -> String {
    match id {
        0 => String::new(),
        7 => format!("// big\n{}", "export const x = 1;\n".repeat(3500)),
        n => format!("export default {n};\n// {}\n", "é".repeat(n as usize * 5)),
    }
}

fn artifacts_of(step: &Step) -> Vec<ArtifactPathAndContent> {
    step.iter()
        .map(|(p, c)| ArtifactPathAndContent {
            artifact_path: ArtifactPath {
                type_and_field: if p.ent == ROOT {
                    None
                } else {
                    Some(EntityNameAndSelectableName {
                        parent_entity_name: ENTITIES[p.ent as usize].intern().into(),
                        selectable_name: SELECTABLES[p.sel as usize].intern().into(),
                    })
                },
                file_name: if p.ent == ROOT {
                    ROOT_FILES[p.file as usize].intern().into()
                } else {
                    NESTED_FILES[p.file as usize].intern().into()
                },
            },
            file_content: content(*c).into(),
        })
        .collect()
}

fn expected_of(step: &Step) -> Expected {
    step.iter().map(|(p, c)| (p.rel(), content(*c).into_bytes())).collect()
}

fn set_of(step: &Step) -> ASet {
    step.iter().cloned().collect()
}

fn ordered(rng: &mut Rng, set: &ASet) -> Step {
    let mut v: Step = set.iter().map(|(p, c)| (*p, *c)).collect();
    rng.shuffle(&mut v);
    v
}

fn rand_content(rng: &mut Rng) -> u8 {
    if rng.chance(2) { 7 } else { rng.below(7) as u8 }
}

fn add_selectable(rng: &mut Rng, set: &mut ASet, ent: u8, sel: u8) {
    let nfiles = 1 + rng.below(3);
    for _ in 0..nfiles {
        let p = APath { ent, sel, file: rng.below(NESTED_FILES.len()) as u8 };
        set.insert(p, rand_content(rng));
    }
}

fn gen_set(rng: &mut Rng) -> ASet {
    let mut set = ASet::new();
    let r = rng.below(100);
    if r < 6 {
        return set;
    }
    let with_root = r < 18 || r >= 28;
    let with_nested = r >= 18;
    if with_nested {
        for _ in 0..1 + rng.below(3) {
            let ent = rng.below(ENTITIES.len()) as u8;
            for _ in 0..1 + rng.below(3) {
                let sel = rng.below(SELECTABLES.len()) as u8;
                add_selectable(rng, &mut set, ent, sel);
            }
        }
    }
    if with_root {
        for _ in 0..1 + rng.below(3) {
            set.insert(APath { ent: ROOT, sel: 0, file: rng.below(ROOT_FILES.len()) as u8 }, rand_content(rng));
        }
    }
    set
}

fn mutate(rng: &mut Rng, set: &ASet) -> ASet {
    let mut s = set.clone();
    for _ in 0..1 + rng.below(3) {
        let ents: Vec<u8> = s.keys().filter(|p| p.ent != ROOT).map(|p| p.ent).collect::<BTreeSet<_>>().into_iter().collect();
        let sels: Vec<(u8, u8)> =
            s.keys().filter(|p| p.ent != ROOT).map(|p| (p.ent, p.sel)).collect::<BTreeSet<_>>().into_iter().collect();
        let keys: Vec<APath> = s.keys().cloned().collect();
        match rng.below(14) {
            0 => {
                // new entity (or more selectables for an existing one)
                let ent = rng.below(ENTITIES.len()) as u8;
                for _ in 0..1 + rng.below(2) {
                    let sel = rng.below(SELECTABLES.len()) as u8;
                    add_selectable(rng, &mut s, ent, sel);
                }
            }
            1 if !ents.is_empty() => {
                let e = *rng.pick(&ents);
                s.retain(|p, _| p.ent != e);
            }
            2 if !ents.is_empty() => {
                let e = *rng.pick(&ents);
                let sel = rng.below(SELECTABLES.len()) as u8;
                add_selectable(rng, &mut s, e, sel);
            }
            3 if !sels.is_empty() => {
                let (e, sl) = *rng.pick(&sels);
                s.retain(|p, _| !(p.ent == e && p.sel == sl));
            }
            4 if !sels.is_empty() => {
                let (e, sl) = *rng.pick(&sels);
                s.insert(APath { ent: e, sel: sl, file: rng.below(NESTED_FILES.len()) as u8 }, rand_content(rng));
            }
            5 | 6 if !keys.is_empty() => {
                let k = *rng.pick(&keys);
                s.remove(&k);
            }
            7 | 8 if !keys.is_empty() => {
                let k = *rng.pick(&keys);
                s.insert(k, rand_content(rng));
            }
            9 => {
                s.insert(APath { ent: ROOT, sel: 0, file: rng.below(ROOT_FILES.len()) as u8 }, rand_content(rng));
            }
            10 => {
                if rng.chance(30) {
                    s.clear();
                } else if rng.chance(50) {
                    s.retain(|p, _| p.ent == ROOT);
                } else {
                    s.retain(|p, _| p.ent != ROOT);
                }
            }
            11 => {
                if rng.chance(30) {
                    s = gen_set(rng);
                }
            }
            _ => {}
        }
    }
    s
}

#[derive(Clone, Debug, PartialEq, Eq, Hash)]
pub enum IK {
    File(String),
    Dir,
    SymlinkOutside,
}

#[derive(Clone, Debug, PartialEq, Eq, Hash)]
pub struct InitEntry {
    path: String,
    kind: IK,
}

#[derive(Clone, Copy, Debug, PartialEq, Eq, Hash)]
pub enum RootKind {
    Missing,
    MissingParent,
    Dir,
    IsFile,
}

#[derive(Clone, Debug, Hash)]
pub struct Case {
    root: RootKind,
    init: Vec<InitEntry>,
    steps: Vec<Step>,
    /// true: verif::write_artifacts_to_disk; false: get_file_system_operations + apply (operation list observed)
    glue: bool,
    fault_step: usize,
    changes: usize,
    recovery: Step,
    after: Step,
}

impl Case {
    fn to_json(&self) -> Value {
        let step_json = |s: &Step| -> Value {
            let mut m: Vec<(String, u8)> = s.iter().map(|(p, c)| (p.rel(), *c)).collect();
            m.sort();
            Value::Array(m.into_iter().map(|(p, c)| json!(format!("{p}#{c}"))).collect())
        };
        json!({
            "root": format!("{:?}", self.root),
            "initial": self.init.iter().map(|e| match &e.kind {
                IK::File(c) => format!("file {} ({} bytes)", e.path, c.len()),
                IK::Dir => format!("dir {}", e.path),
                IK::SymlinkOutside => format!("symlink {} -> outside", e.path),
            }).collect::<Vec<_>>(),
            "steps": self.steps.iter().map(step_json).collect::<Vec<_>>(),
            "api": if self.glue { "write_artifacts_to_disk" } else { "get_file_system_operations+apply_file_system_operations" },
        })
    }
    fn to_json_c19(&self) -> Value {
        let mut v = self.to_json();
        let step_json = |s: &Step| -> Value {
            let mut m: Vec<String> = s.iter().map(|(p, c)| format!("{}#{c}", p.rel())).collect();
            m.sort();
            json!(m)
        };
        v["fault_step"] = json!(self.fault_step);
        v["changes_before_recovery"] = json!(self.changes);
        v["recovery_set"] = step_json(&self.recovery);
        v["later_set"] = step_json(&self.after);
        v
    }
    fn fingerprint(&self) -> u64 {
        fnv64(format!("{:?}", self).as_bytes())
    }
}

fn gen_initial(rng: &mut Rng, s0: &ASet) -> (RootKind, Vec<InitEntry>) {
    let r = rng.below(100);
    if r < 8 {
        return (RootKind::Missing, vec![]);
    }
    if r < 13 {
        return (RootKind::MissingParent, vec![]);
    }
    if r < 20 {
        return (RootKind::Dir, vec![]);
    }
    if r < 23 {
        return (RootKind::IsFile, vec![]);
    }
    let mut entries: Vec<InitEntry> = vec![];
    let file = |p: String, c: String| InitEntry { path: p, kind: IK::File(c) };
    let some_ent = |rng: &mut Rng| -> &'static str {
        let ents: Vec<u8> = s0.keys().filter(|p| p.ent != ROOT).map(|p| p.ent).collect();
        if !ents.is_empty() && rng.chance(75) { ENTITIES[*rng.pick(&ents) as usize] } else { *rng.pick(&ENTITIES) }
    };
    let some_sel = |rng: &mut Rng| -> (&'static str, &'static str) {
        let sels: Vec<(u8, u8)> = s0.keys().filter(|p| p.ent != ROOT).map(|p| (p.ent, p.sel)).collect();
        if !sels.is_empty() && rng.chance(75) {
            let (e, s) = *rng.pick(&sels);
            (ENTITIES[e as usize], SELECTABLES[s as usize])
        } else {
            (*rng.pick(&ENTITIES), *rng.pick(&SELECTABLES))
        }
    };
    // hostile shapes first: they win over stale artifacts at the same place
    if rng.chance(18) {
        entries.push(file(some_ent(rng).to_string(), "a file where an entity directory is needed".into()));
    }
    if rng.chance(15) {
        let (e, s) = some_sel(rng);
        entries.push(file(format!("{e}/{s}"), "a file where a selectable directory is needed".into()));
    }
    if rng.chance(12) {
        entries.push(file(format!("{}/inner.txt", rng.pick(&ROOT_FILES)), "inside a directory named like a root file".into()));
    }
    if rng.chance(12) {
        let (e, s) = some_sel(rng);
        entries.push(file(format!("{e}/{s}/{}/x.txt", rng.pick(&NESTED_FILES)), "inside a directory named like an artifact".into()));
    }
    if rng.chance(12) {
        entries.push(InitEntry { path: "link_out".into(), kind: IK::SymlinkOutside });
    }
    if rng.chance(8) {
        entries.push(InitEntry { path: some_ent(rng).to_string(), kind: IK::SymlinkOutside });
    }
    if rng.chance(60) {
        // stale artifacts of another (related or unrelated) artifact set
        let stale = match rng.below(10) {
            0..=4 => {
                let mut s = mutate(rng, s0);
                for _ in 0..rng.below(3) {
                    s = mutate(rng, &s);
                }
                s
            }
            5..=7 => s0.clone(),
            _ => gen_set(rng),
        };
        for (p, c) in &stale {
            let c = if rng.chance(30) { rand_content(rng) } else { *c };
            entries.push(file(p.rel(), content(c)));
        }
    }
    if rng.chance(30) {
        for n in [".DS_Store", "notes.txt", "iso.ts.bak"] {
            if rng.chance(60) {
                entries.push(file(n.to_string(), format!("foreign {n}")));
            }
        }
    }
    if rng.chance(25) {
        entries.push(file("node_modules/a/b/c.js".into(), "module.exports = 1".into()));
        if rng.chance(50) {
            entries.push(InitEntry { path: "tmp/empty/deeper".into(), kind: IK::Dir });
        }
    }
    if rng.chance(25) {
        entries.push(file(format!("{}/README.md", some_ent(rng)), "foreign file in an entity directory".into()));
        let (e, s) = some_sel(rng);
        entries.push(file(format!("{e}/{s}/extra.ts"), "foreign file in a selectable directory".into()));
    }
    if rng.chance(15) {
        let (e, s) = some_sel(rng);
        entries.push(InitEntry { path: format!("{e}/{s}"), kind: IK::Dir });
        entries.push(InitEntry { path: "Zed".into(), kind: IK::Dir });
    }
    (RootKind::Dir, entries)
}

fn gen_case(rng: &mut Rng, max_steps: usize, c19: bool) -> Case {
    let s0 = if rng.chance(12) {
        // the "project without any client field" shape: root files only
        let mut s = ASet::new();
        s.insert(APath { ent: ROOT, sel: 0, file: 0 }, rand_content(rng));
        s.insert(APath { ent: ROOT, sel: 0, file: 1 }, rand_content(rng));
        s
    } else {
        gen_set(rng)
    };
    let (root, init) = gen_initial(rng, &s0);
    let nsteps = if c19 && rng.chance(60) { 2 + rng.below(max_steps.max(2) - 1) } else { 1 + rng.below(max_steps) };
    let mut sets = vec![s0];
    for _ in 1..nsteps {
        let prev = sets.last().unwrap().clone();
        sets.push(if rng.chance(10) { prev } else { mutate(rng, &prev) });
    }
    let steps: Vec<Step> = sets.iter().map(|s| ordered(rng, s)).collect();
    let fault_step = if nsteps == 1 || rng.chance(35) { 0 } else { 1 + rng.below(nsteps - 1) };
    let changes = rng.below(4);
    let mut rec = sets[fault_step].clone();
    for _ in 0..changes {
        rec = mutate(rng, &rec);
    }
    let after = mutate(rng, &rec);
    let root = if c19 && root == RootKind::IsFile { RootKind::Dir } else { root };
    Case {
        root,
        init,
        steps,
        glue: c19 || rng.chance(50),
        fault_step,
        changes,
        recovery: ordered(rng, &rec),
        after: ordered(rng, &after),
    }
}

struct Dirs {
    case_dir: PathBuf,
    adir: PathBuf,
    outside: PathBuf,
}

fn materialize(case: &Case, case_dir: &Path) -> Dirs {
    let _ = remove_any(case_dir);
    fs::create_dir_all(case_dir).expect("work directory must be writable");
    let outside = case_dir.join("outside");
    fs::create_dir_all(&outside).unwrap();
    fs::write(outside.join("keep.txt"), b"keep").unwrap();
    let adir = match case.root {
        RootKind::MissingParent => case_dir.join("nop").join("__isograph"),
        _ => case_dir.join("proj").join("__isograph"),
    };
    match case.root {
        RootKind::Missing => fs::create_dir_all(case_dir.join("proj")).unwrap(),
        RootKind::MissingParent => {}
        RootKind::IsFile => {
            fs::create_dir_all(case_dir.join("proj")).unwrap();
            fs::write(&adir, b"not a directory").unwrap();
        }
        RootKind::Dir => {
            fs::create_dir_all(&adir).unwrap();
            for e in &case.init {
                let p = adir.join(&e.path);
                if let Some(parent) = p.parent() {
                    if fs::create_dir_all(parent).is_err() {
                        continue;
                    }
                }
                if fs::symlink_metadata(&p).is_ok() {
                    continue;
                }
                match &e.kind {
                    IK::File(c) => {
                        let _ = fs::write(&p, c.as_bytes());
                    }
                    IK::Dir => {
                        let _ = fs::create_dir_all(&p);
                    }
                    IK::SymlinkOutside => {
                        let _ = std::os::unix::fs::symlink(&outside, &p);
                    }
                }
            }
        }
    }
    Dirs { case_dir: case_dir.to_path_buf(), adir, outside }
}

fn outside_intact(d: &Dirs) -> bool {
    fs::read(d.outside.join("keep.txt")).map(|b| b == b"keep").unwrap_or(false)
}

fn op_kind(op: &FileSystemOperation) -> (&'static str, &Path) {
    match op {
        FileSystemOperation::DeleteDirectory(p) => ("DeleteDirectory", p),
        FileSystemOperation::CreateDirectory(p) => ("CreateDirectory", p),
        FileSystemOperation::WriteFile(p, _) => ("WriteFile", p),
        FileSystemOperation::DeleteFile(p) => ("DeleteFile", p),
    }
}

struct StepOutcome {
    result: Result<usize, String>,
    ops: Option<Vec<(&'static str, String)>>,
    panicked: Option<String>,
}

fn do_step(step: &Step, adir: &Path, state: &mut Option<FileSystemState>, glue: bool) -> StepOutcome {
    let artifacts = artifacts_of(step);
    let r = catch_unwind(AssertUnwindSafe(|| {
        if glue {
            (verif::write_artifacts_to_disk(&artifacts, adir, state).map_err(|e| e.to_string()), None)
        } else {
            let ops = verif::get_file_system_operations(&artifacts, adir, state);
            let summary: Vec<(&'static str, String)> = ops
                .iter()
                .map(|op| {
                    let (k, p) = op_kind(op);
                    (k, p.strip_prefix(adir).map(|x| x.to_string_lossy().to_string()).unwrap_or_else(|_| format!("<outside>{}", p.display())))
                })
                .collect();
            let res = verif::apply_file_system_operations(&ops, &artifacts).map_err(|e| e.to_string());
            if res.is_err() {
                // what write_artifacts_to_disk does; only reached when a fault-free write fails
                *state = None;
            }
            (res, Some(summary))
        }
    }));
    match r {
        Ok((result, ops)) => StepOutcome { result, ops, panicked: None },
        Err(p) => {
            let msg = p
                .downcast_ref::<String>()
                .cloned()
                .or_else(|| p.downcast_ref::<&str>().map(|s| s.to_string()))
                .unwrap_or_else(|| "panic".into());
            StepOutcome { result: Err(format!("panic: {msg}")), ops: None, panicked: Some(msg) }
        }
    }
}

fn class_of(path: &str) -> &'static str {
    let comps: Vec<&str> = path.split('/').collect();
    match comps.len() {
        0 => "artifact-directory",
        1 if path.is_empty() => "artifact-directory",
        1 if ROOT_FILES.contains(&comps[0]) => "root-file",
        1 if ENTITIES.contains(&comps[0]) => "entity-directory",
        2 if ENTITIES.contains(&comps[0]) && SELECTABLES.contains(&comps[1]) => "selectable-directory",
        3 if ENTITIES.contains(&comps[0]) && SELECTABLES.contains(&comps[1]) && NESTED_FILES.contains(&comps[2]) => "nested-file",
        _ => "foreign-entry",
    }
}

fn error_shape(msg: &str) -> String {
    // "Unable to <what> at path "...". \nReason: <io error> (os error N)"
    let what = msg.strip_prefix("Unable to ").and_then(|r| r.find(" at path").map(|i| r[..i].to_string())).unwrap_or_else(|| "?".into());
    let reason = msg.find("Reason: ").map(|i| msg[i + 8..].trim().to_string()).unwrap_or_default();
    let reason: String = reason.chars().filter(|c| !c.is_ascii_digit()).collect();
    format!("{}:{}", what.replace(' ', "-"), reason.replace(' ', "-"))
}

#[derive(Clone, Debug)]
pub struct Finding {
    rule: String,
    phase: String,
    class: String,
    what: String,
    detail: Value,
}

impl Finding {
    fn key(&self) -> (String, String, String) {
        (self.rule.clone(), self.phase.clone(), self.class.clone())
    }
}

#[derive(Default)]
pub struct Stats {
    counters: BTreeMap<String, u64>,
}

impl Stats {
    fn inc(&mut self, k: &str) {
        self.add(k, 1);
    }
    fn add(&mut self, k: &str, n: u64) {
        *self.counters.entry(k.to_string()).or_insert(0) += n;
    }
}

fn diff_findings(diffs: &[TreeDiff], phase: &str, findings: &mut Vec<Finding>, extra: Value) {
    let mut seen = BTreeSet::new();
    for d in diffs {
        let class = class_of(&d.path);
        if seen.insert((d.kind, class)) {
            findings.push(Finding {
                rule: d.kind.to_string(),
                phase: phase.to_string(),
                class: class.to_string(),
                what: format!("after a successful {phase} write the directory differs from the artifact set: {} {}", d.kind, d.path),
                detail: json!({"diffs": diffs.iter().take(8).map(|d| format!("{} {}", d.kind, d.path)).collect::<Vec<_>>(), "context": extra}),
            });
        }
    }
}

/// One C18 session. `nontrivial` is set when the case exercised something.
fn run_c18(case: &Case, case_dir: &Path, stats: &mut Stats, nontrivial: &mut bool) -> Vec<Finding> {
    let d = materialize(case, case_dir);
    let mut findings = vec![];
    let initial_entries = walk(&d.adir).ok().flatten().map(|t| t.len()).unwrap_or(0);
    if initial_entries > 0 {
        *nontrivial = true;
    }
    stats.inc(&format!("initial:{:?}{}", case.root, if case.root == RootKind::Dir { if initial_entries == 0 { "-empty" } else { "-populated" } } else { "" }));
    let mut state: Option<FileSystemState> = None;
    let mut prev: Option<ASet> = None;
    for (i, step) in case.steps.iter().enumerate() {
        let phase = if i == 0 { "first" } else { "later" };
        let cur = set_of(step);
        let before = if i > 0 {
            age_files(&d.adir, i as u64);
            Some(stamps(&d.adir))
        } else {
            None
        };
        let out = do_step(step, &d.adir, &mut state, case.glue);
        stats.inc("steps");
        if let Some(ops) = &out.ops {
            let mut shape = BTreeSet::new();
            for (k, _) in ops {
                stats.inc(&format!("op:{k}"));
                shape.insert(*k);
            }
            if i > 0 {
                stats.inc(&format!("later_plan_shape:{}", shape.into_iter().collect::<Vec<_>>().join("+")));
            }
        }
        if let Some(msg) = &out.panicked {
            findings.push(Finding {
                rule: "panic".into(),
                phase: phase.into(),
                class: msg.chars().filter(|c| !c.is_ascii_digit()).take(60).collect(),
                what: format!("planning/applying panicked: {msg}"),
                detail: json!({"step": i}),
            });
            break;
        }
        match &out.result {
            Err(msg) => {
                if case.root == RootKind::IsFile && i == 0 {
                    // the artifact path is a regular file: the compile reports an error and changes nothing
                    stats.inc("refused:artifact-path-is-a-file");
                    break;
                }
                findings.push(Finding {
                    rule: "write-failed".into(),
                    phase: phase.into(),
                    class: error_shape(msg),
                    what: format!("writing a valid artifact set without any injected fault failed: {}", msg.replace('\n', " ")),
                    detail: json!({"step": i, "error": msg}),
                });
                break;
            }
            Ok(_) => {
                stats.inc("successful_writes");
                if i > 0 {
                    stats.inc("later_successful_writes");
                }
                let diffs = compare(&d.adir, &expected_of(step));
                stats.add("files_compared", cur.len() as u64);
                diff_findings(&diffs, phase, &mut findings, json!({"step": i}));
                if !outside_intact(&d) {
                    findings.push(Finding {
                        rule: "touched-outside".into(),
                        phase: phase.into(),
                        class: "symlink-target".into(),
                        what: "a directory outside the artifact directory (target of a foreign symlink) was modified".into(),
                        detail: json!({"step": i}),
                    });
                }
                if let (Some(before), Some(prev)) = (&before, &prev) {
                    let after = stamps(&d.adir);
                    let written = written_since(before, &after);
                    let planned: BTreeSet<String> = out
                        .ops
                        .as_ref()
                        .map(|ops| ops.iter().filter(|(k, _)| *k == "WriteFile").map(|(_, p)| p.clone()).collect())
                        .unwrap_or_default();
                    let mut unchanged = 0;
                    for (p, c) in &cur {
                        if prev.get(p) == Some(c) {
                            unchanged += 1;
                            let rel = p.rel();
                            let how = if planned.contains(&rel) {
                                Some("a WriteFile operation was planned")
                            } else if written.contains(&rel) {
                                Some("its inode/mtime changed")
                            } else {
                                None
                            };
                            if let Some(how) = how {
                                findings.push(Finding {
                                    rule: "rewrote-unchanged".into(),
                                    phase: phase.into(),
                                    class: class_of(&rel).into(),
                                    what: format!("a later write of the session rewrote {rel} although its content did not change ({how})"),
                                    detail: json!({"step": i, "path": rel}),
                                });
                                break;
                            }
                        }
                    }
                    stats.add("unchanged_files_observed_untouched", unchanged);
                    stats.add("files_observed_written_by_later_steps", written.len() as u64);
                    if unchanged > 0 && *prev != cur {
                        *nontrivial = true;
                    }
                }
                prev = Some(cur);
            }
        }
    }
    let _ = remove_any(&d.case_dir);
    findings
}

/// Which operation the k-th primitive was, from the path in the injected error.
fn fault_kind(path_rel: Option<&str>, k: usize, old: Option<&ASet>, new: &ASet) -> &'static str {
    let Some(rel) = path_rel else { return "unknown" };
    let comps: Vec<&str> = if rel.is_empty() { vec![] } else { rel.split('/').collect() };
    let in_new = |r: &str| new.keys().any(|p| p.rel() == r);
    let sel_in_new = |e: &str, s: &str| new.keys().any(|p| p.ent != ROOT && ENTITIES[p.ent as usize] == e && SELECTABLES[p.sel as usize] == s);
    let _ = old;
    match comps.len() {
        0 => if k == 0 { "DeleteDirectory" } else { "CreateDirectory" },
        1 => if ROOT_FILES.contains(&comps[0]) { if in_new(rel) { "WriteFile" } else { "DeleteFile" } } else { "DeleteDirectory" },
        2 => if sel_in_new(comps[0], comps[1]) { "CreateDirectory" } else { "DeleteDirectory" },
        _ => if in_new(rel) { "WriteFile" } else { "DeleteFile" },
    }
}

/// One C19 case: every fault point of the write at `fault_step`, each followed by a same-session
/// recovery (plus one later write) and a fresh-session recovery on a copy of the damaged directory.
fn run_c19(case: &Case, case_dir: &Path, stats: &mut Stats, nontrivial: &mut bool, enumerated: &mut bool) -> Vec<Finding> {
    let mut findings: Vec<Finding> = vec![];
    let f = case.fault_step;
    *enumerated = false;
    // dry run: number of primitives of the write at step f
    let d = materialize(case, case_dir);
    let mut state = None;
    for step in &case.steps[..f] {
        if do_step(step, &d.adir, &mut state, true).result.is_err() {
            stats.inc("c19_prefix_failed");
            let _ = remove_any(&d.case_dir);
            return findings;
        }
    }
    verif::set_fault_plan(None);
    let dry = do_step(&case.steps[f], &d.adir, &mut state, true);
    let n = verif::primitives_seen();
    if dry.result.is_err() {
        stats.inc("c19_dry_run_failed");
        let _ = remove_any(&d.case_dir);
        return findings;
    }
    stats.inc(if f == 0 { "fault_in_first_write_cases" } else { "fault_in_later_write_cases" });
    stats.add("fault_points", n as u64);
    let new_set = set_of(&case.steps[f]);
    let old_set = if f > 0 { Some(set_of(&case.steps[f - 1])) } else { None };
    let rec_expected = expected_of(&case.recovery);
    let after_expected = expected_of(&case.after);
    let mut kinds = BTreeSet::new();
    let mut seen_keys: HashSet<(String, String, String)> = HashSet::new();
    let mut push = |findings: &mut Vec<Finding>, fd: Finding| {
        if seen_keys.insert(fd.key()) {
            findings.push(fd);
        }
    };
    let mut complete = true;
    for k in 0..n {
        let d = materialize(case, case_dir);
        let mut state = None;
        let mut ok = true;
        for step in &case.steps[..f] {
            if do_step(step, &d.adir, &mut state, true).result.is_err() {
                ok = false;
                break;
            }
        }
        if !ok {
            complete = false;
            stats.inc("c19_prefix_failed");
            continue;
        }
        verif::set_fault_plan(Some(k));
        let faulted = do_step(&case.steps[f], &d.adir, &mut state, true);
        let seen = verif::primitives_seen();
        verif::set_fault_plan(None);
        let msg = match &faulted.result {
            Ok(_) => {
                if seen <= k {
                    complete = false;
                    stats.inc("c19_plan_did_not_fire");
                } else {
                    push(&mut findings, Finding {
                        rule: "fault-not-reported".into(),
                        phase: if f == 0 { "first".into() } else { "later".into() },
                        class: "write".into(),
                        what: format!("primitive {k} of {n} failed with an I/O error but the write reported success"),
                        detail: json!({"k": k}),
                    });
                }
                continue;
            }
            Err(m) => m.clone(),
        };
        if !msg.contains("verif fault") {
            complete = false;
            stats.inc("c19_unexpected_error_instead_of_fault");
            continue;
        }
        let rel = path_in_message(&msg).and_then(|p| p.strip_prefix(&d.adir).ok().map(|x| x.to_string_lossy().to_string()));
        let kind = fault_kind(rel.as_deref(), k, old_set.as_ref(), &new_set);
        kinds.insert(kind);
        stats.inc(&format!("injected:{kind}"));
        let phase = if f == 0 { "first" } else { "later" };
        // (b) fresh session on a copy of the damaged directory
        let bdir_root = case_dir.join("fresh");
        let bdir = bdir_root.join("__isograph");
        let _ = fs::create_dir_all(&bdir_root);
        if copy_tree(&d.adir, &bdir).is_err() {
            complete = false;
            stats.inc("c19_copy_failed");
            continue;
        }
        // (a) same session
        let mut recovered_same = false;
        let mut attempts = 0;
        let mut last_err = String::new();
        while attempts < 3 {
            attempts += 1;
            let r = do_step(&case.recovery, &d.adir, &mut state, true);
            match r.result {
                Ok(_) => {
                    let diffs = compare(&d.adir, &rec_expected);
                    if diffs.is_empty() {
                        recovered_same = true;
                    }
                    diff_findings_c19(&diffs, "same-session", phase, kind, k, n, attempts, &mut |fd| push(&mut findings, fd));
                    break;
                }
                Err(e) => {
                    stats.inc("recovery_write_failed_and_was_retried");
                    last_err = e;
                }
            }
        }
        if !recovered_same && attempts == 3 && !last_err.is_empty() {
            push(&mut findings, Finding {
                rule: "same-session/never-succeeds".into(),
                phase: phase.into(),
                class: format!("after-{kind}:{}", error_shape(&last_err)),
                what: format!("after primitive {k} ({kind}) failed, three fault-free writes in the same session all failed: {}", last_err.replace('\n', " ")),
                detail: json!({"k": k, "kind": kind}),
            });
        }
        if recovered_same {
            stats.inc(&format!("recovered_same_session:{kind}"));
            // the session goes on: one more write, which must again be exact
            let r = do_step(&case.after, &d.adir, &mut state, true);
            match r.result {
                Ok(_) => {
                    let diffs = compare(&d.adir, &after_expected);
                    if diffs.is_empty() {
                        stats.inc("later_write_after_recovery_exact");
                    }
                    diff_findings_c19(&diffs, "same-session-later", phase, kind, k, n, 1, &mut |fd| push(&mut findings, fd));
                }
                Err(e) => push(&mut findings, Finding {
                    rule: "same-session-later/write-failed".into(),
                    phase: phase.into(),
                    class: format!("after-{kind}:{}", error_shape(&e)),
                    what: format!("the write after a successful recovery failed without a fault: {}", e.replace('\n', " ")),
                    detail: json!({"k": k, "kind": kind}),
                }),
            }
        }
        if !outside_intact(&d) {
            push(&mut findings, Finding {
                rule: "touched-outside".into(),
                phase: phase.into(),
                class: "symlink-target".into(),
                what: "a directory outside the artifact directory was modified".into(),
                detail: json!({"k": k}),
            });
        }
        let mut fresh_state = None;
        let r = do_step(&case.recovery, &bdir, &mut fresh_state, true);
        match r.result {
            Ok(_) => {
                let diffs = compare(&bdir, &rec_expected);
                if diffs.is_empty() {
                    stats.inc(&format!("recovered_fresh_session:{kind}"));
                }
                diff_findings_c19(&diffs, "fresh-session", phase, kind, k, n, 1, &mut |fd| push(&mut findings, fd));
            }
            Err(e) => push(&mut findings, Finding {
                rule: "fresh-session/write-failed".into(),
                phase: phase.into(),
                class: format!("after-{kind}:{}", error_shape(&e)),
                what: format!("a fresh session over the damaged directory failed without a fault: {}", e.replace('\n', " ")),
                detail: json!({"k": k, "kind": kind}),
            }),
        }
    }
    let _ = remove_any(case_dir);
    *enumerated = complete;
    if n >= 2 && kinds.len() >= 2 {
        *nontrivial = true;
    }
    findings
}

#[allow(clippy::too_many_arguments)]
fn diff_findings_c19(diffs: &[TreeDiff], leg: &str, phase: &str, kind: &str, k: usize, n: usize, attempts: usize, push: &mut dyn FnMut(Finding)) {
    let mut seen = BTreeSet::new();
    for d in diffs {
        let class = class_of(&d.path);
        if seen.insert((d.kind, class)) {
            push(Finding {
                rule: format!("{leg}/{}", d.kind),
                phase: phase.to_string(),
                class: class.to_string(),
                what: format!(
                    "primitive {k} of {n} ({kind}) of a {phase} write failed; after the next successful write ({leg}, attempt {attempts}) the directory differs from the artifact set: {} {}",
                    d.kind, d.path
                ),
                detail: json!({"k": k, "fault_kind": kind, "diffs": diffs.iter().take(8).map(|d| format!("{} {}", d.kind, d.path)).collect::<Vec<_>>()}),
            });
        }
    }
}

/// Drops steps / initial entries / artifacts while the same (rule, phase, class) still fires.
fn shrink(case: &Case, key: &(String, String, String), fires: &mut dyn FnMut(&Case) -> bool) -> Case {
    let mut best = case.clone();
    let mut budget = 120;
    let _ = key;
    loop {
        let mut improved = false;
        let mut candidates: Vec<Case> = vec![];
        for j in 0..best.steps.len() {
            if best.steps.len() > 1 {
                let mut c = best.clone();
                c.steps.remove(j);
                if c.fault_step >= c.steps.len() || j < c.fault_step {
                    c.fault_step = c.fault_step.saturating_sub(1).min(c.steps.len() - 1);
                }
                candidates.push(c);
            }
        }
        for j in 0..best.init.len() {
            let mut c = best.clone();
            c.init.remove(j);
            candidates.push(c);
        }
        let all_paths: BTreeSet<APath> = best.steps.iter().chain([&best.recovery, &best.after]).flat_map(|s| s.iter().map(|(p, _)| *p)).collect();
        for p in all_paths {
            let mut c = best.clone();
            for s in c.steps.iter_mut().chain([&mut c.recovery, &mut c.after]) {
                s.retain(|(q, _)| *q != p);
            }
            candidates.push(c);
        }
        for c in candidates {
            if budget == 0 {
                return best;
            }
            budget -= 1;
            if fires(&c) || fires(&c) {
                best = c;
                improved = true;
                break;
            }
        }
        if !improved {
            return best;
        }
    }
}

pub fn main(args: &[String]) -> Value {
    let mode = arg(args, "--mode").unwrap_or("c18").to_string();
    let seed = arg_u64(args, "--seed", 1);
    let count = arg_u64(args, "--count", 100);
    let max_steps = arg_u64(args, "--max-steps", 5) as usize;
    let work = PathBuf::from(arg(args, "--work").expect("--work DIR"));
    let fp_out = arg(args, "--fp-out").map(PathBuf::from);
    let nsamples = arg_u64(args, "--samples", 2) as usize;
    let one = arg(args, "--case").and_then(|s| s.parse::<u64>().ok());
    fs::create_dir_all(&work).expect("work dir");
    std::panic::set_hook(Box::new(|_| {}));
    let mut stats = Stats::default();
    let mut fingerprints: Vec<u64> = vec![];
    let mut findings_out: Vec<Value> = vec![];
    let mut seen_keys: HashSet<(String, String, String)> = HashSet::new();
    let mut samples: Vec<Value> = vec![];
    let mut master = Rng::new(seed);
    let mut cases_fully_enumerated = 0u64;
    let mut evaluated = 0u64;
    let c19 = mode == "c19";
    for idx in 0..count {
        let mut rng = master.fork(idx);
        if let Some(o) = one {
            if o != idx {
                continue;
            }
        }
        let case = gen_case(&mut rng, if c19 { max_steps.min(3) } else { max_steps }, c19);
        let case_dir = work.join(format!("c{idx}"));
        let mut nontrivial = false;
        let mut enumerated = true;
        let findings = if c19 {
            run_c19(&case, &case_dir, &mut stats, &mut nontrivial, &mut enumerated)
        } else {
            run_c18(&case, &case_dir, &mut stats, &mut nontrivial)
        };
        evaluated += 1;
        if enumerated {
            cases_fully_enumerated += 1;
        }
        if nontrivial {
            fingerprints.push(case.fingerprint());
            if samples.len() < nsamples {
                samples.push(if c19 { case.to_json_c19() } else { case.to_json() });
            }
        }
        for fd in findings {
            let key = fd.key();
            stats.inc("findings_raw");
            if !seen_keys.insert(key.clone()) || findings_out.len() >= 12 {
                continue;
            }
            let shrink_dir = work.join(format!("s{idx}"));
            let mut scratch_stats = Stats::default();
            let mut fires = |c: &Case| -> bool {
                let (mut a, mut b) = (false, true);
                let fs = if c19 {
                    run_c19(c, &shrink_dir, &mut scratch_stats, &mut a, &mut b)
                } else {
                    run_c18(c, &shrink_dir, &mut scratch_stats, &mut a)
                };
                fs.iter().any(|x| x.key() == key)
            };
            let small = shrink(&case, &key, &mut fires);
            let _ = remove_any(&shrink_dir);
            findings_out.push(json!({
                "rule": fd.rule, "phase": fd.phase, "class": fd.class, "what": fd.what, "detail": fd.detail,
                "case_index": idx, "seed": seed,
                "case": if c19 { case.to_json_c19() } else { case.to_json() },
                "shrunk_case": if c19 { small.to_json_c19() } else { small.to_json() },
            }));
        }
    }
    if let Some(p) = fp_out {
        let mut bytes = Vec::with_capacity(fingerprints.len() * 8);
        for f in &fingerprints {
            bytes.extend_from_slice(&f.to_le_bytes());
        }
        let _ = fs::write(p, bytes);
    }
    let _ = remove_any(&work);
    json!({
        "tool": "fsops-sets", "mode": mode, "seed": seed, "cases": evaluated,
        "nontrivial": fingerprints.len(), "cases_fully_enumerated": cases_fully_enumerated,
        "stats": stats.counters, "findings": findings_out, "samples": samples,
    })
}
