//! Leg B (in-process) of C18 / C19: real projects compiled through the real
//! `CompilerState` / `update_sources` / `compile` API (what `--watch` does), one persistent
//! session per case, over arbitrary initial artifact-directory contents; for C19 every
//! primitive of the write phase is failed in turn through the fault plan of
//! `isograph_compiler::verif`.
use std::collections::{BTreeMap, BTreeSet, HashSet};
use std::fs;
use std::panic::{AssertUnwindSafe, catch_unwind};
use std::path::{Path, PathBuf};

use artifact_content::get_artifact_path_and_content;
use common_lang_types::CurrentWorkingDirectory;
use graphql_network_protocol::GraphQLAndJavascriptProfile;
use intern::string_key::Intern;
use isograph_compiler::{
    CompilerState,
    batch_compile::compile,
    update_sources, verif,
    watch::{ChangedFileKind, SourceEventKind, SourceFileEvent},
};
use isograph_config::{CompilerConfig, create_config};
use serde_json::{Value, json};

use crate::util::*;

type Profile = GraphQLAndJavascriptProfile;
type Sources = BTreeMap<String, String>;

struct CaseSpec {
    id: String,
    root: PathBuf,
    versions: Vec<Sources>,
    labels: Vec<String>,
    initial: Vec<(String, String, String)>, // (path, kind, content)
    initial_root_missing: bool,
    c19: bool,
    fault_steps: Vec<usize>,
    max_k: usize,
}

fn parse_case(v: &Value) -> CaseSpec {
    let versions = v["versions"]
        .as_array()
        .map(|a| {
            a.iter()
                .map(|m| m.as_object().map(|o| o.iter().map(|(k, c)| (k.clone(), c.as_str().unwrap_or("").to_string())).collect()).unwrap_or_default())
                .collect()
        })
        .unwrap_or_default();
    CaseSpec {
        id: v["id"].as_str().unwrap_or("?").to_string(),
        root: PathBuf::from(v["root"].as_str().expect("root")),
        versions,
        labels: v["labels"].as_array().map(|a| a.iter().map(|x| x.as_str().unwrap_or("").to_string()).collect()).unwrap_or_default(),
        initial: v["initial"]
            .as_array()
            .map(|a| {
                a.iter()
                    .map(|e| (e["path"].as_str().unwrap_or("").to_string(), e["kind"].as_str().unwrap_or("file").to_string(), e["content"].as_str().unwrap_or("").to_string()))
                    .collect()
            })
            .unwrap_or_default(),
        initial_root_missing: v["initial_root"].as_str() == Some("missing"),
        c19: v["c19"].as_bool().unwrap_or(false),
        fault_steps: v["fault_steps"].as_array().map(|a| a.iter().filter_map(|x| x.as_u64()).map(|x| x as usize).collect()).unwrap_or_default(),
        max_k: v["max_k"].as_u64().unwrap_or(100_000) as usize,
    }
}

struct Env {
    root: PathBuf,
    config: CompilerConfig,
    cwd: CurrentWorkingDirectory,
    adir: PathBuf,
    outside: PathBuf,
    on_disk: Sources,
    /// every source path any version mentions
    universe: BTreeSet<String>,
}

impl Env {
    /// Makes the source files on disk equal `want`; returns the watch events a debouncer would deliver.
    fn sync_sources(&mut self, want: &Sources) -> Vec<SourceFileEvent> {
        let mut events = vec![];
        for (rel, text) in want {
            if self.on_disk.get(rel) != Some(text) {
                let p = self.root.join(rel);
                if let Some(parent) = p.parent() {
                    let _ = fs::create_dir_all(parent);
                }
                fs::write(&p, text).expect("write source file");
                events.push((SourceEventKind::CreateOrModify(p), ChangedFileKind::JavaScriptSourceFile));
            }
        }
        let stale: Vec<String> = self.on_disk.keys().filter(|k| !want.contains_key(*k)).cloned().collect();
        for rel in stale {
            let p = self.root.join(&rel);
            let _ = fs::remove_file(&p);
            events.push((SourceEventKind::Remove(p), ChangedFileKind::JavaScriptSourceFile));
        }
        self.on_disk = want.clone();
        events
    }

    fn reset_artifact_dir(&self, spec: &CaseSpec) {
        let _ = remove_any(&self.adir);
        if spec.initial_root_missing {
            return;
        }
        fs::create_dir_all(&self.adir).expect("artifact dir");
        for (path, kind, content) in &spec.initial {
            let p = self.adir.join(path);
            if let Some(parent) = p.parent() {
                if fs::create_dir_all(parent).is_err() {
                    continue;
                }
            }
            if fs::symlink_metadata(&p).is_ok() {
                continue;
            }
            match kind.as_str() {
                "dir" => {
                    let _ = fs::create_dir_all(&p);
                }
                "symlink" => {
                    let _ = std::os::unix::fs::symlink(&self.outside, &p);
                }
                _ => {
                    let _ = fs::write(&p, content.as_bytes());
                }
            }
        }
    }

    fn new_session(&self) -> Result<CompilerState<Profile>, String> {
        CompilerState::new(self.config.clone(), self.cwd).map_err(|e| e.to_string())
    }

    fn outside_intact(&self) -> bool {
        fs::read(self.outside.join("keep.txt")).map(|b| b == b"keep").unwrap_or(false)
    }
}

fn expected_from_db(state: &CompilerState<Profile>) -> Result<Expected, String> {
    match get_artifact_path_and_content(&state.db) {
        Ok((artifacts, _)) => {
            let mut out = Expected::new();
            for a in &artifacts {
                let rel = match &a.artifact_path.type_and_field {
                    Some(tf) => format!("{}/{}/{}", tf.parent_entity_name, tf.selectable_name, a.artifact_path.file_name),
                    None => a.artifact_path.file_name.to_string(),
                };
                out.insert(rel, a.file_content.as_bytes().to_vec());
            }
            Ok(out)
        }
        Err(diags) => Err(diags.iter().map(|d| d.0.message.clone()).collect::<Vec<_>>().join(" | ")),
    }
}

fn run_compile(state: &mut CompilerState<Profile>) -> Result<usize, String> {
    compile::<Profile>(state)
        .map(|s| s.total_artifacts_written)
        .map_err(|diags| diags.iter().map(|d| d.0.message.clone()).collect::<Vec<_>>().join(" | "))
}

fn is_io_failure(msg: &str) -> bool {
    msg.starts_with("Unable to ") && msg.contains("at path")
}

fn error_shape(msg: &str) -> String {
    let what = msg.strip_prefix("Unable to ").and_then(|r| r.find(" at path").map(|i| r[..i].to_string())).unwrap_or_else(|| "?".into());
    let reason = msg.find("Reason: ").map(|i| msg[i + 8..].trim().to_string()).unwrap_or_default();
    let reason: String = reason.chars().filter(|c| !c.is_ascii_digit()).collect();
    format!("{}:{}", what.replace(' ', "-"), reason.replace(' ', "-")).chars().take(90).collect()
}

struct Known {
    files: BTreeSet<String>,
    dirs: BTreeSet<String>,
}

impl Known {
    fn add(&mut self, e: &Expected) {
        for p in e.keys() {
            self.files.insert(p.clone());
            let mut cur = p.as_str();
            while let Some(i) = cur.rfind('/') {
                cur = &cur[..i];
                self.dirs.insert(cur.to_string());
            }
        }
    }
    fn class_of(&self, path: &str) -> &'static str {
        let n = if path.is_empty() { 0 } else { path.split('/').count() };
        if self.files.contains(path) {
            return if n == 1 { "root-file" } else { "nested-file" };
        }
        if self.dirs.contains(path) {
            return if n == 1 { "entity-directory" } else { "selectable-directory" };
        }
        if n == 0 { "artifact-directory" } else { "foreign-entry" }
    }
}

fn fault_kind(rel: Option<&str>, k: usize, new: &Expected) -> &'static str {
    let Some(rel) = rel else { return "unknown" };
    let n = if rel.is_empty() { 0 } else { rel.split('/').count() };
    let dir_in_new = |d: &str| {
        let pre = format!("{d}/");
        new.keys().any(|p| p.starts_with(&pre))
    };
    match n {
        0 => if k == 0 { "DeleteDirectory" } else { "CreateDirectory" },
        1 => if new.contains_key(rel) { "WriteFile" } else if rel.contains('.') { "DeleteFile" } else { "DeleteDirectory" },
        2 => if dir_in_new(rel) { "CreateDirectory" } else { "DeleteDirectory" },
        _ => if new.contains_key(rel) { "WriteFile" } else { "DeleteFile" },
    }
}

#[derive(Default)]
struct Out {
    counters: BTreeMap<String, u64>,
    findings: Vec<Value>,
    seen: HashSet<(String, String, String)>,
}

impl Out {
    fn inc(&mut self, k: &str) {
        self.add(k, 1)
    }
    fn add(&mut self, k: &str, n: u64) {
        *self.counters.entry(k.to_string()).or_insert(0) += n;
    }
    fn finding(&mut self, spec: &CaseSpec, rule: &str, phase: &str, class: &str, what: String, detail: Value) {
        self.inc("findings_raw");
        if self.seen.insert((rule.to_string(), phase.to_string(), class.to_string())) && self.findings.len() < 12 {
            self.findings.push(json!({"rule": rule, "phase": phase, "class": class, "what": what, "detail": detail,
                "case": spec.id, "labels": spec.labels, "root": spec.root}));
        }
    }
    fn diffs(&mut self, spec: &CaseSpec, known: &Known, diffs: &[TreeDiff], rule_prefix: &str, phase: &str, ctx: Value) {
        let mut seen = BTreeSet::new();
        for d in diffs {
            let class = known.class_of(&d.path);
            if seen.insert((d.kind, class)) {
                let rule = if rule_prefix.is_empty() { d.kind.to_string() } else { format!("{rule_prefix}/{}", d.kind) };
                self.finding(
                    spec,
                    &rule,
                    phase,
                    class,
                    format!("{}: after a successful compile the artifact directory differs from the generated artifacts: {} {}", spec.id, d.kind, d.path),
                    json!({"diffs": diffs.iter().take(8).map(|d| format!("{} {}", d.kind, d.path)).collect::<Vec<_>>(), "context": ctx}),
                );
            }
        }
    }
}

struct Pass1 {
    valid: Vec<bool>,
    prims: Vec<usize>,
    expected: Vec<Option<Expected>>,
}

fn pass1(spec: &CaseSpec, env: &mut Env, known: &mut Known, out: &mut Out) -> Result<Pass1, String> {
    env.reset_artifact_dir(spec);
    let initial_entries = walk(&env.adir).ok().flatten().map(|t| t.len()).unwrap_or(0);
    out.inc(if spec.initial_root_missing { "initial:missing" } else if initial_entries == 0 { "initial:empty" } else { "initial:populated" });
    env.sync_sources(&spec.versions[0]);
    let mut state = env.new_session()?;
    let mut p1 = Pass1 { valid: vec![], prims: vec![], expected: vec![] };
    let mut last_ok: Option<Expected> = None;
    for (i, version) in spec.versions.iter().enumerate() {
        if i > 0 {
            let events = env.sync_sources(version);
            if let Err(e) = update_sources(&mut state.db, &events) {
                return Err(format!("update_sources failed: {}", e.iter().map(|d| d.to_string()).collect::<Vec<_>>().join(" | ")));
            }
        }
        let phase = if last_ok.is_none() { "first" } else { "later" };
        let expected = expected_from_db(&state);
        let before = if last_ok.is_some() {
            age_files(&env.adir, i as u64);
            Some(stamps(&env.adir))
        } else {
            None
        };
        verif::set_fault_plan(None);
        let r = run_compile(&mut state);
        let n = verif::primitives_seen();
        out.inc("compiles");
        match (&expected, &r) {
            (Err(_), Err(_)) => {
                out.inc("compiles_rejected_program");
                p1.valid.push(false);
                p1.prims.push(0);
                p1.expected.push(None);
            }
            (Err(e), Ok(_)) => {
                return Err(format!("artifact generation failed ({e}) but compile succeeded"));
            }
            (Ok(_), Err(msg)) => {
                out.finding(
                    spec,
                    "write-failed",
                    phase,
                    &error_shape(msg),
                    format!("{}: compile of a valid program failed in the write phase without any injected fault: {}", spec.id, msg.replace('\n', " ")),
                    json!({"version": i, "label": spec.labels.get(i)}),
                );
                p1.valid.push(false);
                p1.prims.push(0);
                p1.expected.push(None);
                // the session's record is gone with the failure; what follows is a first write again
                last_ok = None;
            }
            (Ok(exp), Ok(_)) => {
                out.inc("successful_compiles");
                known.add(exp);
                out.add("files_compared", exp.len() as u64);
                if !exp.keys().any(|p| p.contains('/')) {
                    out.inc("successful_compiles_without_any_client_field");
                }
                let diffs = compare(&env.adir, exp);
                out.diffs(spec, known, &diffs, "", phase, json!({"version": i, "label": spec.labels.get(i)}));
                if !env.outside_intact() {
                    out.finding(spec, "touched-outside", phase, "symlink-target", format!("{}: a directory outside the artifact directory was modified", spec.id), json!({"version": i}));
                }
                if let (Some(before), Some(prev)) = (&before, &last_ok) {
                    out.inc("later_successful_compiles");
                    let written = written_since(before, &stamps(&env.adir));
                    let mut unchanged = 0u64;
                    for (p, bytes) in exp {
                        if prev.get(p) == Some(bytes) {
                            unchanged += 1;
                            if written.contains(p) {
                                out.finding(
                                    spec,
                                    "rewrote-unchanged",
                                    phase,
                                    known.class_of(p),
                                    format!("{}: a later compile of the session rewrote {p} although its content did not change (inode/mtime changed)", spec.id),
                                    json!({"version": i, "label": spec.labels.get(i), "path": p}),
                                );
                                break;
                            }
                        }
                    }
                    out.add("unchanged_files_observed_untouched", unchanged);
                    out.add("files_observed_written_by_later_compiles", written.len() as u64);
                    let removed = prev.keys().filter(|p| !exp.contains_key(*p)).count();
                    if removed > 0 {
                        out.inc("later_compiles_that_removed_artifacts");
                    }
                    let prev_ents: BTreeSet<&str> = prev.keys().filter_map(|p| p.split_once('/').map(|x| x.0)).collect();
                    let cur_ents: BTreeSet<&str> = exp.keys().filter_map(|p| p.split_once('/').map(|x| x.0)).collect();
                    if prev_ents.difference(&cur_ents).next().is_some() {
                        out.inc("later_compiles_that_removed_an_entity");
                    }
                }
                p1.valid.push(true);
                p1.prims.push(n);
                p1.expected.push(Some(exp.clone()));
                last_ok = Some(exp.clone());
            }
        }
    }
    Ok(p1)
}

fn pass2(spec: &CaseSpec, env: &mut Env, known: &Known, p1: &Pass1, out: &mut Out) -> Result<bool, String> {
    let mut complete = true;
    let damaged = env.root.join(".verif_damaged");
    for &f in &spec.fault_steps {
        if f >= spec.versions.len() || !(0..=f).all(|i| p1.valid[i]) {
            continue;
        }
        let n = p1.prims[f];
        out.inc(if f == 0 { "fault_in_first_compile_cases" } else { "fault_in_later_compile_cases" });
        let phase = if f == 0 { "first" } else { "later" };
        let valid_after: Vec<usize> = (f..spec.versions.len()).filter(|i| p1.valid[*i]).collect();
        let ks: Vec<usize> = if n > spec.max_k {
            complete = false;
            (0..spec.max_k).map(|j| j * n / spec.max_k).collect()
        } else {
            (0..n).collect()
        };
        out.add("fault_points", n as u64);
        for k in ks {
            env.reset_artifact_dir(spec);
            env.sync_sources(&spec.versions[0]);
            let mut state = env.new_session()?;
            let mut prefix_ok = true;
            for i in 0..f {
                if i > 0 {
                    let ev = env.sync_sources(&spec.versions[i]);
                    update_sources(&mut state.db, &ev).map_err(|_| "update_sources failed".to_string())?;
                }
                if run_compile(&mut state).is_err() {
                    prefix_ok = false;
                    break;
                }
            }
            if !prefix_ok {
                complete = false;
                out.inc("c19_prefix_failed");
                continue;
            }
            if f > 0 {
                let ev = env.sync_sources(&spec.versions[f]);
                update_sources(&mut state.db, &ev).map_err(|_| "update_sources failed".to_string())?;
            }
            verif::set_fault_plan(Some(k));
            let r = run_compile(&mut state);
            let seen = verif::primitives_seen();
            verif::set_fault_plan(None);
            let msg = match r {
                Ok(_) => {
                    if seen <= k {
                        complete = false;
                        out.inc("c19_plan_did_not_fire");
                    } else {
                        out.finding(spec, "fault-not-reported", phase, "compile", format!("{}: primitive {k} of {n} failed with an I/O error but the compile reported success", spec.id), json!({"k": k, "fault_step": f}));
                    }
                    continue;
                }
                Err(m) => m,
            };
            if !msg.contains("verif fault") {
                complete = false;
                out.inc("c19_unexpected_error_instead_of_fault");
                continue;
            }
            let rel = path_in_message(&msg).and_then(|p| p.strip_prefix(&env.adir).ok().map(|x| x.to_string_lossy().to_string()));
            let kind = fault_kind(rel.as_deref(), k, p1.expected[f].as_ref().unwrap());
            out.inc(&format!("injected:{kind}"));
            copy_tree(&env.adir, &damaged).map_err(|e| format!("copy failed: {e}"))?;
            // 0-3 source changes, no compile in between
            let changes = (k + f) % 4;
            let t = valid_after[changes.min(valid_after.len() - 1)];
            out.inc(&format!("source_changes_before_recovery:{}", changes.min(valid_after.len() - 1)));
            if t != f {
                let ev = env.sync_sources(&spec.versions[t]);
                update_sources(&mut state.db, &ev).map_err(|_| "update_sources failed".to_string())?;
            }
            let ctx = json!({"k": k, "of": n, "fault_kind": kind, "fault_step": f, "fault_label": spec.labels.get(f), "recovery_version": t, "recovery_label": spec.labels.get(t)});
            let mut recovered = false;
            let mut last_err = String::new();
            for attempt in 1..=3 {
                let exp = expected_from_db(&state).map_err(|e| format!("valid version {t} stopped compiling: {e}"))?;
                match run_compile(&mut state) {
                    Ok(_) => {
                        let diffs = compare(&env.adir, &exp);
                        if diffs.is_empty() {
                            recovered = true;
                            out.inc(&format!("recovered_same_session:{kind}"));
                        }
                        let mut c = ctx.clone();
                        c["attempt"] = json!(attempt);
                        out.diffs(spec, known, &diffs, "same-session", phase, c);
                        last_err.clear();
                        break;
                    }
                    Err(e) => {
                        if !is_io_failure(&e) {
                            return Err(format!("recovery compile failed for a non-I/O reason: {e}"));
                        }
                        out.inc("recovery_compile_failed_and_was_retried");
                        last_err = e;
                    }
                }
            }
            if !last_err.is_empty() {
                out.finding(spec, "same-session/never-succeeds", phase, &format!("after-{kind}:{}", error_shape(&last_err)),
                    format!("{}: after primitive {k} ({kind}) failed, three fault-free compiles in the same session all failed: {}", spec.id, last_err.replace('\n', " ")), ctx.clone());
            }
            if recovered {
                // the session continues with one more change
                let t2 = if let Some(x) = valid_after.iter().find(|x| **x > t) { *x } else { 0 };
                if t2 != t && p1.valid[t2] {
                    let ev = env.sync_sources(&spec.versions[t2]);
                    update_sources(&mut state.db, &ev).map_err(|_| "update_sources failed".to_string())?;
                    let exp = expected_from_db(&state).map_err(|e| format!("valid version {t2} stopped compiling: {e}"))?;
                    match run_compile(&mut state) {
                        Ok(_) => {
                            let diffs = compare(&env.adir, &exp);
                            if diffs.is_empty() {
                                out.inc("later_compile_after_recovery_exact");
                            }
                            out.diffs(spec, known, &diffs, "same-session-later", phase, ctx.clone());
                        }
                        Err(e) => out.finding(spec, "same-session-later/write-failed", phase, &format!("after-{kind}:{}", error_shape(&e)),
                            format!("{}: the compile after a successful recovery failed without a fault: {}", spec.id, e.replace('\n', " ")), ctx.clone()),
                    }
                }
            }
            if !env.outside_intact() {
                out.finding(spec, "touched-outside", phase, "symlink-target", format!("{}: a directory outside the artifact directory was modified", spec.id), ctx.clone());
            }
            // fresh session (what a new process does) over the damaged directory, sources at version t
            copy_tree(&damaged, &env.adir).map_err(|e| format!("copy failed: {e}"))?;
            env.sync_sources(&spec.versions[t]);
            let mut fresh = env.new_session()?;
            let exp = expected_from_db(&fresh).map_err(|e| format!("valid version {t} does not compile in a fresh session: {e}"))?;
            match run_compile(&mut fresh) {
                Ok(_) => {
                    let diffs = compare(&env.adir, &exp);
                    if diffs.is_empty() {
                        out.inc(&format!("recovered_fresh_session:{kind}"));
                    }
                    out.diffs(spec, known, &diffs, "fresh-session", phase, ctx.clone());
                }
                Err(e) => out.finding(spec, "fresh-session/write-failed", phase, &format!("after-{kind}:{}", error_shape(&e)),
                    format!("{}: a fresh session over the damaged directory failed without a fault: {}", spec.id, e.replace('\n', " ")), ctx.clone()),
            }
        }
    }
    let _ = remove_any(&damaged);
    Ok(complete)
}

fn run_case(spec: &CaseSpec, out: &mut Out) -> Result<Value, String> {
    let root = spec.root.canonicalize().map_err(|e| format!("project root: {e}"))?;
    let root_str = root.to_str().ok_or("non-utf8 root")?.to_string();
    let cwd: CurrentWorkingDirectory = root_str.intern().into();
    let config = create_config(&root.join("isograph.config.json"), cwd);
    let adir = config.artifact_directory.absolute_path.clone();
    let outside = root.join(".verif_outside");
    fs::create_dir_all(&outside).map_err(|e| e.to_string())?;
    fs::write(outside.join("keep.txt"), b"keep").map_err(|e| e.to_string())?;
    let mut universe = BTreeSet::new();
    for v in &spec.versions {
        universe.extend(v.keys().cloned());
    }
    // what is on disk now: every universe path that exists
    let mut on_disk = Sources::new();
    for rel in &universe {
        if let Ok(t) = fs::read_to_string(root.join(rel)) {
            on_disk.insert(rel.clone(), t);
        }
    }
    let mut env = Env { root, config, cwd, adir, outside, on_disk, universe };
    let _ = &env.universe;
    let mut known = Known { files: BTreeSet::new(), dirs: BTreeSet::new() };
    let p1 = pass1(spec, &mut env, &mut known, out)?;
    let mut complete = true;
    if spec.c19 {
        complete = pass2(spec, &mut env, &known, &p1, out)?;
    }
    // leave the project at its last valid version, compiled by a fresh session, for the CLI cross-check
    let last_valid = (0..spec.versions.len()).rev().find(|i| p1.valid[*i]);
    if let Some(t) = last_valid {
        env.sync_sources(&spec.versions[t]);
        let mut fresh = env.new_session()?;
        let _ = run_compile(&mut fresh);
    }
    let _ = remove_any(&env.outside);
    Ok(json!({
        "id": spec.id, "valid": p1.valid, "prims": p1.prims, "final_version": last_valid, "complete": complete,
        "artifact_dir": env.adir,
        "artifact_counts": p1.expected.iter().map(|e| e.as_ref().map(|x| x.len())).collect::<Vec<_>>(),
    }))
}

pub fn main(args: &[String]) -> Value {
    let script = arg(args, "--script").expect("--script FILE");
    let text = fs::read_to_string(script).expect("script readable");
    let v: Value = serde_json::from_str(&text).expect("script is JSON");
    std::panic::set_hook(Box::new(|_| {}));
    let mut out = Out::default();
    let mut cases = vec![];
    let mut errors = vec![];
    for c in v["cases"].as_array().cloned().unwrap_or_default() {
        let spec = parse_case(&c);
        let r = catch_unwind(AssertUnwindSafe(|| run_case(&spec, &mut out)));
        verif::set_fault_plan(None);
        match r {
            Ok(Ok(v)) => cases.push(v),
            Ok(Err(e)) => errors.push(json!({"id": spec.id, "error": e})),
            Err(p) => {
                let msg = p.downcast_ref::<String>().cloned().or_else(|| p.downcast_ref::<&str>().map(|s| s.to_string())).unwrap_or_else(|| "panic".into());
                errors.push(json!({"id": spec.id, "panic": msg}));
            }
        }
    }
    json!({"tool": "fsops-project", "cases": cases, "errors": errors, "stats": out.counters, "findings": out.findings})
}

#[allow(dead_code)]
fn _unused(_: &Path) {}
