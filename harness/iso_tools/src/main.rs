//! iso_tools: small CLIs over the Rust API of /repo.
//!   iso_tools fsops sets    --mode c18|c19 --seed S --count N --work DIR [--max-steps M] [--fp-out FILE] [--case I]
//!   iso_tools fsops project --script FILE
//! One JSON report line on stdout.
mod project;
mod sets;
mod util;

fn main() {
    let args: Vec<String> = std::env::args().collect();
    let report = match (args.get(1).map(|s| s.as_str()), args.get(2).map(|s| s.as_str())) {
        (Some("fsops"), Some("sets")) => sets::main(&args[3..]),
        (Some("fsops"), Some("project")) => project::main(&args[3..]),
        _ => {
            eprintln!("usage: iso_tools fsops sets|project ...");
            std::process::exit(64);
        }
    };
    println!("{}", report);
}
