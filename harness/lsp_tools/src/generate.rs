//! Generators: a small schema, iso literals (schema-aware "valid" ones with
//! hover/definition expectations, and grammar-level ones for the formatter),
//! and host documents with non-ASCII filler around / between literals.
use crate::rng::Rng;

// ---------------------------------------------------------------------------
// schema
// ---------------------------------------------------------------------------
#[derive(Clone, Copy, PartialEq, Eq, Debug)]
pub enum ArgKind {
    Int,
    Str,
    Id,
    Filter,
}

pub struct FieldDef {
    pub name: &'static str,
    /// (name, kind, required)
    pub args: &'static [(&'static str, ArgKind, bool)],
    pub target: Option<&'static str>,
}

pub const QUERY_FIELDS: &[FieldDef] = &[
    FieldDef { name: "me", args: &[], target: Some("User") },
    FieldDef { name: "user", args: &[("id", ArgKind::Id, true)], target: Some("User") },
    FieldDef {
        name: "pets",
        args: &[("first", ArgKind::Int, false), ("name", ArgKind::Str, false), ("filter", ArgKind::Filter, false)],
        target: Some("Pet"),
    },
    FieldDef { name: "count", args: &[], target: None },
    FieldDef { name: "motd", args: &[("lang", ArgKind::Str, false)], target: None },
];
pub const USER_FIELDS: &[FieldDef] = &[
    FieldDef { name: "id", args: &[], target: None },
    FieldDef { name: "name", args: &[], target: None },
    FieldDef { name: "age", args: &[], target: None },
    FieldDef { name: "email", args: &[("kind", ArgKind::Str, false)], target: None },
    FieldDef { name: "bestFriend", args: &[], target: Some("User") },
    FieldDef { name: "pets", args: &[("first", ArgKind::Int, false)], target: Some("Pet") },
];
pub const PET_FIELDS: &[FieldDef] = &[
    FieldDef { name: "id", args: &[], target: None },
    FieldDef { name: "name", args: &[], target: None },
    FieldDef { name: "nickname", args: &[("style", ArgKind::Str, false)], target: None },
    FieldDef { name: "owner", args: &[], target: Some("User") },
    FieldDef { name: "tagline", args: &[], target: None },
];

pub fn fields_of(ty: &str) -> &'static [FieldDef] {
    match ty {
        "Query" => QUERY_FIELDS,
        "User" => USER_FIELDS,
        "Pet" => PET_FIELDS,
        _ => &[],
    }
}

/// The schema text. `flavour` bit 0: non-ASCII descriptions on the same line as
/// definitions; bit 1: CRLF line ends.
pub fn schema_text(flavour: u32) -> String {
    let na = flavour & 1 == 1;
    let d = |s: &str| if na { format!("\"{s}\" ") } else { String::new() };
    let mut s = String::new();
    if na {
        s.push_str("# sch\u{e9}ma \u{65e5}\u{672c}\u{8a9e} \u{1F600}\n");
    }
    s.push_str(&format!("{}type Query {{\n", d("racine \u{e9}\u{20ac}")));
    s.push_str(&format!("  {}me: User!\n", d("moi \u{fc}")));
    s.push_str(&format!("  {}user(id: ID!): User\n", d("\u{4e2d}\u{4e2d}")));
    s.push_str("  pets(first: Int, name: String, filter: PetFilter): [Pet!]!\n");
    s.push_str(&format!("  {}count: Int\n", d("\u{65e5}\u{672c}")));
    s.push_str("  motd(lang: String): String\n}\n\n");
    s.push_str(&format!("{}type User {{\n  id: ID!\n", d("utilisateur \u{e9}")));
    s.push_str(&format!("  {}name: String!\n", d("nom \u{65e5} complet")));
    s.push_str("  age: Int\n  email(kind: String): String\n");
    s.push_str(&format!("  {}bestFriend: User\n", d("\u{e9}\u{e9}\u{e9}")));
    s.push_str("  pets(first: Int): [Pet!]!\n}\n\n");
    s.push_str(&format!("{}type Pet {{\n  id: ID!\n  name: String!\n", d("b\u{ea}te")));
    s.push_str(&format!("  {}nickname(style: String): String\n", d("\u{540d}\u{524d}")));
    s.push_str("  owner: User\n  tagline: String\n}\n\n");
    s.push_str("input PetFilter {\n  kind: String\n  minAge: Int\n}\n");
    if flavour & 2 == 2 {
        s = s.replace('\n', "\r\n");
    }
    s
}

// ---------------------------------------------------------------------------
// literal emitter
// ---------------------------------------------------------------------------
#[derive(Clone, Debug, PartialEq, Eq)]
pub enum ProbeKind {
    /// selection of a server field: hover mentions **Parent.field**; definition goes to the schema
    ServerField { parent: String, field: String },
    /// selection of a client field defined in another literal
    ClientField { parent: String, field: String },
    /// the parent type in a declaration header: hover "Object **Ty**"
    Entity { ty: String },
    /// the client field name in a `field P.Name` / `entrypoint P.Name` header:
    /// definition goes to the declaration of P.Name
    DeclName { parent: String, field: String },
}

#[derive(Clone, Debug)]
pub struct Probe {
    /// byte offset (in the literal, later in the document) and byte length of the token
    pub off: usize,
    pub len: usize,
    pub kind: ProbeKind,
}

#[derive(Clone, Copy, PartialEq, Eq, Debug)]
pub enum Style {
    Tidy,
    Messy,
}

pub struct Em<'r> {
    pub out: String,
    pub rng: &'r mut Rng,
    pub style: Style,
    pub probes: Vec<Probe>,
    pub indent: usize,
    /// allow characters above U+FFFF inside string literals (the parser rejects them)
    pub astral: bool,
    pub crlf: bool,
}

const WORDS: &[&str] = &["alpha", "b\u{e9}ta", "\u{65e5}\u{672c}", "gamma", "\u{fc}ber", "\u{20ac}5", "na\u{ef}ve", "x", "\u{4e2d}"];

impl<'r> Em<'r> {
    pub fn new(rng: &'r mut Rng, style: Style) -> Em<'r> {
        Em { out: String::new(), rng, style, probes: vec![], indent: 1, astral: false, crlf: false }
    }
    fn nl(&mut self) {
        if self.crlf {
            self.out.push_str("\r\n");
        } else {
            self.out.push('\n');
        }
    }
    pub fn tok(&mut self, s: &str) -> (usize, usize) {
        let off = self.out.len();
        self.out.push_str(s);
        (off, s.len())
    }
    fn messy_ws(&mut self, at_least_one: bool, need_newline: bool) {
        let n = if at_least_one || need_newline { self.rng.range(1, 3) } else { self.rng.below(3) };
        let mut have_nl = false;
        for _ in 0..n {
            match self.rng.below(12) {
                0..=4 => self.out.push(' '),
                5 => self.out.push_str("  "),
                6 => self.out.push('\t'),
                7 | 8 => {
                    self.nl();
                    have_nl = true;
                }
                9 => {
                    self.out.push_str("\r\n");
                    have_nl = true;
                }
                10 => {
                    self.nl();
                    self.out.push_str("     ");
                    have_nl = true;
                }
                _ => self.out.push(' '),
            }
        }
        if need_newline && !have_nl {
            self.nl();
        }
    }
    /// optional whitespace
    pub fn ows(&mut self) {
        if self.style == Style::Messy {
            self.messy_ws(false, false)
        }
    }
    /// optional in the grammar, but a tidy writer puts one space
    pub fn ows_sp(&mut self) {
        match self.style {
            Style::Tidy => self.out.push(' '),
            Style::Messy => self.messy_ws(false, false),
        }
    }
    /// mandatory whitespace (between two word-like tokens)
    pub fn mws(&mut self) {
        match self.style {
            Style::Tidy => self.out.push(' '),
            Style::Messy => self.messy_ws(true, false),
        }
    }
    fn line(&mut self) {
        self.nl();
        for _ in 0..self.indent {
            self.out.push_str("  ");
        }
    }
    /// position for the next item of a block (selection / argument on its own line)
    pub fn item_start(&mut self) {
        match self.style {
            Style::Tidy => self.line(),
            Style::Messy => self.messy_ws(false, false),
        }
    }
    /// separator after a selection / list item: a comma and/or a line break
    pub fn sep(&mut self) {
        match self.style {
            Style::Tidy => {
                if self.rng.chance(1, 4) {
                    self.out.push(',');
                }
                // the line break is produced by the next item_start / close
            }
            Style::Messy => match self.rng.below(4) {
                0 => {
                    self.ows();
                    self.out.push(',');
                    self.ows();
                }
                1 => {
                    self.out.push(',');
                }
                2 => self.messy_ws(true, true),
                _ => {
                    self.out.push(',');
                    self.messy_ws(true, true);
                }
            },
        }
    }
    pub fn open(&mut self, s: &str) {
        self.tok(s);
        self.indent += 1;
    }
    pub fn close(&mut self, s: &str) {
        self.indent -= 1;
        match self.style {
            Style::Tidy => self.line(),
            Style::Messy => self.messy_ws(false, false),
        }
        self.tok(s);
    }

    pub fn string_body(&mut self) -> String {
        let mut s = String::new();
        let n = self.rng.below(4);
        for i in 0..n {
            if i > 0 {
                s.push(' ');
            }
            match self.rng.below(10) {
                0 => s.push_str("\\\""),
                1 => s.push_str("\\\\"),
                2 => s.push_str("\\u00e9"),
                3 if self.astral => s.push('\u{1F600}'),
                _ => {
                    let w = *self.rng.pick(WORDS);
                    s.push_str(w)
                }
            }
        }
        s
    }
    pub fn string_lit(&mut self) {
        let b = self.string_body();
        self.tok(&format!("\"{b}\""));
    }
    pub fn block_string(&mut self) {
        let mut s = String::from("\"\"\"");
        let lines = self.rng.range(1, 4);
        for i in 0..lines {
            if i > 0 || self.rng.chance(1, 2) {
                if self.crlf || self.rng.chance(1, 6) {
                    s.push_str("\r\n");
                } else {
                    s.push('\n');
                }
                for _ in 0..self.rng.range(0, 6) {
                    s.push(' ');
                }
            }
            for j in 0..self.rng.range(1, 3) {
                if j > 0 {
                    s.push(' ');
                }
                let w = *self.rng.pick(WORDS);
                s.push_str(w);
            }
            if self.rng.chance(1, 8) {
                s.push_str(" \"q\" ");
            }
        }
        if self.rng.chance(1, 2) {
            s.push('\n');
            s.push_str("  ");
        }
        s.push_str("\"\"\"");
        self.tok(&s);
    }
}

// ---------------------------------------------------------------------------
// schema-aware literals
// ---------------------------------------------------------------------------
#[derive(Clone, Debug)]
pub struct Lit {
    pub text: String,
    pub probes: Vec<Probe>,
    /// `export const <name> = ` in front of `iso(`
    pub export_name: Option<String>,
    /// followed by `(fn)` (client fields) or not (entrypoints)
    pub called: bool,
}

pub struct ValidCtx<'a> {
    /// client fields that other literals may select: (parent, name)
    pub client_fields: &'a [(&'a str, &'a str)],
    pub max_depth: usize,
}

fn gen_value(em: &mut Em, kind: ArgKind, var: Option<&str>) {
    if let Some(v) = var {
        em.tok("$");
        em.tok(v);
        return;
    }
    match kind {
        ArgKind::Int => {
            let n = [0i64, 1, 7, 42, -3, 100][em.rng.below(6)];
            em.tok(&n.to_string());
        }
        ArgKind::Str | ArgKind::Id => em.string_lit(),
        ArgKind::Filter => {
            em.open("{");
            let mut first = true;
            if em.rng.chance(2, 3) {
                em.item_start();
                em.tok("kind");
                em.ows();
                em.tok(":");
                em.ows_sp();
                em.string_lit();
                first = false;
            }
            if em.rng.chance(1, 2) {
                if !first {
                    em.sep();
                }
                em.item_start();
                em.tok("minAge");
                em.ows();
                em.tok(":");
                em.ows_sp();
                gen_value(em, ArgKind::Int, None);
                first = false;
            }
            if !first && em.rng.chance(1, 3) {
                em.sep();
            }
            em.close("}");
        }
    }
}

pub fn gen_selection_set(em: &mut Em, parent: &str, depth: usize, ctx: &ValidCtx, vars: &[(&str, ArgKind)], alias_counter: &mut usize) {
    em.open("{");
    let fields = fields_of(parent);
    let n = em.rng.range(1, 4);
    let mut used: Vec<String> = vec![];
    for _ in 0..n {
        let clients: Vec<&(&str, &str)> = ctx.client_fields.iter().filter(|(p, _)| *p == parent).collect();
        em.item_start();
        if !clients.is_empty() && em.rng.chance(1, 4) {
            let (_, name) = **em.rng.pick(&clients);
            if used.iter().any(|u| u == name) {
                *alias_counter += 1;
                em.tok(&format!("c{}", *alias_counter));
                em.ows();
                em.tok(":");
                em.ows_sp();
            }
            let (off, len) = em.tok(name);
            em.probes.push(Probe { off, len, kind: ProbeKind::ClientField { parent: parent.to_string(), field: name.to_string() } });
            used.push(name.to_string());
            em.sep();
            continue;
        }
        let f = &fields[em.rng.below(fields.len())];
        if f.target.is_some() && depth >= ctx.max_depth {
            // a scalar instead
            let scalars: Vec<&FieldDef> = fields.iter().filter(|f| f.target.is_none()).collect();
            let f = *em.rng.pick(&scalars);
            emit_field(em, parent, f, depth, ctx, vars, alias_counter, &mut used);
        } else {
            emit_field(em, parent, f, depth, ctx, vars, alias_counter, &mut used);
        }
        em.sep();
    }
    em.close("}");
}

#[allow(clippy::too_many_arguments)]
fn emit_field(em: &mut Em, parent: &str, f: &FieldDef, depth: usize, ctx: &ValidCtx, vars: &[(&str, ArgKind)], alias_counter: &mut usize, used: &mut Vec<String>) {
    let need_alias = used.iter().any(|u| u == f.name) || em.rng.chance(1, 6);
    if need_alias {
        *alias_counter += 1;
        let a = format!("a{}", *alias_counter);
        let (off, len) = em.tok(&a);
        em.probes.push(Probe { off, len, kind: ProbeKind::ServerField { parent: parent.to_string(), field: f.name.to_string() } });
        em.ows();
        em.tok(":");
        em.ows_sp();
    }
    used.push(f.name.to_string());
    let (off, len) = em.tok(f.name);
    em.probes.push(Probe { off, len, kind: ProbeKind::ServerField { parent: parent.to_string(), field: f.name.to_string() } });
    let chosen: Vec<&(&str, ArgKind, bool)> = f.args.iter().filter(|(_, _, req)| *req || em.rng.chance(1, 2)).collect();
    if !chosen.is_empty() {
        em.ows();
        em.open("(");
        for (i, (an, kind, _)) in chosen.iter().enumerate() {
            if i > 0 {
                em.sep();
            }
            em.item_start();
            em.tok(an);
            em.ows();
            em.tok(":");
            em.ows_sp();
            let var = vars.iter().find(|(_, k)| k == kind).map(|(n, _)| *n).filter(|_| em.rng.chance(2, 3));
            gen_value(em, *kind, var);
        }
        if em.rng.chance(1, 4) {
            em.sep();
        }
        em.close(")");
    }
    if let Some(t) = f.target {
        em.ows_sp();
        gen_selection_set(em, t, depth + 1, ctx, vars, alias_counter);
    }
}

/// `field Parent.Name ... { ... }`
pub fn gen_valid_field(rng: &mut Rng, style: Style, crlf: bool, parent: &str, name: &str, ctx: &ValidCtx) -> Lit {
    let mut em = Em::new(rng, style);
    em.crlf = crlf;
    let with_vars = parent == "Query" && em.rng.chance(1, 2);
    if em.style == Style::Tidy {
        em.line();
    } else {
        em.ows();
    }
    em.tok("field");
    em.mws();
    let (off, len) = em.tok(parent);
    em.probes.push(Probe { off, len, kind: ProbeKind::Entity { ty: parent.to_string() } });
    em.ows();
    em.tok(".");
    em.ows();
    let (off, len) = em.tok(name);
    em.probes.push(Probe { off, len, kind: ProbeKind::DeclName { parent: parent.to_string(), field: name.to_string() } });
    let mut vars: Vec<(&str, ArgKind)> = vec![];
    if with_vars {
        em.ows();
        em.open("(");
        em.item_start();
        em.tok("$");
        em.tok("id");
        em.ows();
        em.tok(":");
        em.ows_sp();
        em.tok("ID");
        em.tok("!");
        em.close(")");
        vars.push(("id", ArgKind::Id));
    }
    if em.rng.chance(1, 3) {
        em.ows_sp();
        em.tok("@");
        em.tok("component");
    }
    if em.rng.chance(1, 3) {
        em.ows_sp();
        if em.rng.chance(1, 2) {
            em.string_lit();
        } else {
            em.block_string();
        }
    }
    em.ows_sp();
    let mut ac = 0usize;
    if with_vars {
        // make sure $id is used: user(id: $id) first
        em.open("{");
        em.item_start();
        let (off, len) = em.tok("user");
        em.probes.push(Probe { off, len, kind: ProbeKind::ServerField { parent: "Query".into(), field: "user".into() } });
        em.ows();
        em.open("(");
        em.item_start();
        em.tok("id");
        em.ows();
        em.tok(":");
        em.ows_sp();
        em.tok("$");
        em.tok("id");
        em.close(")");
        em.ows_sp();
        gen_selection_set(&mut em, "User", 1, ctx, &vars, &mut ac);
        em.sep();
        if em.rng.chance(1, 2) {
            em.item_start();
            let (off, len) = em.tok("count");
            em.probes.push(Probe { off, len, kind: ProbeKind::ServerField { parent: "Query".into(), field: "count".into() } });
            em.sep();
        }
        em.close("}");
    } else {
        gen_selection_set(&mut em, parent, 0, ctx, &vars, &mut ac);
    }
    em.indent = 0;
    if em.style == Style::Tidy {
        em.nl();
    } else {
        em.ows();
    }
    Lit { text: em.out, probes: em.probes, export_name: Some(name.to_string()), called: true }
}

pub fn gen_entrypoint(rng: &mut Rng, style: Style, parent: &str, name: &str) -> Lit {
    let mut em = Em::new(rng, style);
    em.ows();
    em.tok("entrypoint");
    em.mws();
    let (off, len) = em.tok(parent);
    em.probes.push(Probe { off, len, kind: ProbeKind::Entity { ty: parent.to_string() } });
    em.ows();
    em.tok(".");
    em.ows();
    let (off, len) = em.tok(name);
    em.probes.push(Probe { off, len, kind: ProbeKind::DeclName { parent: parent.to_string(), field: name.to_string() } });
    em.ows();
    Lit { text: em.out, probes: em.probes, export_name: None, called: false }
}

// ---------------------------------------------------------------------------
// grammar-level literals (formatter workload): everything the parser accepts
// ---------------------------------------------------------------------------
const IDENTS: &[&str] = &["a", "foo", "bar_baz", "Name2", "_x", "node", "fieldName", "to", "field", "null_", "entrypoint", "true1"];
const TYPES: &[&str] = &["Query", "User", "Pet", "Thing_1", "T"];

fn g_ident(em: &mut Em) {
    let s = *em.rng.pick(IDENTS);
    em.tok(s);
}

fn g_type_annotation(em: &mut Em, depth: usize) {
    if depth < 2 && em.rng.chance(1, 3) {
        em.tok("[");
        em.ows();
        g_type_annotation(em, depth + 1);
        em.ows();
        em.tok("]");
    } else {
        let t = *em.rng.pick(&["String", "Int", "ID", "Boolean", "PetFilter", "X_y"]);
        em.tok(t);
    }
    if em.rng.chance(1, 2) {
        em.ows();
        em.tok("!");
    }
}

fn g_value(em: &mut Em, depth: usize, constant: bool) {
    let k = em.rng.below(if depth >= 3 { 5 } else { 6 });
    match k {
        0 if !constant => {
            em.tok("$");
            em.ows();
            g_ident(em);
        }
        0 | 1 => {
            let n = [0i64, 5, -1, 12345, -90, 9007199254740993][em.rng.below(6)];
            em.tok(&n.to_string());
        }
        2 => em.string_lit(),
        3 => {
            let s = *em.rng.pick(&["true", "false", "null"]);
            em.tok(s);
        }
        4 => em.string_lit(),
        _ => {
            em.open("{");
            let n = em.rng.below(4);
            for i in 0..n {
                if i > 0 {
                    em.sep();
                }
                em.item_start();
                g_ident(em);
                em.ows();
                em.tok(":");
                em.ows_sp();
                g_value(em, depth + 1, constant);
            }
            if n > 0 && em.rng.chance(1, 3) {
                em.sep();
            }
            em.close("}");
        }
    }
}

fn g_arguments(em: &mut Em) {
    em.open("(");
    let n = em.rng.below(4);
    for i in 0..n {
        if i > 0 {
            em.sep();
        }
        em.item_start();
        g_ident(em);
        em.ows();
        em.tok(":");
        em.ows_sp();
        g_value(em, 0, false);
    }
    if n > 0 && em.rng.chance(1, 3) {
        em.sep();
    }
    em.close(")");
}

fn g_decl_directives(em: &mut Em) {
    let n = em.rng.below(3);
    for _ in 0..n {
        em.ows_sp();
        em.tok("@");
        em.ows();
        let d = *em.rng.pick(&["component", "loadable", "foo", "x_1"]);
        em.tok(d);
        if em.rng.chance(1, 3) {
            em.ows();
            g_arguments(em);
        }
    }
}

fn g_selection_directive(em: &mut Em) {
    // the parser only accepts these sets on selections
    match em.rng.below(10) {
        0 => {
            em.ows_sp();
            em.tok("@");
            em.ows();
            em.tok("loadable");
        }
        1 => {
            em.ows_sp();
            em.tok("@");
            em.tok("loadable");
            em.ows();
            em.open("(");
            em.item_start();
            em.tok("lazyLoadArtifact");
            em.ows();
            em.tok(":");
            em.ows_sp();
            let b = *em.rng.pick(&["true", "false"]);
            em.tok(b);
            if em.rng.chance(1, 3) {
                em.sep();
            }
            em.close(")");
        }
        2 => {
            em.ows_sp();
            em.tok("@");
            em.tok("updatable");
        }
        _ => {}
    }
}

fn g_selection_set(em: &mut Em, depth: usize) {
    em.open("{");
    let n = if depth == 0 { em.rng.below(5) } else { em.rng.range(1, 3) };
    for _ in 0..n {
        em.item_start();
        if em.rng.chance(1, 4) {
            g_ident(em);
            em.ows();
            em.tok(":");
            em.ows_sp();
        }
        g_ident(em);
        if em.rng.chance(1, 3) {
            em.ows();
            g_arguments(em);
        }
        let object = depth < 3 && em.rng.chance(1, 3);
        if object {
            if em.rng.chance(1, 5) {
                em.ows_sp();
                em.tok("@");
                em.tok("updatable");
            }
            em.ows_sp();
            g_selection_set(em, depth + 1);
        } else {
            g_selection_directive(em);
        }
        em.sep();
    }
    em.close("}");
}

fn g_variable_definitions(em: &mut Em) {
    em.open("(");
    let n = em.rng.below(4);
    for i in 0..n {
        if i > 0 {
            em.sep();
        }
        em.item_start();
        em.tok("$");
        em.ows();
        g_ident(em);
        em.ows();
        em.tok(":");
        em.ows_sp();
        g_type_annotation(em, 0);
        if em.rng.chance(1, 3) {
            em.ows_sp();
            em.tok("=");
            em.ows_sp();
            g_value(em, 1, true);
        }
    }
    if n > 0 && em.rng.chance(1, 3) {
        em.sep();
    }
    em.close(")");
}

/// A literal drawn from the whole grammar. Parser acceptance is *checked* by the
/// caller (a few shapes are rejected, e.g. `to` missing); not assumed.
pub fn gen_grammar_literal(rng: &mut Rng, style: Style, crlf: bool) -> Lit {
    let mut em = Em::new(rng, style);
    em.crlf = crlf;
    let kind = em.rng.below(10);
    if em.style == Style::Tidy {
        em.line();
    } else {
        em.ows();
    }
    if kind == 0 {
        em.tok("entrypoint");
        em.mws();
        let t = *em.rng.pick(TYPES);
        em.tok(t);
        em.ows();
        em.tok(".");
        em.ows();
        g_ident(&mut em);
        if em.rng.chance(1, 3) {
            em.ows_sp();
            em.tok("@");
            em.tok("lazyLoad");
        }
        em.ows();
        return Lit { text: em.out, probes: vec![], export_name: None, called: false };
    }
    let pointer = kind <= 2;
    em.tok(if pointer { "pointer" } else { "field" });
    em.mws();
    let t = *em.rng.pick(TYPES);
    em.tok(t);
    em.ows();
    em.tok(".");
    em.ows();
    g_ident(&mut em);
    if em.rng.chance(1, 2) {
        em.ows();
        g_variable_definitions(&mut em);
    }
    if pointer {
        em.mws();
        em.tok("to");
        em.mws();
        g_type_annotation(&mut em, 0);
    }
    g_decl_directives(&mut em);
    if em.rng.chance(1, 2) {
        em.ows_sp();
        if em.rng.chance(1, 2) {
            em.string_lit();
        } else {
            em.block_string();
        }
    }
    em.ows_sp();
    g_selection_set(&mut em, 0);
    em.indent = 0;
    if em.style == Style::Tidy {
        em.nl();
    } else {
        em.ows();
    }
    Lit { text: em.out, probes: vec![], export_name: Some("Exported".to_string()), called: true }
}

// ---------------------------------------------------------------------------
// host documents
// ---------------------------------------------------------------------------
#[derive(Clone, Debug)]
pub struct PlacedLit {
    /// byte offset of the literal text (first byte after the back-tick)
    pub start: usize,
    pub text: String,
    pub probes: Vec<Probe>,
}

#[derive(Clone, Debug)]
pub struct Doc {
    pub text: String,
    pub lits: Vec<PlacedLit>,
}

const FILLER_NA: &[&str] = &[
    "// commentaire \u{e9}t\u{e9} \u{1F600} fin",
    "const s\u{e9} = \"\u{65e5}\u{672c}\u{8a9e}\";",
    "/* \u{1F600}\u{1F600} */ const k = '\u{20ac}';",
    "const \u{3b1} = 1; // \u{3b1}\u{3b2}\u{3b3}",
    "import { iso } from '@iso'; // \u{1F680}",
];
const FILLER_ASCII: &[&str] = &["import { iso } from '@iso';", "// plain comment", "const k = 1;", ""];
/// same-line prefixes: what precedes `export const` / `iso(` on its line
const PREFIX_NA: &[&str] = &["/* \u{e9} */ ", "/* \u{1F600} */ ", "const z = '\u{65e5}\u{1F600}'; ", "/*\u{e9}\u{20ac}\u{1F600}*/"];

pub struct DocOpts {
    pub non_ascii: bool,
    pub crlf: bool,
}

pub fn filler_line(rng: &mut Rng, non_ascii: bool) -> &'static str {
    if non_ascii && rng.chance(2, 3) { *rng.pick(FILLER_NA) } else { *rng.pick(FILLER_ASCII) }
}

/// Assemble a document out of literals with filler before / between / after.
pub fn assemble(rng: &mut Rng, lits: &[Lit], opts: &DocOpts) -> Doc {
    let nl = if opts.crlf { "\r\n" } else { "\n" };
    let mut text = String::new();
    let mut placed = vec![];
    for _ in 0..rng.below(3) {
        text.push_str(filler_line(rng, opts.non_ascii));
        text.push_str(nl);
    }
    for lit in lits {
        if opts.non_ascii && rng.chance(1, 2) {
            text.push_str(*rng.pick(PREFIX_NA));
        }
        if let Some(n) = &lit.export_name {
            text.push_str(&format!("export const {n} = "));
        } else if rng.chance(1, 2) {
            text.push_str("const e = ");
        }
        text.push_str("iso(`");
        let start = text.len();
        text.push_str(&lit.text);
        text.push('`');
        text.push(')');
        if lit.called {
            text.push_str("(() => null)");
        }
        text.push(';');
        if opts.non_ascii && rng.chance(1, 2) {
            text.push_str(" // apr\u{e8}s \u{1F600}");
        }
        text.push_str(nl);
        placed.push(PlacedLit {
            start,
            text: lit.text.clone(),
            probes: lit.probes.iter().map(|p| Probe { off: p.off + start, len: p.len, kind: p.kind.clone() }).collect(),
        });
        for _ in 0..rng.below(3) {
            text.push_str(filler_line(rng, opts.non_ascii));
            text.push_str(nl);
        }
    }
    Doc { text, lits: placed }
}
