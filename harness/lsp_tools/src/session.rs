//! C21: after every prefix of a notification / disk-edit history the long-lived
//! server answers exactly like a server freshly started on the same effective
//! contents (disk, overridden by open buffers).
use std::collections::BTreeMap;
use std::path::{Path, PathBuf};

use serde_json::{Value, json};

use crate::common::*;
use crate::drive::{DiskEventKind, Server, write_project};
use crate::generate::{self, DocOpts, Style, ValidCtx};
use crate::pos;
use crate::positions_check::CLIENT_FIELDS;
use crate::rng::Rng;

pub const FILES: &[&str] = &["src/A.tsx", "src/B.ts", "src/sub/C.tsx", "src/D.ts"];

#[derive(Clone, Debug, PartialEq)]
pub enum Op {
    Open { f: usize, text: String },
    Change { f: usize, text: String },
    Close { f: usize },
    DiskWrite { f: usize, text: String },
    DiskDelete { f: usize },
    /// the debounce tick: diagnostics are computed (and compared)
    Tick,
    Gc,
    /// per-file requests on the long-lived server, compared with the fresh servers
    Check { files: Vec<usize> },
}

impl Op {
    fn kind(&self) -> String {
        match self {
            Op::Open { f, .. } => format!("open{f}"),
            Op::Change { f, .. } => format!("change{f}"),
            Op::Close { f } => format!("close{f}"),
            Op::DiskWrite { f, .. } => format!("write{f}"),
            Op::DiskDelete { f } => format!("delete{f}"),
            Op::Tick => "tick".into(),
            Op::Gc => "gc".into(),
            Op::Check { .. } => "check".into(),
        }
    }
    fn to_json(&self) -> Value {
        match self {
            Op::Open { f, text } => json!({"op": "didOpen", "file": FILES[*f], "text": text}),
            Op::Change { f, text } => json!({"op": "didChange", "file": FILES[*f], "text": text}),
            Op::Close { f } => json!({"op": "didClose", "file": FILES[*f]}),
            Op::DiskWrite { f, text } => json!({"op": "diskWrite+watcherEvent", "file": FILES[*f], "text": text}),
            Op::DiskDelete { f } => json!({"op": "diskDelete+watcherEvent", "file": FILES[*f]}),
            Op::Tick => json!({"op": "diagnosticsTick"}),
            Op::Gc => json!({"op": "garbageCollection"}),
            Op::Check { files } => json!({"op": "requests", "files": files.iter().map(|f| FILES[*f]).collect::<Vec<_>>()}),
        }
    }
}

/// One version of file `f`. Flavours: valid / valid in another shape / syntax
/// error / unknown field / no literals / conflicting definition.
pub fn file_text(rng: &mut Rng, f: usize) -> (String, &'static str) {
    let crlf = rng.chance(1, 6);
    let non_ascii = rng.chance(1, 2);
    let style = if rng.chance(1, 3) { Style::Messy } else { Style::Tidy };
    let flavour = match rng.below(10) {
        0..=4 => "valid",
        5 => "syntax-error",
        6 => "unknown-field",
        7 => "no-literals",
        // (two definitions of one field are not generated: which of them gets the
        // "multiple definitions" diagnostic depends on hash-map order even between
        // two fresh servers, so it says nothing about history dependence)
        _ => "valid",
    };
    if flavour == "no-literals" {
        let mut t = String::new();
        for _ in 0..rng.range(1, 3) {
            t.push_str(generate::filler_line(rng, non_ascii));
            t.push('\n');
        }
        return (t, flavour);
    }
    let own: &[(&str, &str)] = match f {
        0 => CLIENT_FIELDS,
        1 => &[("Query", "HomeB")],
        2 => &[("User", "DetailC"), ("Query", "PageC")],
        _ => &[("Pet", "ExtraD")],
    };
    let none: &[(&str, &str)] = &[];
    let ctx = ValidCtx { client_fields: if f == 0 { none } else { CLIENT_FIELDS }, max_depth: 2 };
    let mut lits = vec![];
    for (p, n) in own {
        lits.push(generate::gen_valid_field(rng, style, crlf, p, n, &ctx));
    }
    if f == 1 {
        lits.push(generate::gen_entrypoint(rng, style, "Query", "HomeB"));
    }
    if f == 2 && rng.chance(1, 2) {
        lits.push(generate::gen_entrypoint(rng, style, "Query", "PageC"));
    }
    match flavour {
        "syntax-error" => {
            let k = rng.below(lits.len());
            let l = &mut lits[k];
            if let Some(i) = l.text.rfind('}') {
                l.text.replace_range(i..i + 1, if rng.chance(1, 2) { ")" } else { "" });
            } else {
                l.text.push_str(" {");
            }
        }
        "unknown-field" => {
            let k = rng.below(lits.len());
            let l = &mut lits[k];
            if let Some(i) = l.text.rfind('}') {
                l.text.insert_str(i, " ghostField\n");
            }
        }
        _ => {}
    }
    let doc = generate::assemble(rng, &lits, &DocOpts { non_ascii, crlf });
    (doc.text, flavour)
}

#[derive(Clone, Default, Debug)]
pub struct Model {
    pub disk: BTreeMap<usize, String>,
    pub open: BTreeMap<usize, String>,
}

impl Model {
    fn effective(&self) -> BTreeMap<usize, String> {
        let mut m = self.disk.clone();
        for (f, t) in &self.open {
            m.insert(*f, t.clone());
        }
        m
    }
}

pub struct History {
    pub schema: String,
    pub initial: BTreeMap<usize, String>,
    pub ops: Vec<Op>,
}

pub fn gen_history(rng: &mut Rng, max_ops: usize, disk_backed: bool) -> History {
    let schema = generate::schema_text(if rng.chance(1, 3) { 1 } else { 0 });
    let mut m = Model::default();
    for f in 0..FILES.len() {
        if rng.chance(3, 4) {
            m.disk.insert(f, file_text(rng, f).0);
        }
    }
    let initial = m.disk.clone();
    let mut ops = vec![];
    let n = rng.range(3, max_ops);
    let mut ticked = false;
    for _ in 0..n {
        let f = rng.below(FILES.len());
        let roll = rng.below(100);
        let op = if roll < 18 {
            if m.open.contains_key(&f) { Op::Change { f, text: file_text(rng, f).0 } } else { Op::Open { f, text: open_text(rng, &m, f) } }
        } else if roll < 36 {
            if m.open.contains_key(&f) { Op::Change { f, text: file_text(rng, f).0 } } else { Op::Tick }
        } else if roll < 46 {
            if m.open.contains_key(&f) { Op::Close { f } } else { Op::Open { f, text: open_text(rng, &m, f) } }
        } else if roll < 62 {
            Op::DiskWrite { f, text: file_text(rng, f).0 }
        } else if roll < 70 {
            if m.disk.contains_key(&f) { Op::DiskDelete { f } } else { Op::DiskWrite { f, text: file_text(rng, f).0 } }
        } else if roll < 86 {
            Op::Tick
        } else if roll < 90 {
            Op::Gc
        } else {
            Op::Check { files: (0..FILES.len()).filter(|_| rng.chance(2, 3)).collect() }
        };
        // profile "disk-backed": every open buffer has a file on disk
        let op = match op {
            Op::Open { f, .. } if disk_backed && !m.disk.contains_key(&f) => Op::DiskWrite { f, text: file_text(rng, f).0 },
            Op::DiskDelete { f } if disk_backed && m.open.contains_key(&f) => Op::Close { f },
            o => o,
        };
        let state_changing = !matches!(op, Op::Check { .. });
        match &op {
            Op::Open { f, text } | Op::Change { f, text } => {
                m.open.insert(*f, text.clone());
            }
            Op::Close { f } => {
                m.open.remove(f);
            }
            Op::DiskWrite { f, text } => {
                m.disk.insert(*f, text.clone());
            }
            Op::DiskDelete { f } => {
                m.disk.remove(f);
            }
            Op::Tick => ticked = true,
            _ => {}
        }

        ops.push(op);
        // observe after (almost) every step; which files are asked varies, which also varies what is cached
        if state_changing && rng.chance(3, 4) {
            ops.push(Op::Check { files: (0..FILES.len()).filter(|_| rng.chance(2, 3)).collect() });
        }
        if state_changing && rng.chance(1, 3) {
            ops.push(Op::Tick);
            ticked = true;
        }
    }
    let _ = ticked;
    ops.push(Op::Tick);
    ops.push(Op::Check { files: (0..FILES.len()).collect() });
    History { schema, initial, ops }
}

/// An editor opens a file with what is on disk (usually), or with other text
/// (unsaved changes restored, or a new file).
fn open_text(rng: &mut Rng, m: &Model, f: usize) -> String {
    match m.disk.get(&f) {
        Some(t) if rng.chance(2, 3) => t.clone(),
        _ => file_text(rng, f).0,
    }
}

#[derive(Debug, Clone)]
pub struct Divergence {
    pub step: usize,
    pub variant: &'static str,
    pub kind: String,
    pub file: String,
    pub live: Value,
    pub fresh: Value,
    /// at the failing step some open buffer has no file on disk
    pub open_without_disk: bool,
}

pub struct Dirs {
    pub live: PathBuf,
    pub fresh: PathBuf,
    /// what the two directories hold (only differences are written)
    fresh_holds: std::cell::RefCell<Option<(String, BTreeMap<usize, String>)>>,
    live_holds: std::cell::RefCell<Option<(String, BTreeMap<usize, String>)>>,
}

impl Dirs {
    pub fn new(work: &Path) -> Dirs {
        let base = work.join(format!("sess-{}", std::process::id()));
        let _ = std::fs::remove_dir_all(&base);
        std::fs::create_dir_all(&base).expect("mkdir");
        let base = base.canonicalize().expect("canon");
        Dirs { live: base.join("live"), fresh: base.join("fresh"), fresh_holds: std::cell::RefCell::new(None), live_holds: std::cell::RefCell::new(None) }
    }
}

impl Drop for Dirs {
    fn drop(&mut self) {
        if let Some(p) = self.live.parent() {
            let _ = std::fs::remove_dir_all(p);
        }
    }
}

/// Make `dir` hold exactly `schema` + `files`, writing only what differs from `holds`.
fn sync_dir(dir: &Path, holds: &std::cell::RefCell<Option<(String, BTreeMap<usize, String>)>>, schema: &str, files: &BTreeMap<usize, String>) {
    let mut h = holds.borrow_mut();
    match h.as_mut() {
        None => {
            let _ = std::fs::remove_dir_all(dir);
            let list: Vec<(String, String)> = files.iter().map(|(f, t)| (FILES[*f].to_string(), t.clone())).collect();
            write_project(dir, schema, &list).expect("write project");
            *h = Some((schema.to_string(), files.clone()));
        }
        Some((hs, hf)) => {
            if hs != schema {
                std::fs::write(dir.join("schema.graphql"), schema).expect("write schema");
                *hs = schema.to_string();
            }
            for f in 0..FILES.len() {
                match (hf.get(&f), files.get(&f)) {
                    (Some(a), Some(b)) if a == b => {}
                    (_, Some(b)) => {
                        let p = dir.join(FILES[f]);
                        if let Some(d) = p.parent() {
                            std::fs::create_dir_all(d).expect("mkdir");
                        }
                        std::fs::write(p, b).expect("write file");
                    }
                    (Some(_), None) => {
                        let _ = std::fs::remove_file(dir.join(FILES[f]));
                    }
                    (None, None) => {}
                }
            }
            *hf = files.clone();
        }
    }
}

/// cursor positions inside back-tick literals: starts / middles of identifiers
fn sample_positions(text: &str, rng: &mut Rng, n: usize) -> Vec<(u32, u32)> {
    let mut cands = vec![];
    let mut inside = false;
    let mut prev_ident = false;
    for (i, c) in text.char_indices() {
        if c == '`' {
            inside = !inside;
            prev_ident = false;
            continue;
        }
        let is_ident = c.is_ascii_alphanumeric() || c == '_';
        if inside && is_ident && !prev_ident {
            cands.push(i);
        }
        prev_ident = is_ident;
    }
    let mut out = vec![];
    for _ in 0..n.min(cands.len()) {
        let b = cands[rng.below(cands.len())] + rng.below(2);
        if text.is_char_boundary(b) && b < text.len() {
            out.push(pos::byte_to_pos(text, b));
        }
    }
    out.sort();
    out.dedup();
    out
}

fn answers(s: &mut Server, rel: &str, positions: &[(u32, u32)]) -> Vec<(String, Value)> {
    let mut v = vec![];
    let t = s.semantic_tokens(rel);
    v.push(("semanticTokens".to_string(), s.normalise(&t)));
    let t = s.formatting(rel);
    v.push(("formatting".to_string(), s.normalise(&t)));
    for (l, c) in positions {
        let t = s.hover(rel, *l, *c);
        v.push((format!("hover@{l}:{c}"), s.normalise(&t)));
        let t = s.definition(rel, *l, *c);
        v.push((format!("definition@{l}:{c}"), s.normalise(&t)));
    }
    v
}

fn fresh_servers(dirs: &Dirs, schema: &str, m: &Model) -> Result<Vec<(&'static str, Server)>, String> {
    // (1) materialised: the effective contents are what is on disk
    sync_dir(&dirs.fresh, &dirs.fresh_holds, schema, &m.effective());
    let a = Server::start(&dirs.fresh)?;
    // (2) reopened: the real disk, then the editor re-sends its open buffers
    let mut b = Server::start(&dirs.live)?;
    for (f, t) in &m.open {
        b.did_open(FILES[*f], t)?;
    }
    Ok(vec![("materialised", a), ("reopened", b)])
}

/// Safety net: is the answer of a fresh server itself reproducible? (two fresh
/// servers on the same directory). If not, nothing can be concluded for this step.
fn baseline_is_deterministic(dirs: &Dirs, files: &[usize], eff: &BTreeMap<usize, String>, with_tick: bool) -> Result<bool, String> {
    let mut x = Server::start(&dirs.fresh)?;
    let mut y = Server::start(&dirs.fresh)?;
    if with_tick {
        let _ = x.tick();
        let _ = y.tick();
        if x.client_view != y.client_view {
            return Ok(false);
        }
    }
    for f in files {
        if eff.contains_key(f) {
            let a = answers(&mut x, FILES[*f], &[]);
            let b = answers(&mut y, FILES[*f], &[]);
            if a != b {
                return Ok(false);
            }
        }
    }
    Ok(true)
}

/// Runs the history on a long-lived server; stops at the first divergence.
/// Err = the harness could not do its job (never a verdict).
pub fn run_history(dirs: &Dirs, h: &History, seed_for_positions: u64, stats: &mut BTreeMap<String, u64>) -> Result<Option<Divergence>, String> {
    sync_dir(&dirs.live, &dirs.live_holds, &h.schema, &h.initial);
    let mut live = Server::start(&dirs.live)?;
    let mut m = Model { disk: h.initial.clone(), open: BTreeMap::new() };
    let mut versions: BTreeMap<usize, i32> = BTreeMap::new();
    let mut bump = |k: &str| *stats.entry(k.to_string()).or_insert(0) += 1;
    for (step, op) in h.ops.iter().enumerate() {
        let mut live_failure: Option<String> = None;
        match op {
            Op::Open { f, text } => {
                if m.open.contains_key(f) {
                    continue; // shrinking may have removed the close: skip protocol violations
                }
                if live.ticks > 0 {
                    bump("opens_after_first_diagnostics");
                } else {
                    bump("opens_before_first_diagnostics");
                }
                if !m.disk.contains_key(f) {
                    bump("opens_of_files_absent_on_disk");
                }
                live_failure = live.did_open(FILES[*f], text).err();
                m.open.insert(*f, text.clone());
            }
            Op::Change { f, text } => {
                if !m.open.contains_key(f) {
                    continue;
                }
                let v = versions.entry(*f).or_insert(1);
                *v += 1;
                bump("changes");
                live_failure = live.did_change(FILES[*f], text, *v).err();
                m.open.insert(*f, text.clone());
            }
            Op::Close { f } => {
                if !m.open.contains_key(f) {
                    continue;
                }
                bump("closes");
                live_failure = live.did_close(FILES[*f]).err();
                m.open.remove(f);
            }
            Op::DiskWrite { f, text } => {
                let p = dirs.live.join(FILES[*f]);
                let existed = p.exists();
                if let Some(d) = p.parent() {
                    std::fs::create_dir_all(d).map_err(|e| e.to_string())?;
                }
                std::fs::write(&p, text).map_err(|e| e.to_string())?;
                if m.open.contains_key(f) {
                    bump("disk_writes_of_open_files");
                } else {
                    bump("disk_writes_of_closed_files");
                }
                let kind = if existed { DiskEventKind::Modify } else { DiskEventKind::Create };
                live_failure = live.disk_events(&[(kind, p)]).err();
                m.disk.insert(*f, text.clone());
                if let Some((_, hf)) = dirs.live_holds.borrow_mut().as_mut() {
                    hf.insert(*f, text.clone());
                }
            }
            Op::DiskDelete { f } => {
                if !m.disk.contains_key(f) {
                    continue;
                }
                let p = dirs.live.join(FILES[*f]);
                std::fs::remove_file(&p).map_err(|e| e.to_string())?;
                if m.open.contains_key(f) {
                    bump("deletes_of_open_files");
                } else {
                    bump("deletes_of_closed_files");
                }
                live_failure = live.disk_events(&[(DiskEventKind::Remove, p)]).err();
                m.disk.remove(f);
                if let Some((_, hf)) = dirs.live_holds.borrow_mut().as_mut() {
                    hf.remove(f);
                }
            }
            Op::Gc => {
                bump("gcs");
                live_failure = live.gc().err();
            }
            Op::Tick => {
                bump("diagnostic_comparisons");
                let live_tick = live.tick();
                let live_view = match &live_tick {
                    Ok(_) => json!(live.client_view),
                    Err(e) => json!({"panic": e}),
                };
                for (variant, mut fs) in fresh_servers(dirs, &h.schema, &m)? {
                    let fresh_view = match fs.tick() {
                        Ok(_) => json!(fs.client_view),
                        Err(e) => json!({"panic": e}),
                    };
                    if fresh_view != live_view {
                        if !baseline_is_deterministic(dirs, &[], &m.effective(), true)? {
                            bump("steps_skipped_fresh_servers_disagree_with_each_other");
                            break;
                        }
                        // which file differs first
                        let file = FILES.iter().find(|f| live_view.get(**f) != fresh_view.get(**f)).copied().unwrap_or("?").to_string();
                                                return Ok(Some(Divergence {
                            step,
                            variant,
                            kind: "diagnostics".into(),
                            open_without_disk: m.open.keys().any(|i| !m.disk.contains_key(i)),
                            file,
                            live: live_view,
                            fresh: fresh_view,
                        }));
                    }
                }
                if !live.client_view.is_empty() {
                    bump("ticks_with_diagnostics");
                }
                if live_tick.is_err() {
                    bump("histories_ended_by_a_panic_common_to_all_servers");
                    return Ok(None);
                }
            }
            Op::Check { files } => {
                let eff = m.effective();
                let mut fresh = fresh_servers(dirs, &h.schema, &m)?;
                for f in files {
                    let Some(text) = eff.get(f) else { continue };
                    let mut prng = Rng::derive(seed_for_positions, (step * 16 + f) as u64);
                    let positions = sample_positions(text, &mut prng, 3);
                    let la = answers(&mut live, FILES[*f], &positions);
                    bump("file_answer_comparisons");
                    for (variant, fs) in fresh.iter_mut() {
                        let fa = answers(fs, FILES[*f], &positions);
                        for ((k, lv), (_, fv)) in la.iter().zip(fa.iter()) {
                            if lv != fv {
                                if !baseline_is_deterministic(dirs, &[*f], &eff, false)? {
                                    bump("steps_skipped_fresh_servers_disagree_with_each_other");
                                    break;
                                }
                                return Ok(Some(Divergence {
                                    step,
                                    variant,
                                    kind: k.split('@').next().unwrap().to_string(),
                                    file: FILES[*f].to_string(),
                                    live: lv.clone(),
                                    fresh: fv.clone(),
                                    open_without_disk: m.open.keys().any(|i| !m.disk.contains_key(i)),
                                }));
                            }
                        }
                    }
                    if la.iter().any(|(_, v)| v.get("panic").is_some()) {
                        // same panic everywhere: no history dependence to report, but the
                        // long-lived state cannot be trusted any more: end this history
                        bump("histories_ended_by_a_panic_common_to_all_servers");
                        return Ok(None);
                    }
                }
            }
        }
        if let Some(e) = live_failure {
            // a notification / watcher update that kills the real server: compare with nothing, it is a divergence by itself
            return Ok(Some(Divergence {
                step,
                variant: "materialised",
                kind: "server-died".into(),
                file: match op {
                    Op::Open { f, .. } | Op::Change { f, .. } | Op::Close { f } | Op::DiskWrite { f, .. } | Op::DiskDelete { f } => FILES[*f].to_string(),
                    _ => "?".into(),
                },
                live: json!({"panic": e}),
                fresh: Value::Null,
                open_without_disk: false,
            }));
        }
    }
    Ok(None)
}

fn same_cause(a: &Divergence, b: &Divergence) -> bool {
    a.variant == b.variant && a.kind == b.kind && a.open_without_disk == b.open_without_disk
}

fn shrink_history(dirs: &Dirs, h: &History, d: &Divergence, pos_seed: u64) -> (History, Divergence) {
    let mut cur = History { schema: h.schema.clone(), initial: h.initial.clone(), ops: h.ops[..=d.step.min(h.ops.len() - 1)].to_vec() };
    let mut cur_d = d.clone();
    let mut scratch = BTreeMap::new();
    let mut budget = 120usize;
    // fast path: often the last state-changing step plus the observation suffices
    if let Some(k) = cur.ops.iter().rposition(|o| !matches!(o, Op::Check { .. } | Op::Tick)) {
        let cand = History { schema: cur.schema.clone(), initial: cur.initial.clone(), ops: cur.ops[k..].to_vec() };
        if let Ok(Some(nd)) = run_history(dirs, &cand, pos_seed, &mut scratch) {
            if same_cause(&nd, d) {
                cur = History { schema: cand.schema, initial: cand.initial, ops: cand.ops[..=nd.step].to_vec() };
                cur_d = nd;
            }
        }
    }
    loop {
        let mut changed = false;
        // ops, last to first (the final observing op stays)
        let mut i = cur.ops.len().saturating_sub(1);
        while i > 0 && budget > 0 {
            i -= 1;
            let mut cand_ops = cur.ops.clone();
            cand_ops.remove(i);
            let cand = History { schema: cur.schema.clone(), initial: cur.initial.clone(), ops: cand_ops };
            budget -= 1;
            if let Ok(Some(nd)) = run_history(dirs, &cand, pos_seed, &mut scratch) {
                if same_cause(&nd, d) {
                    cur = History { schema: cand.schema, initial: cand.initial, ops: cand.ops[..=nd.step].to_vec() };
                    cur_d = nd;
                    changed = true;
                    i = i.min(cur.ops.len().saturating_sub(1));
                }
            }
        }
        // initial files
        for f in 0..FILES.len() {
            if cur.initial.contains_key(&f) && budget > 0 {
                let mut init = cur.initial.clone();
                init.remove(&f);
                let cand = History { schema: cur.schema.clone(), initial: init, ops: cur.ops.clone() };
                budget -= 1;
                if let Ok(Some(nd)) = run_history(dirs, &cand, pos_seed, &mut scratch) {
                    if same_cause(&nd, d) {
                        cur = History { schema: cand.schema, initial: cand.initial, ops: cand.ops[..=nd.step].to_vec() };
                        cur_d = nd;
                        changed = true;
                    }
                }
            }
        }
        if !changed || budget == 0 {
            break;
        }
    }
    (cur, cur_d)
}

/// Cause class for the signature. An open buffer whose file is absent on disk is
/// one cause whatever answer shows it; anything else is named by the shrunk
/// history's op kinds (files renamed in order of first appearance).
fn shape(h: &History, d: &Divergence) -> String {
    if d.open_without_disk {
        let how = if d.live.get("panic").is_some() || d.kind == "server-died" { "server-panics" } else { "buffer-ignored" };
        return format!("open-buffer-of-file-absent-on-disk/{how}");
    }
    let mut names: BTreeMap<usize, char> = BTreeMap::new();
    let mut next = b'a';
    let mut name = |f: usize| -> char {
        *names.entry(f).or_insert_with(|| {
            let c = next as char;
            next += 1;
            c
        })
    };
    let mut parts = vec![];
    for op in &h.ops {
        parts.push(match op {
            Op::Open { f, .. } => format!("open({})", name(*f)),
            Op::Change { f, .. } => format!("change({})", name(*f)),
            Op::Close { f } => format!("close({})", name(*f)),
            Op::DiskWrite { f, .. } => format!("write({})", name(*f)),
            Op::DiskDelete { f } => format!("delete({})", name(*f)),
            Op::Tick => "tick".to_string(),
            Op::Gc => "gc".to_string(),
            Op::Check { .. } => "requests".to_string(),
        });
    }
    format!("{}|{}", d.kind, parts.join(","))
}

pub fn run(args: &Args) -> Value {
    let seed = args.u64("seed", 1);
    let count = args.u64("count", 100);
    let start = args.u64("start", 0);
    let max_ops = args.u64("maxops", 14) as usize;
    let work = PathBuf::from(args.str("work", "/var/tmp/vf-scratch/lsp"));
    let want_samples = args.u64("samples", 0);
    let no_shrink = args.flag("no-shrink");
    let dirs = Dirs::new(&work);
    let mut rep = Report::default();
    let mut stats: BTreeMap<String, u64> = BTreeMap::new();

    for case in start..start + count {
        let mut rng = Rng::derive(seed, case);
        // 2 of 3 histories keep every open buffer backed by a file on disk, so that the
        // known "open buffer without a disk file" cause cannot cut them short
        let disk_backed = case % 3 != 0;
        let h = gen_history(&mut rng, max_ops, disk_backed);
        rep.count(if disk_backed { "histories_disk_backed" } else { "histories_unrestricted" }, 1);
        rep.cases += 1;
        rep.count("ops", h.ops.len() as u64);
        let before_after = (stats.get("opens_after_first_diagnostics").copied().unwrap_or(0), stats.get("changes").copied().unwrap_or(0));
        match run_history(&dirs, &h, seed ^ case, &mut stats) {
            Err(e) => rep.harness_errors.push(format!("history {case}: {e}")),
            Ok(None) => {}
            Ok(Some(d)) => {
                let (sh, sd) = if no_shrink { (History { schema: h.schema.clone(), initial: h.initial.clone(), ops: h.ops[..=d.step].to_vec() }, d.clone()) } else { shrink_history(&dirs, &h, &d, seed ^ case) };
                rep.finding(
                    &format!("fresh-{}", sd.variant),
                    format!("C21/fresh-{}/{}", sd.variant, shape(&sh, &sd)),
                    format!(
                        "{} of {} differ from a fresh server ({}) after {} steps: long-lived {} vs fresh {}",
                        sd.kind,
                        sd.file,
                        sd.variant,
                        sh.ops.len(),
                        sd.live.to_string().chars().take(140).collect::<String>(),
                        sd.fresh.to_string().chars().take(140).collect::<String>()
                    ),
                    json!({"case": case, "seed": seed, "original_ops": h.ops.len(), "failing_step": d.step,
                           "shrunk_initial_files": sh.initial.iter().map(|(f, t)| json!({"file": FILES[*f], "text": t})).collect::<Vec<_>>(),
                           "shrunk_history": sh.ops.iter().map(|o| o.to_json()).collect::<Vec<_>>(),
                           "long_lived": sd.live, "fresh": sd.fresh,
                           "replay": format!("lsp_tools session --seed {seed} --start {case} --count 1")}),
                );
            }
        }
        // non-trivial: the history opened a file after diagnostics had been computed, or changed an open buffer
        let now = (stats.get("opens_after_first_diagnostics").copied().unwrap_or(0), stats.get("changes").copied().unwrap_or(0));
        if now.0 > before_after.0 || now.1 > before_after.1 {
            rep.nontrivial += 1;
        }
        if (rep.samples.len() as u64) < want_samples {
            rep.samples.push(json!({"case": case, "initial_files": h.initial.keys().map(|f| FILES[*f]).collect::<Vec<_>>(), "ops": h.ops.iter().map(|o| o.kind()).collect::<Vec<_>>()}));
        }
    }
    for (k, v) in stats {
        rep.count(&k, v);
    }
    rep.to_json("session")
}
