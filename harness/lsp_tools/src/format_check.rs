//! C22: formatting preserves meaning, is idempotent, and its edits replace
//! exactly the literal's text.
use serde_json::{Value, json};

use crate::ast;
use crate::common::*;
use crate::generate::{self, Doc, DocOpts, Lit, Style};
use crate::pos;
use crate::rng::Rng;

const SLOTS: usize = 16;

fn slot_rel(i: usize) -> String {
    format!("src/S{i}.tsx")
}

fn stub_files(doc_on_disk: Option<&str>) -> Vec<(String, String)> {
    let mut v: Vec<(String, String)> = (0..SLOTS).map(|i| (slot_rel(i), "// stub on disk\n".to_string())).collect();
    v.push((DOC_REL.to_string(), doc_on_disk.unwrap_or("// stub on disk\n").to_string()));
    v
}

/// One server serves up to SLOTS documents, each in its own file that is opened
/// exactly once (so no answer depends on the server forgetting earlier text).
pub struct FmtServer<'p> {
    project: &'p Project,
    server: Option<crate::drive::Server>,
    next: usize,
}

impl<'p> FmtServer<'p> {
    pub fn new(project: &'p Project) -> FmtServer<'p> {
        FmtServer { project, server: None, next: 0 }
    }
    /// formatting answer for `text` held in an open buffer
    fn format_open(&mut self, text: &str) -> Result<Value, String> {
        if self.server.is_none() || self.next >= SLOTS {
            self.project.reset(&generate::schema_text(0), &stub_files(None));
            self.server = Some(self.project.server()?);
            self.next = 0;
        }
        let rel = slot_rel(self.next);
        self.next += 1;
        let s = self.server.as_mut().unwrap();
        s.did_open(&rel, text)?;
        let v = s.formatting(&rel);
        if v.get("panic").is_some() {
            self.server = None; // state after a panic is not to be trusted
        }
        Ok(v)
    }
    /// formatting answer for `text` read from disk by a fresh server
    fn format_disk(&mut self, text: &str) -> Result<Value, String> {
        self.server = None;
        self.project.reset(&generate::schema_text(0), &stub_files(Some(text)));
        let mut s = self.project.server()?;
        Ok(s.formatting(DOC_REL))
    }
}

fn format_doc(fs: &mut FmtServer, text: &str, via_open: bool) -> Result<Value, String> {
    if via_open { fs.format_open(text) } else { fs.format_disk(text) }
}

#[derive(Debug, Clone, PartialEq, Eq)]
enum LitVerdict {
    NotAccepted,
    Ok,
    Violation(&'static str, String),
}

/// All per-literal rules for one literal standing alone in a minimal document.
fn check_single(project: &mut FmtServer, lit_text: &str, export: Option<&str>, called: bool) -> LitVerdict {
    let head = match export {
        Some(n) => format!("export const {n} = iso(`"),
        None => "const e = iso(`".to_string(),
    };
    let tail = if called { "`)(() => null);\n" } else { "`);\n" };
    let doc = format!("{head}{lit_text}{tail}");
    let start = head.len();
    let parsed = match parse_literal(lit_text, DOC_REL, export, start) {
        Ok(p) => p,
        Err(_) => return LitVerdict::NotAccepted,
    };
    let resp = match format_doc(project, &doc, true) {
        Ok(r) => r,
        Err(e) => return LitVerdict::Violation("format-crash", e),
    };
    if resp.get("panic").is_some() || resp.get("error").is_some() {
        return LitVerdict::Violation("format-crash", resp.to_string());
    }
    let edits = match edits_from_response(&resp) {
        Ok(e) => e,
        Err(e) => return LitVerdict::Violation("format-no-edit", e),
    };
    if edits.len() != 1 {
        return LitVerdict::Violation("format-no-edit", format!("{} edits for one accepted literal", edits.len()));
    }
    let f = &edits[0].new_text;
    let reparsed = match parse_literal(f, DOC_REL, export, start) {
        Ok(p) => p,
        Err(m) => return LitVerdict::Violation("format-rejected", format!("parser rejects formatted text: {m}")),
    };
    let (a, b) = (ast::erase(&parsed), ast::erase(&reparsed));
    if a != b {
        return LitVerdict::Violation("ast-changed", format!("before {a} after {b}"));
    }
    // idempotence
    let doc2 = format!("{head}{f}{tail}");
    let resp2 = match format_doc(project, &doc2, true) {
        Ok(r) => r,
        Err(e) => return LitVerdict::Violation("format-crash", e),
    };
    match edits_from_response(&resp2) {
        Ok(e2) if e2.len() == 1 => {
            if &e2[0].new_text != f {
                return LitVerdict::Violation("not-idempotent", format!("format(format(L)) = {:?} but format(L) = {:?}", e2[0].new_text, f));
            }
        }
        Ok(e2) => return LitVerdict::Violation("not-idempotent", format!("{} edits on the formatted text", e2.len())),
        Err(e) => return LitVerdict::Violation("not-idempotent", e),
    }
    LitVerdict::Ok
}

/// Do the returned edits, applied per the LSP spec, change exactly the literals?
/// Returns Err(description) when not.
fn check_edit_ranges(doc: &Doc, accepted: &[bool], edits: &[pos::Edit]) -> Result<(), String> {
    let n_acc = accepted.iter().filter(|x| **x).count();
    if edits.len() != n_acc {
        return Err(format!("{} edits for {} accepted literals", edits.len(), n_acc));
    }
    // expected document: each accepted literal's bytes replaced by the corresponding new text
    let mut expected = doc.text.clone();
    let mut pairs = vec![];
    let mut k = 0;
    for (i, l) in doc.lits.iter().enumerate() {
        if accepted[i] {
            pairs.push((l.start, l.start + l.text.len(), edits[k].new_text.clone()));
            k += 1;
        }
    }
    for (s, e, t) in pairs.iter().rev() {
        expected.replace_range(*s..*e, t);
    }
    let applied = pos::apply_edits(&doc.text, edits)?;
    if applied != expected {
        let at = applied.bytes().zip(expected.bytes()).position(|(a, b)| a != b).unwrap_or(applied.len().min(expected.len()));
        return Err(format!("applying the edits does not replace exactly the literals (first difference at byte {at} of the result)"));
    }
    Ok(())
}

/// document with the contents of every back-tick literal removed
fn skeleton(text: &str) -> String {
    let mut out = String::new();
    let mut inside = false;
    for c in text.chars() {
        if c == '`' {
            inside = !inside;
            out.push(c);
        } else if !inside {
            out.push(c);
        }
    }
    out
}

/// Shrink predicate for the edit-range rule: the server returns at least one edit
/// and applying its edits changes text outside the literals (or cannot be applied).
fn edit_range_fires(project: &mut FmtServer, text: &str) -> bool {
    if text.matches('`').count() % 2 != 0 || !text.contains("iso(`") {
        return false;
    }
    let resp = match format_doc(project, text, true) {
        Ok(r) => r,
        Err(_) => return false,
    };
    match edits_from_response(&resp) {
        Ok(edits) if !edits.is_empty() => match pos::apply_edits(text, &edits) {
            Ok(applied) => {
                // literal regions = between back-ticks; when every region got an edit the
                // expected result is known exactly, otherwise compare the skeletons
                let mut regions = vec![];
                let mut open: Option<usize> = None;
                for (i, c) in text.char_indices() {
                    if c == '`' {
                        match open.take() {
                            None => open = Some(i + 1),
                            Some(s) => regions.push((s, i)),
                        }
                    }
                }
                if regions.len() == edits.len() {
                    let mut expected = text.to_string();
                    for ((s, e), ed) in regions.iter().zip(edits.iter()).rev() {
                        expected.replace_range(*s..*e, &ed.new_text);
                    }
                    applied != expected
                } else {
                    skeleton(&applied) != skeleton(text)
                }
            }
            Err(_) => true,
        },
        _ => false,
    }
}

pub fn run(args: &Args) -> Value {
    let seed = args.u64("seed", 1);
    let count = args.u64("count", 100);
    let start = args.u64("start", 0);
    let work = std::path::PathBuf::from(args.str("work", "/var/tmp/vf-scratch/lsp"));
    let want_samples = args.u64("samples", 0);
    let no_shrink = args.flag("no-shrink");
    let project_dir = Project::new(&work, "fmt");
    let mut project = FmtServer::new(&project_dir);
    let mut rep = Report::default();
    let mut shapes = std::collections::BTreeSet::new();

    for case in start..start + count {
        let mut rng = Rng::derive(seed, case);
        let nlits = rng.range(1, 4);
        let crlf = rng.chance(1, 5);
        let non_ascii = rng.chance(3, 4);
        let mut lits: Vec<Lit> = vec![];
        for k in 0..nlits {
            let style = if rng.chance(3, 4) { Style::Messy } else { Style::Tidy };
            let mut l = generate::gen_grammar_literal(&mut rng, style, crlf);
            if let Some(n) = &mut l.export_name {
                *n = format!("Exported{k}");
            }
            lits.push(l);
        }
        // a literal the formatter cannot handle (the user is mid-typing: parse error) standing BEFORE literals it
        // can: the edits of the later ones must still address exactly their own text
        if nlits >= 2 && rng.chance(1, 3) {
            let i = rng.below(nlits - 1);
            let t = &mut lits[i].text;
            match t.find('{') {
                Some(p) if rng.chance(1, 2) => t.insert_str(p + 1, " ( "),
                _ => {
                    let mut cut = t.len() / 2;
                    while !t.is_char_boundary(cut) {
                        cut -= 1;
                    }
                    t.truncate(cut);
                    // stay inside the documented domain (LF / CRLF documents): no lone CR from cutting a CRLF in two
                    while t.ends_with('\r') {
                        t.pop();
                    }
                }
            }
            lits[i].probes.clear();
            rep.count("documents_with_a_deliberately_broken_literal_before_others", 1);
        }
        let doc = generate::assemble(&mut rng, &lits, &DocOpts { non_ascii, crlf });
        rep.cases += 1;
        rep.count("literals", nlits as u64);

        // (1) per-literal rules, each literal alone (so that one literal's defect cannot hide another's)
        let mut accepted = vec![];
        for (i, l) in lits.iter().enumerate() {
            let v = check_single(&mut project, &l.text, l.export_name.as_deref(), l.called);
            match &v {
                LitVerdict::NotAccepted => {
                    rep.count("literals_rejected_by_parser", 1);
                    accepted.push(false);
                }
                LitVerdict::Ok => {
                    rep.count("literals_accepted", 1);
                    accepted.push(true);
                    let shape = normalise_shape(&l.text.split_whitespace().collect::<Vec<_>>().join(" "));
                    if l.text.len() > 30 && shapes.insert(shape) {
                        rep.nontrivial += 1;
                    }
                }
                LitVerdict::Violation(rule, detail) => {
                    rep.count("literals_accepted", 1);
                    accepted.push(true);
                    let rule = *rule;
                    let shrunk = if no_shrink {
                        l.text.clone()
                    } else {
                        shrink_text(&l.text, |cand| matches!(check_single(&mut project, cand, l.export_name.as_deref(), l.called), LitVerdict::Violation(r, _) if r == rule))
                    };
                    let detail2 = match check_single(&mut project, &shrunk, l.export_name.as_deref(), l.called) {
                        LitVerdict::Violation(_, d) => d,
                        _ => detail.clone(),
                    };
                    rep.finding(
                        rule,
                        format!("C22/{rule}/{}", normalise_shape(&shrunk)),
                        format!("{rule}: {}", &detail2.chars().take(220).collect::<String>()),
                        json!({"case": case, "seed": seed, "literal_index": i, "literal": l.text, "shrunk_literal": shrunk,
                               "replay": format!("lsp_tools format --seed {seed} --start {case} --count 1")}),
                    );
                }
            }
        }

        // (2) whole document: edits replace exactly the literals (alternating disk / open buffer)
        let via_open = case % 2 == 1;
        match format_doc(&mut project, &doc.text, via_open) {
            Err(e) => rep.harness_errors.push(format!("case {case}: {e}")),
            Ok(resp) => {
                if resp.get("panic").is_some() || resp.get("error").is_some() {
                    rep.finding("format-crash", "C22/format-crash/document".to_string(), resp.to_string().chars().take(240).collect(), json!({"case": case, "seed": seed, "document": doc.text}));
                } else {
                    match edits_from_response(&resp) {
                        Err(e) => {
                            // no edits at all: only judged when every literal is formattable (what the server does
                            // for the rest of a document that contains a broken literal is not part of the statement)
                            if accepted.iter().all(|a| *a) {
                                rep.finding("format-no-edit", "C22/format-no-edit/document".to_string(), e, json!({"case": case, "seed": seed, "document": doc.text}));
                            }
                        }
                        Ok(edits) => {
                            rep.count("edits_applied", edits.len() as u64);
                            if !doc.text.is_ascii() {
                                rep.count("documents_with_non_ascii", 1);
                            }
                            if let Err(why) = check_edit_ranges(&doc, &accepted, &edits) {
                                let shrinkable = !no_shrink && edit_range_fires(&mut project, &doc.text);
                                let shrunk = if shrinkable { shrink_text(&doc.text, |cand| edit_range_fires(&mut project, cand)) } else { doc.text.clone() };
                                let first_lit = shrunk.find("iso(`").map(|i| i + 5).unwrap_or(0);
                                let last_lit_end = shrunk.rfind('`').unwrap_or(shrunk.len());
                                let class = if !shrinkable {
                                    "unclassified"
                                } else if context_class(&shrunk, first_lit) == "non-ascii-before-on-line" {
                                    "non-ascii-before-literal-on-its-line"
                                } else if context_class(&shrunk, last_lit_end) == "non-ascii-before-on-line" {
                                    "non-ascii-on-last-line-of-literal"
                                } else {
                                    "ascii-only"
                                };
                                rep.finding(
                                    "edit-range",
                                    format!("C22/edit-range/{class}"),
                                    format!("edit-range: {why}; minimal document {:?}", shrunk.chars().take(120).collect::<String>()),
                                    json!({"case": case, "seed": seed, "document": doc.text, "shrunk_document": shrunk, "via_open_buffer": via_open,
                                           "edits": edits.iter().map(|e| json!({"start": [e.start.0, e.start.1], "end": [e.end.0, e.end.1]})).collect::<Vec<_>>(),
                                           "replay": format!("lsp_tools format --seed {seed} --start {case} --count 1")}),
                                );
                            }
                        }
                    }
                }
            }
        }
        if (rep.samples.len() as u64) < want_samples {
            rep.samples.push(json!({"case": case, "document": doc.text.chars().take(400).collect::<String>(), "literals": nlits, "accepted": accepted}));
        }
    }
    rep.to_json("format")
}
