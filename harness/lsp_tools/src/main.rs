//! lsp_tools: runtime monitors for the isograph language server (C21, C22, C23).
//!   lsp_tools session   --seed S --count N [--start I] --work DIR   (C21)
//!   lsp_tools format    --seed S --count N [--start I] --work DIR   (C22)
//!   lsp_tools positions --seed S --count N [--start I] --work DIR   (C23)
//! Each prints one JSON report line on stdout.
mod ast;
mod common;
mod drive;
mod format_check;
mod generate;
mod pos;
mod positions_check;
mod rng;
mod session;

fn main() {
    let argv: Vec<String> = std::env::args().skip(1).collect();
    if argv.is_empty() {
        eprintln!("usage: lsp_tools session|format|positions --seed S --count N [--start I] --work DIR");
        std::process::exit(64);
    }
    // the server code prints through eprintln!/panic hooks; keep stderr quiet unless asked
    if std::env::var_os("LSP_TOOLS_VERBOSE").is_none() {
        std::panic::set_hook(Box::new(|_| {}));
    }
    let args = common::Args::parse(&argv[1..]);
    let report = match argv[0].as_str() {
        "session" => session::run(&args),
        "format" => format_check::run(&args),
        "positions" => positions_check::run(&args),
        "noop" => serde_json::json!({"tool": "noop"}),
        "dump" => dump(&args),
        other => {
            eprintln!("unknown subcommand {other}");
            std::process::exit(64);
        }
    };
    println!("{report}");
}

/// Debug / replay aid: start a server in --dir, print all diagnostics and, when
/// given, the answers for --file at --line/--col.
fn dump(args: &common::Args) -> serde_json::Value {
    use prelude::ErrClone;
    let dir = std::path::PathBuf::from(args.str("dir", "."));
    let mut s = match drive::Server::start(&dir) {
        Ok(s) => s,
        Err(e) => return serde_json::json!({"error": e}),
    };
    let all: Vec<String> = isograph_schema::validate_entire_schema(&s.state.compiler_state.db)
        .clone_err()
        .err()
        .unwrap_or_default()
        .iter()
        .map(|d| format!("{:?} @ {:?}", d.0.message, d.0.location))
        .collect();
    let published = s.tick();
    let mut out = serde_json::json!({"diagnostics": all, "published": format!("{published:?}")});
    if let Some(f) = args.m.get("file") {
        let (l, c) = (args.u64("line", 0) as u32, args.u64("col", 0) as u32);
        out["hover"] = s.hover(f, l, c);
        out["definition"] = s.definition(f, l, c);
        out["tokens"] = s.semantic_tokens(f);
        out["formatting"] = s.formatting(f);
    }
    out
}
