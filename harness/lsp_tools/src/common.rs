//! Bits shared by the three subcommands: argument parsing, reports, a project
//! directory that is rewritten per case, parsing through the public parser.
use std::collections::BTreeMap;
use std::path::{Path, PathBuf};

use common_lang_types::{RelativePathToSourceFile, Span, TextSource};
use intern::string_key::Intern;
use isograph_lang_parser::{IsoLiteralExtractionResult, parse_iso_literal};
use serde_json::{Value, json};

use crate::drive::{Server, write_project};
use crate::pos;

pub struct Args {
    pub m: BTreeMap<String, String>,
}

impl Args {
    pub fn parse(argv: &[String]) -> Args {
        let mut m = BTreeMap::new();
        let mut i = 0;
        while i < argv.len() {
            if let Some(k) = argv[i].strip_prefix("--") {
                if i + 1 < argv.len() && !argv[i + 1].starts_with("--") {
                    m.insert(k.to_string(), argv[i + 1].clone());
                    i += 2;
                } else {
                    m.insert(k.to_string(), "1".to_string());
                    i += 1;
                }
            } else {
                i += 1;
            }
        }
        Args { m }
    }
    pub fn u64(&self, k: &str, d: u64) -> u64 {
        self.m.get(k).and_then(|s| s.parse().ok()).unwrap_or(d)
    }
    pub fn str(&self, k: &str, d: &str) -> String {
        self.m.get(k).cloned().unwrap_or_else(|| d.to_string())
    }
    pub fn flag(&self, k: &str) -> bool {
        self.m.contains_key(k)
    }
}

#[derive(Default)]
pub struct Report {
    pub cases: u64,
    pub nontrivial: u64,
    pub counters: BTreeMap<String, u64>,
    pub findings: Vec<Value>,
    pub samples: Vec<Value>,
    pub harness_errors: Vec<String>,
}

impl Report {
    pub fn count(&mut self, k: &str, n: u64) {
        *self.counters.entry(k.to_string()).or_insert(0) += n;
    }
    pub fn finding(&mut self, rule: &str, signature: String, what: String, witness: Value) {
        // keep the first witness per signature, count the rest
        self.count(&format!("finding:{signature}"), 1);
        if !self.findings.iter().any(|f| f["signature"] == signature) {
            self.findings.push(json!({"rule": rule, "signature": signature, "what": what, "witness": witness}));
        }
    }
    pub fn to_json(&self, tool: &str) -> Value {
        let occ: BTreeMap<String, u64> = self
            .counters
            .iter()
            .filter_map(|(k, v)| k.strip_prefix("finding:").map(|s| (s.to_string(), *v)))
            .collect();
        let counters: BTreeMap<&String, &u64> = self.counters.iter().filter(|(k, _)| !k.starts_with("finding:")).collect();
        json!({
            "tool": tool,
            "cases": self.cases,
            "nontrivial": self.nontrivial,
            "counters": counters,
            "findings": self.findings,
            "occurrences": occ,
            "samples": self.samples,
            "harness_errors": self.harness_errors,
        })
    }
}

pub const DOC_REL: &str = "src/Doc.tsx";
pub const DEFS_REL: &str = "src/Defs.tsx";

/// A project directory owned by this process; rewritten per case.
pub struct Project {
    pub root: PathBuf,
    /// what `reset` wrote last (the directory is only rewritten when it changes)
    last: std::cell::RefCell<Option<(String, Vec<(String, String)>)>>,
}

impl Project {
    pub fn new(work: &Path, tag: &str) -> Project {
        let root = work.join(format!("proj-{}-{}", tag, std::process::id()));
        let _ = std::fs::remove_dir_all(&root);
        std::fs::create_dir_all(&root).expect("create project dir");
        Project { root: root.canonicalize().expect("canonicalize"), last: std::cell::RefCell::new(None) }
    }
    pub fn reset(&self, schema: &str, files: &[(String, String)]) {
        let key = (schema.to_string(), files.to_vec());
        if self.last.borrow().as_ref() == Some(&key) {
            return;
        }
        let same_layout = self.last.borrow().as_ref().is_some_and(|(s, f)| {
            s == schema && f.len() == files.len() && f.iter().zip(files.iter()).all(|(a, b)| a.0 == b.0)
        });
        if same_layout {
            // only the files whose text changed
            let last = self.last.borrow();
            for (old, new) in last.as_ref().unwrap().1.iter().zip(files.iter()) {
                if old.1 != new.1 {
                    std::fs::write(self.root.join(&new.0), &new.1).expect("write file");
                }
            }
        } else {
            let _ = std::fs::remove_dir_all(self.root.join("src"));
            write_project(&self.root, schema, files).expect("write project");
        }
        *self.last.borrow_mut() = Some(key);
    }
    /// Server on `files`; when `open_doc` is given, that text is sent with didOpen
    /// for DOC_REL (the disk copy then holds `disk_stub`).
    pub fn server(&self) -> Result<Server, String> {
        Server::start(&self.root)
    }
}

impl Drop for Project {
    fn drop(&mut self) {
        let _ = std::fs::remove_dir_all(&self.root);
    }
}

pub fn rel_key(rel: &str) -> RelativePathToSourceFile {
    rel.intern().into()
}

/// The public parser on one literal, as the compiler would call it.
pub fn parse_literal(text: &str, rel: &str, export: Option<&str>, start: usize) -> Result<IsoLiteralExtractionResult, String> {
    let ts = TextSource {
        relative_path_to_source_file: rel_key(rel),
        span: Some(Span::new(start as u32, (start + text.len()) as u32)),
    };
    let r = std::panic::catch_unwind(|| parse_iso_literal(text.to_string(), rel_key(rel), export.map(|s| s.to_string()), ts));
    match r {
        Ok(Ok(x)) => Ok(x),
        Ok(Err(d)) => Err(d.0.message.clone()),
        Err(e) => Err(format!("PANIC {}", crate::drive::panic_message(e))),
    }
}

pub fn edits_from_response(v: &Value) -> Result<Vec<pos::Edit>, String> {
    let arr = v.get("result").and_then(|r| r.as_array()).ok_or_else(|| format!("no edit array in {v}"))?;
    let mut out = vec![];
    for e in arr {
        let g = |p: &str, q: &str| e["range"][p][q].as_u64().map(|x| x as u32).ok_or_else(|| format!("bad edit {e}"));
        out.push(pos::Edit {
            start: (g("start", "line")?, g("start", "character")?),
            end: (g("end", "line")?, g("end", "character")?),
            new_text: e["newText"].as_str().ok_or("no newText")?.to_string(),
        });
    }
    Ok(out)
}

/// Class of the text between the start of the line holding `byte` and `byte`
/// (plus whether earlier lines hold non-ASCII): used to keep signatures coarse.
pub fn context_class(text: &str, byte: usize) -> &'static str {
    let byte = byte.min(text.len());
    let mut b = byte;
    while !text.is_char_boundary(b) {
        b -= 1;
    }
    let line_start = text[..b].rfind('\n').map_or(0, |i| i + 1);
    if !text[line_start..b].is_ascii() {
        "non-ascii-before-on-line"
    } else if !text[..line_start].is_ascii() {
        "non-ascii-on-earlier-lines"
    } else {
        "ascii-only-before"
    }
}

/// Split into shrink units: strings, words, whitespace runs, single punctuation.
fn shrink_units(text: &str) -> Vec<String> {
    let cs: Vec<char> = text.chars().collect();
    let mut out = vec![];
    let mut i = 0;
    while i < cs.len() {
        let c = cs[i];
        let mut j = i + 1;
        if c == '"' {
            if cs[i..].starts_with(&['"', '"', '"']) {
                j = i + 3;
                while j < cs.len() && !cs[j..].starts_with(&['"', '"', '"']) {
                    j += 1;
                }
                j = (j + 3).min(cs.len());
            } else {
                while j < cs.len() && cs[j] != '"' && cs[j] != '\n' {
                    if cs[j] == '\\' {
                        j += 1;
                    }
                    j += 1;
                }
                j = (j + 1).min(cs.len());
            }
        } else if c.is_alphanumeric() || c == '_' {
            while j < cs.len() && (cs[j].is_alphanumeric() || cs[j] == '_') {
                j += 1;
            }
        } else if c.is_whitespace() {
            while j < cs.len() && cs[j].is_whitespace() {
                j += 1;
            }
        }
        out.push(cs[i..j].iter().collect());
        i = j;
    }
    out
}

/// Shrinking: sliding-window removal of token runs (every offset, so balanced
/// bracket groups can go), then of single characters.
pub fn shrink_text(text: &str, mut pred: impl FnMut(&str) -> bool) -> String {
    let mut budget = 6000usize;
    let mut units = shrink_units(text);
    loop {
        let before = units.len();
        let mut len = (units.len() / 2).max(1);
        loop {
            let mut i = 0;
            while i + len <= units.len() && budget > 0 {
                let cand: String = units[..i].iter().chain(units[i + len..].iter()).map(|s| s.as_str()).collect();
                budget -= 1;
                if !cand.is_empty() && pred(&cand) {
                    units.drain(i..i + len);
                } else {
                    i += 1;
                }
            }
            if len == 1 || budget == 0 {
                break;
            }
            len = if len > 16 { len * 3 / 4 } else { len - 1 };
        }
        if units.len() == before || budget == 0 {
            break;
        }
    }
    // whitespace runs -> one space (or one line break) where that keeps the failure
    for k in 0..units.len() {
        if units[k].chars().all(|c| c.is_whitespace()) && units[k] != " " && budget > 0 {
            for repl in [" ", "\n"] {
                if units[k] == repl {
                    break;
                }
                let cand: String = units[..k].iter().map(|s| s.as_str()).chain(std::iter::once(repl)).chain(units[k + 1..].iter().map(|s| s.as_str())).collect();
                budget -= 1;
                if pred(&cand) {
                    units[k] = repl.to_string();
                    break;
                }
            }
        }
    }
    // characters inside the remaining units
    let mut cur: Vec<char> = units.concat().chars().collect();
    let mut i = 0;
    while i < cur.len() && budget > 0 {
        let cand: String = cur[..i].iter().chain(cur[i + 1..].iter()).collect();
        budget -= 1;
        if !cand.is_empty() && pred(&cand) {
            cur.remove(i);
        } else {
            i += 1;
        }
    }
    cur.into_iter().collect()
}

/// identifiers -> x, integers -> 0, string contents dropped, non-ASCII -> <n>
pub fn normalise_shape(s: &str) -> String {
    let mut out = String::new();
    let cs: Vec<char> = s.chars().collect();
    let mut i = 0;
    let keywords = ["field", "pointer", "entrypoint", "to", "true", "false", "null", "iso", "export", "const"];
    while i < cs.len() {
        let c = cs[i];
        if c.is_ascii_alphabetic() || c == '_' {
            let mut j = i;
            while j < cs.len() && (cs[j].is_ascii_alphanumeric() || cs[j] == '_') {
                j += 1;
            }
            let w: String = cs[i..j].iter().collect();
            if keywords.contains(&w.as_str()) {
                out.push_str(&w);
            } else {
                out.push('x');
            }
            i = j;
        } else if c.is_ascii_digit() {
            while i < cs.len() && cs[i].is_ascii_digit() {
                i += 1;
            }
            out.push('0');
        } else if c == '\n' {
            out.push_str("\\n");
            i += 1;
        } else if c == '\r' {
            out.push_str("\\r");
            i += 1;
        } else if c == '\t' {
            out.push_str("\\t");
            i += 1;
        } else if !c.is_ascii() {
            out.push_str(&format!("<{}>", c.len_utf8()));
            i += 1;
        } else {
            out.push(c);
            i += 1;
        }
    }
    if out.len() > 120 {
        let mut k = 120;
        while !out.is_char_boundary(k) {
            k -= 1;
        }
        out.truncate(k);
        out.push_str("...");
    }
    out
}
