//! splitmix64; every case derives from (seed, index) only.
#[derive(Clone)]
pub struct Rng(pub u64);

impl Rng {
    pub fn new(seed: u64) -> Rng {
        Rng(seed ^ 0x9E37_79B9_7F4A_7C15)
    }
    pub fn derive(seed: u64, index: u64) -> Rng {
        let mut r = Rng(seed ^ index.wrapping_mul(0xD1B5_4A32_D192_ED03));
        r.next();
        r.next();
        r
    }
    pub fn next(&mut self) -> u64 {
        self.0 = self.0.wrapping_add(0x9E37_79B9_7F4A_7C15);
        let mut z = self.0;
        z = (z ^ (z >> 30)).wrapping_mul(0xBF58_476D_1CE4_E5B9);
        z = (z ^ (z >> 27)).wrapping_mul(0x94D0_49BB_1331_11EB);
        z ^ (z >> 31)
    }
    pub fn below(&mut self, n: usize) -> usize {
        if n == 0 { 0 } else { (self.next() % n as u64) as usize }
    }
    pub fn range(&mut self, lo: usize, hi_inclusive: usize) -> usize {
        lo + self.below(hi_inclusive - lo + 1)
    }
    pub fn chance(&mut self, num: usize, den: usize) -> bool {
        self.below(den) < num
    }
    pub fn pick<'a, T>(&mut self, xs: &'a [T]) -> &'a T {
        &xs[self.below(xs.len())]
    }
}
