//! Independent reference implementation of the LSP position convention
//! (zero-based line, zero-based UTF-16 code-unit column; line terminators are
//! "\n", "\r\n" and "\r") plus TextEdit application and semantic-token decoding.
//! Nothing here calls into /repo.

/// byte offset -> (line, utf-16 column). `byte` must be a char boundary.
pub fn byte_to_pos(text: &str, byte: usize) -> (u32, u32) {
    assert!(text.is_char_boundary(byte), "reference converter: not a char boundary");
    let b = text.as_bytes();
    let mut line = 0u32;
    let mut line_start = 0usize;
    let mut i = 0usize;
    while i < byte {
        match b[i] {
            b'\n' => {
                line += 1;
                line_start = i + 1;
            }
            b'\r' => {
                if i + 1 < b.len() && b[i + 1] == b'\n' {
                    if i + 1 < byte {
                        // the pair is one terminator
                        i += 1;
                        line += 1;
                        line_start = i + 1;
                    }
                    // else: `byte` sits between \r and \n: still on the old line
                } else {
                    line += 1;
                    line_start = i + 1;
                }
            }
            _ => {}
        }
        i += 1;
    }
    let col = text[line_start..byte].encode_utf16().count() as u32;
    (line, col)
}

/// Byte offsets at which each line starts.
pub fn line_starts(text: &str) -> Vec<usize> {
    let b = text.as_bytes();
    let mut v = vec![0usize];
    let mut i = 0;
    while i < b.len() {
        match b[i] {
            b'\n' => v.push(i + 1),
            b'\r' => {
                if i + 1 < b.len() && b[i + 1] == b'\n' {
                    i += 1;
                }
                v.push(i + 1);
            }
            _ => {}
        }
        i += 1;
    }
    v
}

#[derive(Debug, Clone, PartialEq, Eq)]
pub enum PosError {
    LineOutOfRange,
    /// column is past the end of the line's content (spec: clients clamp; we report it)
    ColumnPastLineEnd { clamped: usize },
    /// column lands inside a surrogate pair
    InsideSurrogatePair,
}

/// (line, utf-16 col) -> byte offset, strict.
pub fn pos_to_byte(text: &str, line: u32, col: u32) -> Result<usize, PosError> {
    let starts = line_starts(text);
    let line = line as usize;
    if line >= starts.len() {
        return Err(PosError::LineOutOfRange);
    }
    let start = starts[line];
    // content end = before the terminator
    let mut end = if line + 1 < starts.len() { starts[line + 1] } else { text.len() };
    let bytes = text.as_bytes();
    if line + 1 < starts.len() {
        if end >= 1 && bytes[end - 1] == b'\n' {
            end -= 1;
            if end >= 1 && end > start && bytes[end - 1] == b'\r' {
                end -= 1;
            }
        } else if end >= 1 && bytes[end - 1] == b'\r' {
            end -= 1;
        }
    }
    let mut units = 0u32;
    for (i, ch) in text[start..end].char_indices() {
        if units == col {
            return Ok(start + i);
        }
        let l = ch.len_utf16() as u32;
        if units + l > col {
            return Err(PosError::InsideSurrogatePair);
        }
        units += l;
    }
    if units == col {
        Ok(end)
    } else {
        Err(PosError::ColumnPastLineEnd { clamped: end })
    }
}

/// Lenient variant used when applying edits: clamps per the LSP specification.
pub fn pos_to_byte_clamped(text: &str, line: u32, col: u32) -> Option<usize> {
    match pos_to_byte(text, line, col) {
        Ok(b) => Some(b),
        Err(PosError::ColumnPastLineEnd { clamped }) => Some(clamped),
        Err(_) => None,
    }
}

/// Advance `units` UTF-16 code units from `start` through the flat text.
pub fn advance_utf16(text: &str, start: usize, units: u32) -> Option<usize> {
    let mut left = units;
    let mut at = start;
    for ch in text[start..].chars() {
        if left == 0 {
            break;
        }
        let l = ch.len_utf16() as u32;
        if l > left {
            return None;
        }
        left -= l;
        at += ch.len_utf8();
    }
    if left == 0 { Some(at) } else { None }
}

pub fn utf16_len(s: &str) -> u32 {
    s.encode_utf16().count() as u32
}

#[derive(Debug, Clone)]
pub struct Edit {
    pub start: (u32, u32),
    pub end: (u32, u32),
    pub new_text: String,
}

/// Apply edits per the LSP spec: all ranges refer to the original document,
/// must not overlap; applied back to front.
pub fn apply_edits(text: &str, edits: &[Edit]) -> Result<String, String> {
    let mut spans = vec![];
    for e in edits {
        let s = pos_to_byte_clamped(text, e.start.0, e.start.1)
            .ok_or_else(|| format!("edit start {:?} not addressable", e.start))?;
        let t = pos_to_byte_clamped(text, e.end.0, e.end.1)
            .ok_or_else(|| format!("edit end {:?} not addressable", e.end))?;
        if t < s {
            return Err(format!("edit range reversed {:?}..{:?}", e.start, e.end));
        }
        spans.push((s, t, &e.new_text));
    }
    spans.sort_by_key(|x| (x.0, x.1));
    for w in spans.windows(2) {
        if w[1].0 < w[0].1 {
            return Err("overlapping edits".to_string());
        }
    }
    let mut out = text.to_string();
    for (s, t, new_text) in spans.into_iter().rev() {
        out.replace_range(s..t, new_text);
    }
    Ok(out)
}

#[derive(Debug, Clone, PartialEq, Eq)]
pub struct AbsToken {
    pub line: u32,
    pub col: u32,
    pub len: u32,
    pub ty: u32,
    pub mods: u32,
}

/// Decode the relative semantic-token stream into absolute tokens.
pub fn decode_tokens(data: &[u32]) -> Result<Vec<AbsToken>, String> {
    if data.len() % 5 != 0 {
        return Err(format!("token data length {} not a multiple of 5", data.len()));
    }
    let mut out = vec![];
    let (mut line, mut col) = (0u32, 0u32);
    for c in data.chunks(5) {
        let (dl, ds, len, ty, mods) = (c[0], c[1], c[2], c[3], c[4]);
        if dl > 0 {
            line = line.checked_add(dl).ok_or("line overflow")?;
            col = ds;
        } else {
            col = col.checked_add(ds).ok_or("column overflow")?;
        }
        out.push(AbsToken { line, col, len, ty, mods });
    }
    Ok(out)
}

#[cfg(test)]
mod tests {
    use super::*;
    #[test]
    fn roundtrip() {
        let t = "a\u{e9}\u{1F600}b\r\nc\u{65e5}\n\nx";
        for (i, _) in t.char_indices().chain(std::iter::once((t.len(), ' '))) {
            if i == 9 {
                continue; // between \r and \n
            }
            let (l, c) = byte_to_pos(t, i);
            assert_eq!(pos_to_byte_clamped(t, l, c), Some(i), "{i} -> {l}:{c}");
        }
        assert_eq!(byte_to_pos(t, 8), (0, 5));
        assert_eq!(byte_to_pos(t, 10), (1, 0));
    }
}
