//! In-process driver around the real language-server pieces exported by
//! `isograph_lsp::verif` (hook H6) and `isograph_compiler::verif` (hook H5).
//! Messages go through the server's own JSON dispatchers, so parameter
//! extraction and response serialisation are the real ones.
use std::collections::{BTreeMap, BTreeSet};
use std::panic::{AssertUnwindSafe, catch_unwind};
use std::path::{Path, PathBuf};
use std::str::FromStr;
use std::sync::OnceLock;

use common_lang_types::CurrentWorkingDirectory;
use crossbeam::channel::{Receiver, Sender, unbounded};
use graphql_network_protocol::GraphQLAndJavascriptProfile;
use intern::string_key::Intern;
use isograph_compiler::{CompilerState, update_sources};
use isograph_config::create_config;
use isograph_lsp::verif as h6;
use lsp_types::Uri;
use serde_json::{Value, json};

pub type Profile = GraphQLAndJavascriptProfile;

fn channel() -> &'static (Sender<lsp_server::Message>, Receiver<lsp_server::Message>) {
    static CH: OnceLock<(Sender<lsp_server::Message>, Receiver<lsp_server::Message>)> = OnceLock::new();
    CH.get_or_init(unbounded)
}

pub fn panic_message(e: Box<dyn std::any::Any + Send>) -> String {
    if let Some(s) = e.downcast_ref::<&str>() {
        s.to_string()
    } else if let Some(s) = e.downcast_ref::<String>() {
        s.clone()
    } else {
        "non-string panic".to_string()
    }
}

pub struct Server {
    pub state: h6::LspState<'static, Profile>,
    pub root: PathBuf,
    uris_with_diagnostics: BTreeSet<Uri>,
    /// what an editor would currently display: uri (root-relative) -> sorted diagnostics
    pub client_view: BTreeMap<String, Vec<Value>>,
    pub ticks: usize,
    next_id: i32,
}

pub fn file_uri(path: &Path) -> String {
    format!("file://{}", path.to_str().expect("utf8 path"))
}

impl Server {
    /// Like `isograph_cli lsp` started in `root` (config at root/isograph.config.json).
    pub fn start(root: &Path) -> Result<Server, String> {
        let root = root.canonicalize().map_err(|e| e.to_string())?;
        let r = catch_unwind(AssertUnwindSafe(|| {
            let cwd: CurrentWorkingDirectory = root.to_str().unwrap().intern().into();
            let config = create_config(&root.join("isograph.config.json"), cwd);
            CompilerState::<Profile>::new(config, cwd)
        }));
        match r {
            Err(e) => Err(format!("panic at start: {}", panic_message(e))),
            Ok(Err(d)) => Err(format!("start failed: {d}")),
            Ok(Ok(compiler_state)) => Ok(Server {
                state: h6::LspState::new(compiler_state, &channel().0),
                root,
                uris_with_diagnostics: BTreeSet::new(),
                client_view: BTreeMap::new(),
                ticks: 0,
                next_id: 1,
            }),
        }
    }

    pub fn uri(&self, rel: &str) -> String {
        file_uri(&self.root.join(rel))
    }

    pub fn rel_of_uri(&self, uri: &str) -> String {
        let prefix = file_uri(&self.root);
        uri.strip_prefix(&prefix).map(|s| s.trim_start_matches('/').to_string()).unwrap_or_else(|| uri.to_string())
    }

    /// Replace the absolute root in any string of the value, so that answers of
    /// servers running in different directories are comparable.
    pub fn normalise(&self, v: &Value) -> Value {
        let root = self.root.to_str().unwrap();
        match v {
            Value::String(s) => Value::String(s.replace(root, "<ROOT>")),
            Value::Array(a) => Value::Array(a.iter().map(|x| self.normalise(x)).collect()),
            Value::Object(o) => Value::Object(o.iter().map(|(k, x)| (k.clone(), self.normalise(x))).collect()),
            _ => v.clone(),
        }
    }

    pub fn notify(&mut self, method: &str, params: Value) -> Result<(), String> {
        let n = lsp_server::Notification { method: method.to_string(), params };
        catch_unwind(AssertUnwindSafe(|| {
            let _ = h6::dispatch_notification(n, &mut self.state);
        }))
        .map_err(|e| format!("panic in {method}: {}", panic_message(e)))
    }

    pub fn did_open(&mut self, rel: &str, text: &str) -> Result<(), String> {
        let uri = self.uri(rel);
        self.notify(
            "textDocument/didOpen",
            json!({"textDocument": {"uri": uri, "languageId": "typescriptreact", "version": 1, "text": text}}),
        )
    }

    pub fn did_change(&mut self, rel: &str, text: &str, version: i32) -> Result<(), String> {
        let uri = self.uri(rel);
        self.notify(
            "textDocument/didChange",
            json!({"textDocument": {"uri": uri, "version": version}, "contentChanges": [{"text": text}]}),
        )
    }

    pub fn did_close(&mut self, rel: &str) -> Result<(), String> {
        let uri = self.uri(rel);
        self.notify("textDocument/didClose", json!({"textDocument": {"uri": uri}}))
    }

    /// One request through the server's dispatcher. A panic is an answer too
    /// (the real server process would die): {"panic": msg}.
    pub fn request(&mut self, method: &str, params: Value) -> Value {
        let id = self.next_id;
        self.next_id += 1;
        let req = lsp_server::Request { id: id.into(), method: method.to_string(), params };
        match catch_unwind(AssertUnwindSafe(|| h6::dispatch_request(req, &self.state))) {
            Ok(resp) => {
                if let Some(e) = resp.error {
                    json!({"error": {"code": e.code, "message": e.message}})
                } else {
                    json!({"result": resp.result.unwrap_or(Value::Null)})
                }
            }
            Err(e) => json!({"panic": panic_message(e)}),
        }
    }

    pub fn semantic_tokens(&mut self, rel: &str) -> Value {
        let uri = self.uri(rel);
        self.request("textDocument/semanticTokens/full", json!({"textDocument": {"uri": uri}}))
    }

    pub fn formatting(&mut self, rel: &str) -> Value {
        let uri = self.uri(rel);
        self.request(
            "textDocument/formatting",
            json!({"textDocument": {"uri": uri}, "options": {"tabSize": 2, "insertSpaces": true}}),
        )
    }

    pub fn hover(&mut self, rel: &str, line: u32, character: u32) -> Value {
        let uri = self.uri(rel);
        self.request(
            "textDocument/hover",
            json!({"textDocument": {"uri": uri}, "position": {"line": line, "character": character}}),
        )
    }

    pub fn definition(&mut self, rel: &str, line: u32, character: u32) -> Value {
        let uri = self.uri(rel);
        self.request(
            "textDocument/definition",
            json!({"textDocument": {"uri": uri}, "position": {"line": line, "character": character}}),
        )
    }

    /// The debounce tick: validate + publish; returns what was published this time
    /// and folds it into `client_view`.
    pub fn tick(&mut self) -> Result<Vec<(String, Vec<Value>)>, String> {
        let (_, rx) = channel();
        while rx.try_recv().is_ok() {}
        let old = std::mem::take(&mut self.uris_with_diagnostics);
        let r = catch_unwind(AssertUnwindSafe(|| h6::debounce_tick(&self.state, old)));
        let new = r.map_err(|e| format!("panic in diagnostics tick: {}", panic_message(e)))?;
        self.uris_with_diagnostics = new;
        self.ticks += 1;
        let mut published = vec![];
        while let Ok(m) = rx.try_recv() {
            if let lsp_server::Message::Notification(n) = m {
                if n.method == "textDocument/publishDiagnostics" {
                    let uri = n.params["uri"].as_str().unwrap_or("").to_string();
                    let rel = self.rel_of_uri(&uri);
                    let mut ds: Vec<Value> = n.params["diagnostics"].as_array().cloned().unwrap_or_default();
                    ds = ds.iter().map(|d| self.normalise(d)).collect();
                    ds.sort_by_key(|d| d.to_string());
                    if ds.is_empty() {
                        self.client_view.remove(&rel);
                    } else {
                        self.client_view.insert(rel.clone(), ds.clone());
                    }
                    published.push((rel, ds));
                }
            }
        }
        Ok(published)
    }

    /// What `server::run` does when the watcher delivers events: categorise (the
    /// real filter, hook H5) and `update_sources`. `events`: (kind, absolute path).
    pub fn disk_events(&mut self, events: &[(DiskEventKind, PathBuf)]) -> Result<usize, String> {
        use notify::event::{CreateKind, DataChange, ModifyKind, RemoveKind};
        use notify::{Event, EventKind};
        let debounced: Vec<notify_debouncer_full::DebouncedEvent> = events
            .iter()
            .map(|(k, p)| {
                let kind = match k {
                    DiskEventKind::Create => EventKind::Create(CreateKind::File),
                    DiskEventKind::Modify => EventKind::Modify(ModifyKind::Data(DataChange::Any)),
                    DiskEventKind::Remove => EventKind::Remove(RemoveKind::File),
                };
                notify_debouncer_full::DebouncedEvent::new(Event::new(kind).add_path(p.clone()), std::time::Instant::now())
            })
            .collect();
        let r = catch_unwind(AssertUnwindSafe(|| {
            let config = self.state.compiler_state.db.get_isograph_config().clone();
            match isograph_compiler::verif::categorize_and_filter_events(&debounced, &config) {
                None => Ok(0usize),
                Some(changes) => {
                    let n = changes.len();
                    update_sources(&mut self.state.compiler_state.db, &changes)
                        .map(|_| n)
                        .map_err(|e| format!("update_sources error: {}", e.iter().map(|d| d.to_string()).collect::<Vec<_>>().join("; ")))
                }
            }
        }));
        match r {
            Ok(x) => x,
            Err(e) => Err(format!("panic in update_sources: {}", panic_message(e))),
        }
    }

    pub fn gc(&mut self) -> Result<(), String> {
        use pico::Database;
        catch_unwind(AssertUnwindSafe(|| self.state.compiler_state.db.run_garbage_collection()))
            .map_err(|e| format!("panic in gc: {}", panic_message(e)))
    }
}

#[derive(Debug, Clone, Copy, PartialEq, Eq)]
pub enum DiskEventKind {
    Create,
    Modify,
    Remove,
}

pub fn uri_from_str(s: &str) -> Uri {
    Uri::from_str(s).expect("valid uri")
}

/// Write the standard project skeleton.
pub fn write_project(root: &Path, schema: &str, files: &[(String, String)]) -> std::io::Result<()> {
    std::fs::create_dir_all(root.join("src"))?;
    std::fs::write(
        root.join("isograph.config.json"),
        "{\n  \"project_root\": \"./src\",\n  \"schema\": \"./schema.graphql\",\n  \"options\": {\"on_invalid_id_type\": \"error\"}\n}\n",
    )?;
    std::fs::write(root.join("schema.graphql"), schema)?;
    for (rel, text) in files {
        let p = root.join(rel);
        if let Some(d) = p.parent() {
            std::fs::create_dir_all(d)?;
        }
        std::fs::write(p, text)?;
    }
    Ok(())
}
