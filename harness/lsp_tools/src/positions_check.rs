//! C23: every position / range the server sends designates, under the UTF-16
//! convention, exactly the text it describes; semantic tokens decode to
//! increasing non-overlapping ranges that each cover one source token.
use isograph_lang_parser::IsographLangTokenKind;
use isograph_schema::validate_entire_schema;
use logos::Logos;
use serde_json::{Value, json};

use crate::common::*;
use crate::drive::Server;
use crate::generate::{self, Doc, DocOpts, Lit, ProbeKind, Style, ValidCtx};
use crate::pos;
use crate::rng::Rng;

pub const CLIENT_FIELDS: &[(&str, &str)] = &[("User", "AvatarA"), ("Pet", "CardA"), ("User", "BadgeA")];

/// The file that defines the client fields other literals select.
pub fn defs_file(rng: &mut Rng, non_ascii: bool, crlf: bool) -> Doc {
    let ctx = ValidCtx { client_fields: &[], max_depth: 1 };
    let mut lits = vec![];
    for (p, n) in CLIENT_FIELDS.iter().chain(std::iter::once(&("Query", "HomeA"))) {
        let style = if rng.chance(1, 2) { Style::Messy } else { Style::Tidy };
        let mut l = generate::gen_valid_field(rng, style, crlf, p, n, &ctx);
        l.probes.clear();
        lits.push(l);
    }
    generate::assemble(rng, &lits, &DocOpts { non_ascii, crlf })
}

struct ExpectedToken {
    start: usize,
    end: usize,
    ty: u32,
}

fn rng_pos(v: &Value, a: &str) -> Option<(u32, u32)> {
    Some((v[a]["line"].as_u64()? as u32, v[a]["character"].as_u64()? as u32))
}

/// range -> byte span in `text` (strict addressing)
fn range_bytes(text: &str, range: &Value) -> Result<(usize, usize), String> {
    let (sl, sc) = rng_pos(range, "start").ok_or("malformed range")?;
    let (el, ec) = rng_pos(range, "end").ok_or("malformed range")?;
    let s = pos::pos_to_byte(text, sl, sc).map_err(|e| format!("start {sl}:{sc} {e:?}"))?;
    let e = pos::pos_to_byte(text, el, ec).map_err(|e| format!("end {el}:{ec} {e:?}"))?;
    Ok((s, e))
}

pub struct Case {
    pub schema: String,
    pub doc: Doc,
    pub defs: Doc,
    pub accepted: Vec<bool>,
    pub via_open: bool,
}

fn violation(rep: &mut Report, rule: &str, class: &str, what: String, case_no: u64, seed: u64, c: &Case, extra: Value) {
    rep.finding(
        rule,
        format!("C23/{rule}/{class}"),
        what,
        json!({"case": case_no, "seed": seed, "document": c.doc.text, "defs_document": c.defs.text, "via_open_buffer": c.via_open, "detail": extra,
               "replay": format!("lsp_tools positions --seed {seed} --start {case_no} --count 1")}),
    );
}

fn check_tokens(rep: &mut Report, s: &mut Server, c: &Case, case_no: u64, seed: u64) {
    let text = &c.doc.text;
    // expected: from the public parser; cross-checked against an independent lexing
    let mut expected: Vec<ExpectedToken> = vec![];
    for (i, l) in c.doc.lits.iter().enumerate() {
        if !c.accepted[i] {
            continue;
        }
        let export = export_name_before(text, l.start);
        let parsed = match parse_literal(&l.text, DOC_REL, export.as_deref(), l.start) {
            Ok(p) => p,
            Err(_) => continue,
        };
        let lexemes: Vec<(usize, usize)> = IsographLangTokenKind::lexer(&l.text).spanned().filter(|(k, _)| *k != IsographLangTokenKind::Error).map(|(_, sp)| (sp.start, sp.end)).collect();
        let mut li = 0usize;
        for t in parsed.semantic_tokens() {
            let (a, b) = (t.location.span.start as usize, t.location.span.end as usize);
            // each semantic token must be exactly one lexeme, in order
            while li < lexemes.len() && lexemes[li].0 < a {
                li += 1;
            }
            if li >= lexemes.len() || lexemes[li] != (a, b) {
                violation(rep, "semantic-token-not-a-lexeme", "parser", format!("semantic token {a}..{b} of literal {i} is not one source token"), case_no, seed, c, json!({"literal": l.text}));
            }
            expected.push(ExpectedToken { start: l.start + a, end: l.start + b, ty: t.item.lsp_semantic_token.0 });
        }
    }
    let resp = s.semantic_tokens(DOC_REL);
    if resp.get("panic").is_some() || resp.get("error").is_some() {
        violation(rep, "semantic-tokens-crash", "request", resp.to_string().chars().take(200).collect(), case_no, seed, c, Value::Null);
        return;
    }
    let data: Vec<u32> = match resp["result"]["data"].as_array() {
        Some(a) => a.iter().map(|x| x.as_u64().unwrap_or(u64::MAX) as u32).collect(),
        None => {
            if !expected.is_empty() {
                violation(rep, "semantic-tokens-missing", "request", format!("no token data: {resp}"), case_no, seed, c, Value::Null);
            }
            return;
        }
    };
    let toks = match pos::decode_tokens(&data) {
        Ok(t) => t,
        Err(e) => {
            violation(rep, "semantic-token-stream", "malformed", e, case_no, seed, c, Value::Null);
            return;
        }
    };
    rep.count("semantic_tokens_decoded", toks.len() as u64);
    // absolute pieces -> byte ranges
    let mut pieces: Vec<(usize, usize, u32)> = vec![];
    let mut prev: Option<(u32, u32, u32)> = None;
    for (k, t) in toks.iter().enumerate() {
        if let Some((pl, pc, plen)) = prev {
            let backwards = t.line < pl || (t.line == pl && t.col < pc);
            let overlap = t.line == pl && t.col < pc + plen;
            if backwards || overlap {
                let near = pieces.last().map(|p| p.0).unwrap_or(0);
                violation(rep, "semantic-token-order", context_class(text, near), format!("token {k} at {}:{} len {} follows {}:{} len {}", t.line, t.col, t.len, pl, pc, plen), case_no, seed, c, Value::Null);
                return;
            }
        }
        prev = Some((t.line, t.col, t.len));
        let sb = match pos::pos_to_byte(text, t.line, t.col) {
            Ok(b) => b,
            Err(e) => {
                let want = expected_piece_start(&expected, pieces.len(), text);
                violation(rep, "semantic-token-range", context_class(text, want), format!("token {k} at {}:{} is not addressable in the document ({e:?})", t.line, t.col), case_no, seed, c, Value::Null);
                return;
            }
        };
        let eb = match pos::advance_utf16(text, sb, t.len) {
            Some(b) => b,
            None => {
                violation(rep, "semantic-token-range", context_class(text, sb), format!("token {k} at {}:{} length {} runs past the document / splits a character", t.line, t.col, t.len), case_no, seed, c, Value::Null);
                return;
            }
        };
        pieces.push((sb, eb, t.ty));
    }
    // cover check
    let mut pi = 0usize;
    for (n, e) in expected.iter().enumerate() {
        let mut covered = e.start;
        let mut got_any = false;
        while pi < pieces.len() && pieces[pi].0 < e.end {
            let (ps, pe, pty) = pieces[pi];
            let ok_inside = ps >= e.start && pe <= e.end;
            // a piece may carry its line terminator but no further line content
            let body = text[ps..pe.min(text.len())].trim_end_matches(['\r', '\n']);
            let single_line = !body.contains('\n');
            let gap_ok = text[covered..ps.max(covered).min(e.end)].chars().all(|ch| ch == '\r' || ch == '\n') && ps >= covered;
            if !(ok_inside && single_line && gap_ok && pty == e.ty) {
                let what = format!(
                    "expected token #{n} bytes {}..{} {:?} type {}, server range decodes to bytes {}..{} {:?} type {}",
                    e.start, e.end, &text[e.start..e.end], e.ty, ps, pe, text.get(ps..pe).unwrap_or("<not a slice>"), pty
                );
                violation(rep, "semantic-token-range", token_class(text, e.start, e.end), what, case_no, seed, c, Value::Null);
                return;
            }
            covered = pe;
            got_any = true;
            pi += 1;
        }
        let rest_ok = text[covered.min(e.end)..e.end].chars().all(|ch| ch == '\r' || ch == '\n');
        if !got_any || !rest_ok {
            let what = format!("expected token #{n} bytes {}..{} {:?} is not (fully) covered by the server's tokens", e.start, e.end, &text[e.start..e.end]);
            violation(rep, "semantic-token-range", context_class(text, e.start), what, case_no, seed, c, Value::Null);
            return;
        }
    }
    if pi != pieces.len() {
        let (ps, pe, _) = pieces[pi];
        violation(rep, "semantic-token-range", context_class(text, ps), format!("server token at bytes {ps}..{pe} corresponds to no source token"), case_no, seed, c, Value::Null);
        return;
    }
    rep.count("semantic_tokens_matched", expected.len() as u64);
    if expected.iter().any(|e| text[e.start..e.end].contains('\n')) {
        rep.count("multi_line_tokens_seen", 1);
    }
}

fn token_class(text: &str, start: usize, end: usize) -> &'static str {
    let c = context_class(text, start);
    if c == "ascii-only-before" && !text[start..end].is_ascii() { "non-ascii-inside-token" } else { c }
}

fn expected_piece_start(expected: &[ExpectedToken], idx: usize, _text: &str) -> usize {
    expected.get(idx).or(expected.last()).map(|e| e.start).unwrap_or(0)
}

pub fn export_name_before(text: &str, lit_start: usize) -> Option<String> {
    // text[..lit_start] ends with "iso(`"
    let before = &text[..lit_start.saturating_sub(5)];
    let line_start = before.rfind('\n').map_or(0, |i| i + 1);
    let line = &before[line_start..];
    let i = line.rfind("export const ")?;
    line[i + 13..].strip_suffix(" = ").map(|s| s.to_string())
}

fn check_diagnostics(rep: &mut Report, s: &mut Server, c: &Case, case_no: u64, seed: u64) {
    use prelude::ErrClone;
    // byte spans: from the compiler's own diagnostics (public query)
    let diags = {
        let db = &s.state.compiler_state.db;
        match std::panic::catch_unwind(std::panic::AssertUnwindSafe(|| validate_entire_schema(db).clone_err().err().unwrap_or_default())) {
            Ok(d) => d,
            Err(_) => {
                rep.count("validate_panics", 1);
                return;
            }
        }
    };
    let mut expected: Vec<(String, usize, usize, String)> = vec![];
    for d in &diags {
        let Some(loc) = d.location().and_then(|l| l.as_embedded_location()) else { continue };
        let rel = loc.text_source.relative_path_to_source_file.to_string();
        let text = if rel == DOC_REL {
            &c.doc.text
        } else if rel == DEFS_REL {
            &c.defs.text
        } else {
            continue;
        };
        let base = loc.text_source.span.map(|x| x.start).unwrap_or(0) as usize;
        let (a, b) = (base + loc.span.start as usize, base + loc.span.end as usize);
        if b > text.len() || !text.is_char_boundary(a) || !text.is_char_boundary(b) {
            rep.count("diagnostic_spans_unsliceable", 1);
            continue;
        }
        expected.push((rel, a, b, d.0.message.clone()));
    }
    let published = match s.tick() {
        Ok(p) => p,
        Err(e) => {
            violation(rep, "diagnostics-crash", "tick", e, case_no, seed, c, Value::Null);
            return;
        }
    };
    let mut seen = 0usize;
    for (rel, ds) in &published {
        let text = if rel == DOC_REL {
            &c.doc.text
        } else if rel == DEFS_REL {
            &c.defs.text
        } else {
            continue;
        };
        for d in ds {
            seen += 1;
            let msg = d["message"].as_str().unwrap_or("");
            let got = range_bytes(text, &d["range"]);
            // the expected entries with this message in this file
            let cands: Vec<&(String, usize, usize, String)> = expected.iter().filter(|(r, _, _, m)| r == rel && msg.starts_with(m.as_str())).collect();
            let matched = match &got {
                Ok((gs, ge)) => cands.iter().any(|(_, a, b, _)| a == gs && b == ge),
                Err(_) => false,
            };
            if !matched {
                let line = d["range"]["start"]["line"].as_u64().unwrap_or(0) as u32;
                let near = cands.iter().find(|x| pos::byte_to_pos(text, x.1).0 == line).or(cands.first()).map(|x| x.2).unwrap_or(0);
                let what = format!(
                    "diagnostic {:?} in {rel}: range {} decodes to {:?}, but its byte span is {:?}",
                    msg.chars().take(60).collect::<String>(),
                    d["range"],
                    got.as_ref().map(|(a, b)| (a, b, text.get(*a..*b).unwrap_or("?"))),
                    cands.iter().map(|(_, a, b, _)| (a, b, &text[*a..*b])).collect::<Vec<_>>()
                );
                violation(rep, "diagnostic-range", context_class(text, near), what, case_no, seed, c, Value::Null);
                return;
            }
        }
    }
    rep.count("diagnostic_ranges_checked", seen as u64);
}

fn check_format_ranges(rep: &mut Report, s: &mut Server, c: &Case, case_no: u64, seed: u64) {
    let resp = s.formatting(DOC_REL);
    let Ok(edits) = edits_from_response(&resp) else { return };
    let text = &c.doc.text;
    let acc: Vec<&generate::PlacedLit> = c.doc.lits.iter().enumerate().filter(|(i, _)| c.accepted[*i]).map(|(_, l)| l).collect();
    if acc.len() != edits.len() {
        return; // C22's business
    }
    for (l, e) in acc.iter().zip(edits.iter()) {
        let want = (pos::byte_to_pos(text, l.start), pos::byte_to_pos(text, l.start + l.text.len()));
        if (e.start, e.end) != want {
            let what = format!("formatting edit range {:?}..{:?} but the literal (bytes {}..{}) is at {:?}..{:?}", e.start, e.end, l.start, l.start + l.text.len(), want.0, want.1);
            let cls = if e.start != want.0 { context_class(text, l.start) } else { context_class(text, l.start + l.text.len()) };
            violation(rep, "format-range", cls, what, case_no, seed, c, Value::Null);
            return;
        }
    }
    rep.count("format_ranges_checked", edits.len() as u64);
}

fn check_probes(rep: &mut Report, s: &mut Server, c: &Case, case_no: u64, seed: u64, rng: &mut Rng) {
    let text = &c.doc.text;
    for (i, l) in c.doc.lits.iter().enumerate() {
        if !c.accepted[i] {
            continue;
        }
        for p in &l.probes {
            // cursor positions whose right-hand character belongs to the token
            // Only unambiguous ones: strictly inside the token, or at its first character
            // when white space precedes it (which node owns a boundary shared by two
            // adjacent tokens is C32's question, not a position-conversion one).
            let mut offs = vec![];
            if text[..p.off].ends_with([' ', '\n', '\t']) {
                offs.push(p.off);
            }
            if p.len >= 2 {
                offs.push(p.off + p.len - 1);
            }
            if p.len > 2 {
                offs.push(p.off + 1 + rng.below(p.len - 2));
            }
            offs.dedup();
            for b in offs {
                let (line, col) = pos::byte_to_pos(text, b);
                // ---- hover
                let h = s.hover(DOC_REL, line, col);
                let want = match &p.kind {
                    ProbeKind::ServerField { parent, field } => format!("**{parent}.{field}**"),
                    ProbeKind::ClientField { parent, field } => format!("**{parent}.{field}**"),
                    ProbeKind::Entity { ty } => format!("Object **{ty}**"),
                    // no hover text is defined for a declaration's own name
                    ProbeKind::DeclName { .. } => String::new(),
                };
                let got = h["result"]["contents"]["value"].as_str().unwrap_or("");
                rep.count("hovers", 1);
                if !got.contains(&want) || h.get("panic").is_some() {
                    let what = format!(
                        "hover at {line}:{col} (byte {b}, inside token {:?}) should describe {want} but answered {:?}",
                        &text[p.off..p.off + p.len],
                        if h.get("panic").is_some() { h.to_string() } else { got.chars().take(80).collect::<String>() }
                    );
                    let rule = if h.get("panic").is_some() { "hover-crash" } else { "hover-position" };
                    violation(rep, rule, &format!("{}{}", context_class(text, b), first_line_tag(l, b)), what, case_no, seed, c, json!({"position": [line, col]}));
                    return;
                }
                // ---- definition
                let d = s.definition(DOC_REL, line, col);
                rep.count("definitions", 1);
                let (target_rel, target_text, want_text): (&str, &str, String) = match &p.kind {
                    ProbeKind::ServerField { field, .. } => ("schema.graphql", &c.schema, field.clone()),
                    ProbeKind::ClientField { field, .. } => (DEFS_REL, &c.defs.text, field.clone()),
                    ProbeKind::Entity { ty } => ("schema.graphql", &c.schema, ty.clone()),
                    ProbeKind::DeclName { field, .. } => {
                        if field == "HomeA" { (DEFS_REL, &c.defs.text, field.clone()) } else { (DOC_REL, &c.doc.text, field.clone()) }
                    }
                };
                let uri = d["result"]["uri"].as_str().unwrap_or("");
                if d.get("panic").is_some() || !uri.ends_with(target_rel) {
                    let what = format!("definition at {line}:{col} (token {:?}) should go to {target_rel} but answered {}", &text[p.off..p.off + p.len], d.to_string().chars().take(160).collect::<String>());
                    let rule = if d.get("panic").is_some() { "definition-crash" } else { "definition-position" };
                    violation(rep, rule, &format!("{}{}", context_class(text, b), first_line_tag(l, b)), what, case_no, seed, c, json!({"position": [line, col]}));
                    return;
                }
                let sliced = range_bytes(target_text, &d["result"]["range"]).map(|(a, b)| target_text.get(a..b).unwrap_or("<not a slice>").to_string());
                let ok = match (&sliced, &p.kind) {
                    (Ok(t), ProbeKind::Entity { .. }) => t == &want_text || entity_slice_ok(t, &want_text),
                    (Ok(t), _) => t == &want_text,
                    _ => false,
                };
                if !ok {
                    // where is the name really?
                    let at = find_definition_name(target_text, &want_text, &p.kind);
                    let what = format!("definition range {} in {target_rel} designates {:?}, not the definition of {want_text:?}", d["result"]["range"], sliced);
                    violation(rep, "definition-range", context_class(target_text, at), what, case_no, seed, c, json!({"position": [line, col], "target": target_rel}));
                    return;
                }
            }
        }
    }
}

/// hover / definition positions on the literal's first line go through a different branch of the server
fn first_line_tag(l: &generate::PlacedLit, b: usize) -> &'static str {
    if l.text[..b - l.start].contains('\n') { "" } else { "/first-line-of-literal" }
}

fn entity_slice_ok(slice: &str, ty: &str) -> bool {
    // the entity location may cover the whole definition; it must then start at it
    let t = slice.trim_start();
    t.starts_with(&format!("type {ty}")) || t.starts_with(ty) || (t.starts_with('"') && t.contains(&format!("type {ty}")))
}

fn find_definition_name(text: &str, name: &str, kind: &ProbeKind) -> usize {
    match kind {
        ProbeKind::ServerField { parent, .. } => {
            let t = text.find(&format!("type {parent} ")).unwrap_or(0);
            text[t..].find(&format!("{name}:")).or_else(|| text[t..].find(&format!("{name}("))).map(|i| t + i).unwrap_or(t)
        }
        ProbeKind::ClientField { parent, .. } | ProbeKind::DeclName { parent, .. } => text.find(&format!("{parent}.{name}")).or_else(|| text.find(name)).unwrap_or(0),
        ProbeKind::Entity { ty } => text.find(&format!("type {ty} ")).unwrap_or(0),
    }
}

pub fn build_case(rng: &mut Rng, case_no: u64) -> Case {
    let crlf = rng.chance(1, 4);
    let non_ascii = rng.chance(4, 5);
    let schema = generate::schema_text((if non_ascii && rng.chance(2, 3) { 1 } else { 0 }) | (if crlf { 2 } else { 0 }));
    let defs = defs_file(rng, non_ascii, crlf);
    let ctx = ValidCtx { client_fields: CLIENT_FIELDS, max_depth: 2 };
    let nlits = rng.range(1, 4);
    let mut lits: Vec<Lit> = vec![];
    for k in 0..nlits {
        let style = if rng.chance(1, 2) { Style::Messy } else { Style::Tidy };
        let roll = rng.below(10);
        let l = if roll < 6 {
            let parent = *rng.pick(&["Query", "User", "Pet"]);
            generate::gen_valid_field(rng, style, crlf, parent, &format!("Comp{k}"), &ctx)
        } else if roll == 6 {
            generate::gen_entrypoint(rng, style, "Query", "HomeA")
        } else if roll == 7 {
            let mut l = generate::gen_grammar_literal(rng, style, crlf);
            if let Some(n) = &mut l.export_name {
                *n = format!("Gram{k}");
            }
            l
        } else if roll == 8 {
            // broken literal: produces a parse diagnostic somewhere inside
            let parent = *rng.pick(&["Query", "User", "Pet"]);
            let mut l = generate::gen_valid_field(rng, style, crlf, parent, &format!("Broken{k}"), &ctx);
            let mut cut = l.text.char_indices().map(|(i, _)| i).nth(rng.below(l.text.chars().count().max(1))).unwrap_or(0);
            if cut > 0 && l.text.as_bytes()[cut - 1] == b'\r' {
                cut -= 1; // never split a CRLF pair: a lone CR is not part of this workload
            }
            l.text.insert_str(cut, if rng.chance(1, 2) { " \"\u{e9}\u{1F600}\" ) " } else { " } " });
            l.probes.clear();
            l
        } else {
            // semantically wrong: unknown field after a non-ASCII string argument on the same line
            let mut l = generate::gen_valid_field(rng, Style::Tidy, crlf, "Query", &format!("Wrong{k}"), &ctx);
            if let Some(i) = l.text.rfind('}') {
                l.text.insert_str(i, "  motd(lang: \"\u{e9}\u{65e5}\u{672c}\"), nonexistent\n");
            }
            l
        };
        lits.push(l);
    }
    let doc = generate::assemble(rng, &lits, &DocOpts { non_ascii, crlf });
    let accepted = doc.lits.iter().map(|l| parse_literal(&l.text, DOC_REL, export_name_before(&doc.text, l.start).as_deref(), l.start).is_ok()).collect();
    Case { schema, doc, defs, accepted, via_open: case_no % 2 == 1 }
}

pub fn run(args: &Args) -> Value {
    let seed = args.u64("seed", 1);
    let count = args.u64("count", 100);
    let start = args.u64("start", 0);
    let work = std::path::PathBuf::from(args.str("work", "/var/tmp/vf-scratch/lsp"));
    let want_samples = args.u64("samples", 0);
    let project = Project::new(&work, "pos");
    let mut rep = Report::default();

    for case_no in start..start + count {
        let mut rng = Rng::derive(seed, case_no);
        let c = build_case(&mut rng, case_no);
        rep.cases += 1;
        let disk_doc = if c.via_open { "// stub\n".to_string() } else { c.doc.text.clone() };
        project.reset(&c.schema, &[(DOC_REL.to_string(), disk_doc), (DEFS_REL.to_string(), c.defs.text.clone())]);
        let mut s = match project.server() {
            Ok(s) => s,
            Err(e) => {
                rep.harness_errors.push(format!("case {case_no}: {e}"));
                continue;
            }
        };
        if c.via_open {
            if let Err(e) = s.did_open(DOC_REL, &c.doc.text) {
                rep.harness_errors.push(format!("case {case_no}: {e}"));
                continue;
            }
        }
        let na_before_lit = c.doc.lits.iter().any(|l| !c.doc.text[..l.start].is_ascii());
        let na_inside = c.doc.lits.iter().any(|l| !l.text.is_ascii());
        if na_before_lit && c.accepted.iter().any(|a| *a) {
            rep.nontrivial += 1;
        }
        if na_inside {
            rep.count("documents_with_non_ascii_inside_literals", 1);
        }
        if c.doc.text.contains("\r\n") {
            rep.count("documents_with_crlf", 1);
        }
        rep.count("literals", c.doc.lits.len() as u64);
        rep.count("literals_accepted", c.accepted.iter().filter(|a| **a).count() as u64);
        check_tokens(&mut rep, &mut s, &c, case_no, seed);
        check_format_ranges(&mut rep, &mut s, &c, case_no, seed);
        check_probes(&mut rep, &mut s, &c, case_no, seed, &mut rng);
        check_diagnostics(&mut rep, &mut s, &c, case_no, seed);
        if (rep.samples.len() as u64) < want_samples {
            rep.samples.push(json!({"case": case_no, "document": c.doc.text.chars().take(500).collect::<String>(), "crlf": c.doc.text.contains("\r\n"), "literals": c.doc.lits.len()}));
        }
    }
    rep.to_json("positions")
}
