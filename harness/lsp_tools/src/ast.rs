//! Span-erasing structural view of a parsed iso literal: everything that gives
//! the declaration its meaning (names, aliases, arguments and values, variables
//! with types and defaults, directives, descriptions, selection order), nothing
//! positional.
use common_lang_types::WithEmbeddedLocation;
use isograph_lang_parser::IsoLiteralExtractionResult;
use isograph_lang_types::{
    ConstantValue, IsographFieldDirective, NonConstantValue, Selection, SelectionFieldArgument, SelectionSet,
    SelectionType, TypeAnnotationDeclaration, UnionVariant, VariableDeclaration,
};
use serde_json::{Value, json};

fn ncv(v: &NonConstantValue) -> Value {
    match v {
        NonConstantValue::Variable(n) => json!({"var": n.to_string()}),
        NonConstantValue::Integer(i) => json!({"int": i}),
        NonConstantValue::Boolean(b) => json!({"bool": b}),
        NonConstantValue::String(s) => json!({"str": s.to_string()}),
        NonConstantValue::Float(f) => json!({"float": format!("{f:?}")}),
        NonConstantValue::Null => json!("null"),
        NonConstantValue::Enum(e) => json!({"enum": e.to_string()}),
        NonConstantValue::List(l) => json!({"list": l.iter().map(|x| ncv(&x.item)).collect::<Vec<_>>()}),
        NonConstantValue::Object(o) => json!({"obj": o.iter().map(|p| json!([p.name.item.to_string(), ncv(&p.value.item)])).collect::<Vec<_>>()}),
    }
}

fn cv(v: &ConstantValue) -> Value {
    match v {
        ConstantValue::Integer(i) => json!({"int": i}),
        ConstantValue::Boolean(b) => json!({"bool": b}),
        ConstantValue::String(s) => json!({"str": s.to_string()}),
        ConstantValue::Float(f) => json!({"float": format!("{f:?}")}),
        ConstantValue::Null => json!("null"),
        ConstantValue::Enum(e) => json!({"enum": e.to_string()}),
        ConstantValue::List(l) => json!({"list": l.iter().map(|x| cv(&x.item)).collect::<Vec<_>>()}),
        ConstantValue::Object(o) => json!({"obj": o.iter().map(|p| json!([p.name.item.to_string(), cv(&p.value.item)])).collect::<Vec<_>>()}),
    }
}

fn args(a: &[WithEmbeddedLocation<SelectionFieldArgument>]) -> Value {
    Value::Array(a.iter().map(|x| json!([x.item.name.item.to_string(), ncv(&x.item.value.item)])).collect())
}

fn ty(t: &TypeAnnotationDeclaration) -> Value {
    match t {
        TypeAnnotationDeclaration::Scalar(e) => json!({"nonnull": e.to_string()}),
        TypeAnnotationDeclaration::Plural(p) => json!({"nonnull_list": ty(&p.item)}),
        TypeAnnotationDeclaration::Union(u) => json!({
            "nullable": u.nullable,
            "variants": u.variants.iter().map(|v| match v {
                UnionVariant::Scalar(e) => json!({"named": e.to_string()}),
                UnionVariant::Plural(p) => json!({"list": ty(&p.item)}),
            }).collect::<Vec<_>>()
        }),
    }
}

fn directives(d: &[WithEmbeddedLocation<IsographFieldDirective>]) -> Value {
    Value::Array(d.iter().map(|x| json!({"name": x.item.name.item.to_string(), "args": args(&x.item.arguments)})).collect())
}

fn vars(v: &[WithEmbeddedLocation<VariableDeclaration>]) -> Value {
    Value::Array(
        v.iter()
            .map(|x| {
                json!({
                    "name": x.item.name.item.to_string(),
                    "type": ty(&x.item.type_.item),
                    "default": x.item.default_value.as_ref().map(|d| cv(&d.item)),
                })
            })
            .collect(),
    )
}

fn selection(s: &Selection) -> Value {
    match s {
        SelectionType::Scalar(s) => json!({
            "scalar": s.name.item.to_string(),
            "alias": s.reader_alias.as_ref().map(|a| a.item.to_string()),
            "args": args(&s.arguments),
            "directives": format!("{:?}", s.scalar_selection_directive_set),
        }),
        SelectionType::Object(o) => json!({
            "object": o.name.item.to_string(),
            "alias": o.reader_alias.as_ref().map(|a| a.item.to_string()),
            "args": args(&o.arguments),
            "directives": format!("{:?}", o.object_selection_directive_set),
            "selections": selection_set(&o.selection_set.item),
        }),
    }
}

fn selection_set(s: &SelectionSet) -> Value {
    Value::Array(s.selections.iter().map(|x| selection(&x.item)).collect())
}

pub fn erase(r: &IsoLiteralExtractionResult) -> Value {
    match r {
        IsoLiteralExtractionResult::ClientFieldDeclaration(d) => {
            let d = &d.item;
            json!({
                "kind": "field",
                "parent": d.parent_type.item.to_string(),
                "name": d.client_field_name.item.to_string(),
                "export": d.const_export_name.to_string(),
                "description": d.description.as_ref().map(|x| x.item.to_string()),
                "variables": vars(&d.variable_definitions),
                "directives": directives(&d.directive_set.item),
                "selections": selection_set(&d.selection_set.item),
            })
        }
        IsoLiteralExtractionResult::ClientPointerDeclaration(d) => {
            let d = &d.item;
            json!({
                "kind": "pointer",
                "parent": d.parent_type.item.to_string(),
                "name": d.client_pointer_name.item.to_string(),
                "export": d.const_export_name.to_string(),
                "target": ty(&d.target_type.item),
                "description": d.description.as_ref().map(|x| x.item.to_string()),
                "variables": vars(&d.variable_definitions),
                "directives": directives(&d.directives.item),
                "selections": selection_set(&d.selection_set.item),
            })
        }
        IsoLiteralExtractionResult::EntrypointDeclaration(d) => {
            let d = &d.item;
            json!({
                "kind": "entrypoint",
                "parent": d.parent_type.item.to_string(),
                "name": d.client_field_name.item.to_string(),
                "directives": directives(&d.directive_set.item),
            })
        }
    }
}
