use common::{Diagnostic, SourceLocationKey, Span};
use graphql_syntax::*;
use serde_json::{json, Value as J};

use crate::guarded;

fn src<'a>(text: &'a str, span: Span) -> &'a str {
    let (s, e) = span.as_usize();
    text.get(s..e).unwrap_or("<bad span>")
}

fn errors(ds: &[Diagnostic]) -> J {
    J::Array(
        ds.iter()
            .map(|d| {
                let sp = d.location().span();
                json!({"message": d.message().to_string(), "start": sp.start, "end": sp.end})
            })
            .collect(),
    )
}

fn string_node(text: &str, n: &StringNode) -> J {
    let lex = src(text, n.token.span);
    let block = n.token.kind == TokenKind::BlockStringLiteral;
    let q = if block { 3 } else { 1 };
    let raw = if lex.len() >= 2 * q { &lex[q..lex.len() - q] } else { "<bad lexeme>" };
    json!({"kind": "StringValue", "value": n.value.to_string(), "block": block, "raw": raw})
}

fn opt_string(text: &str, n: &Option<StringNode>) -> J {
    match n {
        Some(n) => string_node(text, n),
        None => J::Null,
    }
}

fn const_value(text: &str, v: &ConstantValue) -> J {
    match v {
        ConstantValue::Int(n) => json!({"kind": "IntValue", "value": src(text, n.token.span), "parsed": n.value.to_string()}),
        ConstantValue::Float(n) => json!({"kind": "FloatValue", "value": n.source_value.to_string(),
            "lexeme": src(text, n.token.span), "bits": format!("{:016x}", n.value.as_float().to_bits())}),
        ConstantValue::String(n) => string_node(text, n),
        ConstantValue::Boolean(n) => json!({"kind": "BooleanValue", "value": n.value}),
        ConstantValue::Null(_) => json!({"kind": "NullValue"}),
        ConstantValue::Enum(n) => json!({"kind": "EnumValue", "value": n.value.to_string()}),
        ConstantValue::List(l) => json!({"kind": "ListValue", "values": l.items.iter().map(|x| const_value(text, x)).collect::<Vec<_>>()}),
        ConstantValue::Object(l) => json!({"kind": "ObjectValue", "fields": l.items.iter().map(|a| json!({"name": a.name.value.to_string(), "value": const_value(text, &a.value)})).collect::<Vec<_>>()}),
    }
}

fn value(text: &str, v: &Value) -> J {
    match v {
        Value::Constant(c) => const_value(text, c),
        Value::Variable(v) => json!({"kind": "Variable", "name": v.name.to_string()}),
        Value::List(l) => json!({"kind": "ListValue", "values": l.items.iter().map(|x| value(text, x)).collect::<Vec<_>>()}),
        Value::Object(l) => json!({"kind": "ObjectValue", "fields": l.items.iter().map(|a| json!({"name": a.name.value.to_string(), "value": value(text, &a.value)})).collect::<Vec<_>>()}),
    }
}

fn type_(t: &TypeAnnotation) -> J {
    match t {
        TypeAnnotation::Named(n) => json!({"kind": "NamedType", "name": n.name.value.to_string()}),
        TypeAnnotation::List(l) => json!({"kind": "ListType", "type": type_(&l.type_)}),
        TypeAnnotation::NonNull(n) => json!({"kind": "NonNullType", "type": type_(&n.type_)}),
    }
}

fn args(text: &str, a: &Option<List<Argument>>) -> J {
    match a {
        None => json!([]),
        Some(l) => J::Array(l.items.iter().map(|a| json!({"name": a.name.value.to_string(), "value": value(text, &a.value)})).collect()),
    }
}

fn const_args(text: &str, a: &Option<List<ConstantArgument>>) -> J {
    match a {
        None => json!([]),
        Some(l) => J::Array(l.items.iter().map(|a| json!({"name": a.name.value.to_string(), "value": const_value(text, &a.value)})).collect()),
    }
}

fn directives(text: &str, ds: &[Directive]) -> J {
    J::Array(ds.iter().map(|d| json!({"name": d.name.value.to_string(), "arguments": args(text, &d.arguments)})).collect())
}

fn const_directives(text: &str, ds: &[ConstantDirective]) -> J {
    J::Array(ds.iter().map(|d| json!({"name": d.name.value.to_string(), "arguments": const_args(text, &d.arguments)})).collect())
}

fn selections(text: &str, l: &List<Selection>) -> J {
    J::Array(l.items.iter().map(|s| selection(text, s)).collect())
}

fn alias(a: &Option<Alias>) -> J {
    match a {
        Some(a) => J::String(a.alias.value.to_string()),
        None => J::Null,
    }
}

fn selection(text: &str, s: &Selection) -> J {
    match s {
        Selection::ScalarField(f) => json!({"kind": "Field", "alias": alias(&f.alias), "name": f.name.value.to_string(),
            "arguments": args(text, &f.arguments), "directives": directives(text, &f.directives), "selectionSet": null}),
        Selection::LinkedField(f) => json!({"kind": "Field", "alias": alias(&f.alias), "name": f.name.value.to_string(),
            "arguments": args(text, &f.arguments), "directives": directives(text, &f.directives),
            "selectionSet": selections(text, &f.selections)}),
        Selection::FragmentSpread(f) => {
            let mut j = json!({"kind": "FragmentSpread", "name": f.name.value.to_string(), "directives": directives(text, &f.directives)});
            if f.arguments.is_some() {
                j["spreadArguments"] = args(text, &f.arguments);
            }
            j
        }
        Selection::InlineFragment(f) => json!({"kind": "InlineFragment",
            "typeCondition": f.type_condition.as_ref().map(|t| t.type_.value.to_string()),
            "directives": directives(text, &f.directives), "selectionSet": selections(text, &f.selections)}),
    }
}

fn variable_definitions(text: &str, v: &Option<List<VariableDefinition>>) -> J {
    match v {
        None => json!([]),
        Some(l) => J::Array(l.items.iter().map(|v| json!({"kind": "VariableDefinition", "variable": v.name.name.to_string(),
            "type": type_(&v.type_), "defaultValue": v.default_value.as_ref().map(|d| const_value(text, &d.value)),
            "directives": directives(text, &v.directives)})).collect()),
    }
}

fn executable_definition(text: &str, d: &ExecutableDefinition) -> J {
    match d {
        ExecutableDefinition::Operation(o) => json!({"kind": "OperationDefinition",
            "operation": o.operation_kind().to_string(), "shorthand": o.operation.is_none(),
            "name": o.name.as_ref().map(|n| n.value.to_string()),
            "variableDefinitions": variable_definitions(text, &o.variable_definitions),
            "directives": directives(text, &o.directives), "selectionSet": selections(text, &o.selections)}),
        ExecutableDefinition::Fragment(f) => {
            let mut j = json!({"kind": "FragmentDefinition", "name": f.name.value.to_string(),
                "typeCondition": f.type_condition.type_.value.to_string(),
                "directives": directives(text, &f.directives), "selectionSet": selections(text, &f.selections)});
            if f.variable_definitions.is_some() {
                j["fragmentVariableDefinitions"] = variable_definitions(text, &f.variable_definitions);
            }
            j
        }
    }
}

pub fn exec(text: &str) -> J {
    match parse_executable(text, SourceLocationKey::generated()) {
        Ok(doc) => json!({"ok": true, "tree": {"kind": "Document",
            "definitions": doc.definitions.iter().map(|d| executable_definition(text, d)).collect::<Vec<_>>()}}),
        Err(ds) => json!({"ok": false, "errors": errors(&ds)}),
    }
}

fn names(v: &[Identifier]) -> J {
    J::Array(v.iter().map(|i| J::String(i.value.to_string())).collect())
}

fn input_values(text: &str, v: &Option<List<InputValueDefinition>>) -> J {
    match v {
        None => json!([]),
        Some(l) => J::Array(l.items.iter().map(|a| json!({"name": a.name.value.to_string(), "type": type_(&a.type_),
            "defaultValue": a.default_value.as_ref().map(|d| const_value(text, d)),
            "directives": const_directives(text, &a.directives)})).collect()),
    }
}

fn fields(text: &str, v: &Option<List<FieldDefinition>>) -> J {
    match v {
        None => json!([]),
        Some(l) => J::Array(l.items.iter().map(|f| {
            let mut j = json!({"description": opt_string(text, &f.description), "name": f.name.value.to_string(),
                "arguments": input_values(text, &f.arguments), "type": type_(&f.type_),
                "directives": const_directives(text, &f.directives)});
            if f.hack_source.is_some() {
                j["hackSource"] = opt_string(text, &f.hack_source);
            }
            j
        }).collect()),
    }
}

fn operation_types(v: &[OperationTypeDefinition]) -> J {
    J::Array(v.iter().map(|o| json!({"operation": o.operation.to_string(), "type": o.type_.value.to_string()})).collect())
}

fn enum_values(text: &str, v: &Option<List<EnumValueDefinition>>) -> J {
    match v {
        None => json!([]),
        Some(l) => J::Array(l.items.iter().map(|e| json!({"name": e.name.value.to_string(),
            "directives": const_directives(text, &e.directives)})).collect()),
    }
}

fn type_system_definition(text: &str, d: &TypeSystemDefinition) -> J {
    use TypeSystemDefinition as T;
    match d {
        T::SchemaDefinition(s) => json!({"kind": "SchemaDefinition", "directives": const_directives(text, &s.directives),
            "operationTypes": operation_types(&s.operation_types.items)}),
        T::SchemaExtension(s) => json!({"kind": "SchemaExtension", "directives": const_directives(text, &s.directives),
            "operationTypes": s.operation_types.as_ref().map(|l| operation_types(&l.items)).unwrap_or(json!([]))}),
        T::ObjectTypeDefinition(o) => json!({"kind": "ObjectTypeDefinition", "name": o.name.value.to_string(),
            "interfaces": names(&o.interfaces), "directives": const_directives(text, &o.directives), "fields": fields(text, &o.fields)}),
        T::ObjectTypeExtension(o) => json!({"kind": "ObjectTypeExtension", "name": o.name.value.to_string(),
            "interfaces": names(&o.interfaces), "directives": const_directives(text, &o.directives), "fields": fields(text, &o.fields)}),
        T::InterfaceTypeDefinition(o) => json!({"kind": "InterfaceTypeDefinition", "name": o.name.value.to_string(),
            "interfaces": names(&o.interfaces), "directives": const_directives(text, &o.directives), "fields": fields(text, &o.fields)}),
        T::InterfaceTypeExtension(o) => json!({"kind": "InterfaceTypeExtension", "name": o.name.value.to_string(),
            "interfaces": names(&o.interfaces), "directives": const_directives(text, &o.directives), "fields": fields(text, &o.fields)}),
        T::UnionTypeDefinition(u) => json!({"kind": "UnionTypeDefinition", "name": u.name.value.to_string(),
            "directives": const_directives(text, &u.directives), "types": names(&u.members)}),
        T::UnionTypeExtension(u) => json!({"kind": "UnionTypeExtension", "name": u.name.value.to_string(),
            "directives": const_directives(text, &u.directives), "types": names(&u.members)}),
        T::EnumTypeDefinition(e) => json!({"kind": "EnumTypeDefinition", "name": e.name.value.to_string(),
            "directives": const_directives(text, &e.directives), "values": enum_values(text, &e.values)}),
        T::EnumTypeExtension(e) => json!({"kind": "EnumTypeExtension", "name": e.name.value.to_string(),
            "directives": const_directives(text, &e.directives), "values": enum_values(text, &e.values)}),
        T::InputObjectTypeDefinition(i) => json!({"kind": "InputObjectTypeDefinition", "name": i.name.value.to_string(),
            "directives": const_directives(text, &i.directives), "fields": input_values(text, &i.fields)}),
        T::InputObjectTypeExtension(i) => json!({"kind": "InputObjectTypeExtension", "name": i.name.value.to_string(),
            "directives": const_directives(text, &i.directives), "fields": input_values(text, &i.fields)}),
        T::ScalarTypeDefinition(s) => json!({"kind": "ScalarTypeDefinition", "name": s.name.value.to_string(),
            "directives": const_directives(text, &s.directives)}),
        T::ScalarTypeExtension(s) => json!({"kind": "ScalarTypeExtension", "name": s.name.value.to_string(),
            "directives": const_directives(text, &s.directives)}),
        T::DirectiveDefinition(d) => {
            let mut j = json!({"kind": "DirectiveDefinition", "description": opt_string(text, &d.description),
                "name": d.name.value.to_string(), "arguments": input_values(text, &d.arguments),
                "repeatable": d.repeatable,
                "locations": d.locations.iter().map(|l| l.to_string()).collect::<Vec<_>>()});
            if d.hack_source.is_some() {
                j["hackSource"] = opt_string(text, &d.hack_source);
            }
            j
        }
    }
}

fn schema_tree(text: &str, doc: &SchemaDocument) -> J {
    json!({"kind": "Document", "definitions": doc.definitions.iter().map(|d| type_system_definition(text, d)).collect::<Vec<_>>()})
}

pub fn schema(text: &str) -> J {
    match parse_schema_document(text, SourceLocationKey::generated()) {
        Ok(doc) => {
            let tree = schema_tree(text, &doc);
            let printed = match std::panic::catch_unwind(std::panic::AssertUnwindSafe(|| doc.to_string())) {
                Ok(p) => p,
                Err(_) => return json!({"ok": true, "tree": tree, "printed": null, "reparse": {"ok": false, "panic": "print panicked"}}),
            };
            let reparse = guarded(|| match parse_schema_document(&printed, SourceLocationKey::generated()) {
                Ok(doc2) => json!({"ok": true, "tree": schema_tree(&printed, &doc2)}),
                Err(ds) => json!({"ok": false, "errors": errors(&ds)}),
            });
            json!({"ok": true, "tree": tree, "printed": printed, "reparse": reparse})
        }
        Err(ds) => json!({"ok": false, "errors": errors(&ds)}),
    }
}
