//! gql_tools <relay-exec|relay-schema|iso-schema|iso-extension>
//! stdin: JSON lines {"id": n, "text": "..."}; stdout: one JSON line per document:
//! {"id", "ok", "tree" | "errors":[{"message","start","end"}], "panic"}; relay-schema adds
//! "printed" and "reparse": {"ok","tree"|"errors"|"panic"} (print = Display of SchemaDocument).
use std::io::{BufRead, Write};
use std::panic::{catch_unwind, AssertUnwindSafe};

use serde_json::{json, Value};

mod iso;
mod relay;

fn panic_message(e: Box<dyn std::any::Any + Send>) -> String {
    if let Some(s) = e.downcast_ref::<&str>() {
        s.to_string()
    } else if let Some(s) = e.downcast_ref::<String>() {
        s.clone()
    } else {
        "panic".to_string()
    }
}

pub fn guarded(f: impl FnOnce() -> Value) -> Value {
    match catch_unwind(AssertUnwindSafe(f)) {
        Ok(v) => v,
        Err(e) => json!({"ok": false, "panic": panic_message(e)}),
    }
}

fn main() {
    let mode = std::env::args().nth(1).unwrap_or_default();
    if !matches!(mode.as_str(), "relay-exec" | "relay-schema" | "iso-schema" | "iso-extension") {
        eprintln!("usage: gql_tools <relay-exec|relay-schema|iso-schema|iso-extension> < docs.jsonl");
        std::process::exit(2);
    }
    std::panic::set_hook(Box::new(|_| {}));
    let stdin = std::io::stdin();
    let stdout = std::io::stdout();
    let mut out = std::io::BufWriter::new(stdout.lock());
    for line in stdin.lock().lines() {
        let line = match line {
            Ok(l) => l,
            Err(_) => break,
        };
        if line.trim().is_empty() {
            continue;
        }
        let req: Value = match serde_json::from_str(&line) {
            Ok(v) => v,
            Err(e) => {
                writeln!(out, "{}", json!({"id": null, "ok": false, "harness_error": e.to_string()})).unwrap();
                continue;
            }
        };
        let id = req["id"].clone();
        let text = req["text"].as_str().unwrap_or("").to_string();
        let mut res = match mode.as_str() {
            "relay-exec" => guarded(|| relay::exec(&text)),
            "relay-schema" => guarded(|| relay::schema(&text)),
            "iso-schema" => guarded(|| iso::schema(&text)),
            _ => guarded(|| iso::extension_doc(&text)),
        };
        res["id"] = id;
        writeln!(out, "{}", res).unwrap();
        // flush per document so that the driver knows which document killed the process
        out.flush().unwrap();
    }
}
