fn main() { eprintln!("stub"); }
