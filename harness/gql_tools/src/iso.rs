use common_lang_types::{Diagnostic, TextSource, WithEmbeddedLocation};
use graphql_lang_types::*;
use graphql_schema_parser::{parse_schema, parse_schema_extensions};
use intern::string_key::Intern;
use serde_json::{json, Value as J};

fn text_source() -> TextSource {
    TextSource {
        relative_path_to_source_file: "schema.graphql".intern().into(),
        span: None,
    }
}

fn error(d: &Diagnostic) -> J {
    json!([{"message": d.0.message.clone()}])
}

fn screaming(camel: &str) -> String {
    let mut out = String::new();
    for (i, c) in camel.chars().enumerate() {
        if c.is_uppercase() && i > 0 {
            out.push('_');
        }
        out.push(c.to_ascii_uppercase());
    }
    out
}

fn desc<T: std::fmt::Display>(d: &Option<WithEmbeddedLocation<T>>) -> J {
    match d {
        Some(d) => json!({"kind": "StringValue", "value": d.item.to_string()}),
        None => J::Null,
    }
}

fn value(v: &GraphQLConstantValue) -> J {
    match v {
        GraphQLConstantValue::Int(i) => json!({"kind": "IntValue", "parsed": i.to_string()}),
        GraphQLConstantValue::Float(f) => json!({"kind": "FloatValue", "bits": format!("{:016x}", f.as_float().to_bits())}),
        GraphQLConstantValue::String(s) => json!({"kind": "StringValue", "value": s.to_string()}),
        GraphQLConstantValue::Boolean(b) => json!({"kind": "BooleanValue", "value": b}),
        GraphQLConstantValue::Null => json!({"kind": "NullValue"}),
        GraphQLConstantValue::Enum(e) => json!({"kind": "EnumValue", "value": e.to_string()}),
        GraphQLConstantValue::List(l) => json!({"kind": "ListValue", "values": l.iter().map(|x| value(&x.item)).collect::<Vec<_>>()}),
        GraphQLConstantValue::Object(o) => json!({"kind": "ObjectValue", "fields": o.iter().map(|p| json!({"name": p.name.item.to_string(), "value": value(&p.value.item)})).collect::<Vec<_>>()}),
    }
}

fn type_(t: &GraphQLTypeAnnotation) -> J {
    match t {
        GraphQLTypeAnnotation::Named(n) => json!({"kind": "NamedType", "name": n.0.to_string()}),
        GraphQLTypeAnnotation::List(l) => json!({"kind": "ListType", "type": type_(&l.0.item)}),
        GraphQLTypeAnnotation::NonNull(nn) => match nn.as_ref() {
            GraphQLNonNullTypeAnnotation::Named(n) => json!({"kind": "NonNullType", "type": {"kind": "NamedType", "name": n.0.to_string()}}),
            GraphQLNonNullTypeAnnotation::List(l) => json!({"kind": "NonNullType", "type": {"kind": "ListType", "type": type_(&l.0.item)}}),
        },
    }
}

fn directives(ds: &[GraphQLDirective<GraphQLConstantValue>]) -> J {
    J::Array(ds.iter().map(|d| json!({"name": d.name.item.to_string(),
        "arguments": d.arguments.iter().map(|a| json!({"name": a.name.item.to_string(), "value": value(&a.value.item)})).collect::<Vec<_>>()})).collect())
}

fn names<T: std::fmt::Display>(v: &[WithEmbeddedLocation<T>]) -> J {
    J::Array(v.iter().map(|n| J::String(n.item.to_string())).collect())
}

fn input_values(v: &[WithEmbeddedLocation<GraphQLInputValueDefinition>]) -> J {
    J::Array(v.iter().map(|a| {
        let a = &a.item;
        json!({"description": desc(&a.description), "name": a.name.item.to_string(), "type": type_(&a.type_.item),
            "defaultValue": a.default_value.as_ref().map(|d| value(&d.item)), "directives": directives(&a.directives)})
    }).collect())
}

fn fields(v: &[WithEmbeddedLocation<GraphQLFieldDefinition>]) -> J {
    J::Array(v.iter().map(|f| {
        let f = &f.item;
        json!({"description": desc(&f.description), "name": f.name.item.to_string(), "arguments": input_values(&f.arguments),
            "type": type_(&f.type_.item), "directives": directives(&f.directives)})
    }).collect())
}

fn definition(d: &GraphQLTypeSystemDefinition) -> J {
    use GraphQLTypeSystemDefinition as T;
    match d {
        T::ObjectTypeDefinition(o) => json!({"kind": "ObjectTypeDefinition", "description": desc(&o.description),
            "name": o.name.item.to_string(), "interfaces": names(&o.interfaces), "directives": directives(&o.directives),
            "fields": fields(&o.fields)}),
        T::InterfaceTypeDefinition(o) => json!({"kind": "InterfaceTypeDefinition", "description": desc(&o.description),
            "name": o.name.item.to_string(), "interfaces": names(&o.interfaces), "directives": directives(&o.directives),
            "fields": fields(&o.fields)}),
        T::ScalarTypeDefinition(s) => json!({"kind": "ScalarTypeDefinition", "description": desc(&s.description),
            "name": s.name.item.to_string(), "directives": directives(&s.directives)}),
        T::InputObjectTypeDefinition(i) => json!({"kind": "InputObjectTypeDefinition", "description": desc(&i.description),
            "name": i.name.item.to_string(), "directives": directives(&i.directives), "fields": input_values(&i.fields)}),
        T::DirectiveDefinition(d) => json!({"kind": "DirectiveDefinition", "description": desc(&d.description),
            "name": d.name.item.to_string(), "arguments": input_values(&d.arguments), "repeatable": d.repeatable.is_some(),
            "locations": d.locations.iter().map(|l| screaming(&format!("{:?}", l.item))).collect::<Vec<_>>()}),
        T::EnumDefinition(e) => json!({"kind": "EnumTypeDefinition", "description": desc(&e.description),
            "name": e.name.item.to_string(), "directives": directives(&e.directives),
            "values": e.enum_value_definitions.iter().map(|v| json!({"description": desc(&v.item.description),
                "name": v.item.value.item.to_string(), "directives": directives(&v.item.directives)})).collect::<Vec<_>>()}),
        T::UnionTypeDefinition(u) => json!({"kind": "UnionTypeDefinition", "description": desc(&u.description),
            "name": u.name.item.to_string(), "directives": directives(&u.directives), "types": names(&u.union_member_types)}),
        T::SchemaDefinition(s) => json!({"kind": "SchemaDefinition", "description": desc(&s.description),
            "directives": directives(&s.directives),
            "roots": {"query": s.query.as_ref().map(|n| n.item.to_string()),
                      "mutation": s.mutation.as_ref().map(|n| n.item.to_string()),
                      "subscription": s.subscription.as_ref().map(|n| n.item.to_string())}}),
    }
}

fn extension(e: &GraphQLTypeSystemExtension) -> J {
    match e {
        GraphQLTypeSystemExtension::ObjectTypeExtension(o) => json!({"kind": "ObjectTypeExtension",
            "name": o.name.item.to_string(), "interfaces": names(&o.interfaces), "directives": directives(&o.directives),
            "fields": fields(&o.fields)}),
    }
}

pub fn schema(text: &str) -> J {
    match parse_schema(text, text_source()) {
        Ok(doc) => json!({"ok": true, "tree": {"kind": "Document",
            "definitions": doc.0.iter().map(|d| definition(&d.item)).collect::<Vec<_>>()}}),
        Err(d) => json!({"ok": false, "errors": error(&d)}),
    }
}

pub fn extension_doc(text: &str) -> J {
    match parse_schema_extensions(text, text_source()) {
        Ok(doc) => json!({"ok": true, "tree": {"kind": "Document",
            "definitions": doc.0.iter().map(|d| match &d.item {
                GraphQLTypeSystemExtensionOrDefinition::Definition(d) => definition(d),
                GraphQLTypeSystemExtensionOrDefinition::Extension(e) => extension(e),
            }).collect::<Vec<_>>()}}),
        Err(d) => json!({"ok": false, "errors": error(&d)}),
    }
}


