//! The fixed *test program* run on top of the real `pico`: sources, tracked
//! fields, ~20 `#[memo]` functions covering every argument shape the macro
//! distinguishes, each logging what it reads / calls into a harness-owned
//! thread-local event log (pico's client boundary), plus a pure twin of every
//! function over a plain `Model`.
use std::cell::RefCell;
use std::collections::{BTreeMap, BTreeSet, HashMap};

use pico::{Database, MemoRef, SourceId, Storage};
use pico_macros::{Db, Singleton, Source, memo};
use serde::{Deserialize, Serialize};

pub const NKEYS: u8 = 4;

#[derive(Debug, Clone, PartialEq, Eq, Source)]
pub struct Cell {
    #[key]
    pub k: u8,
    pub v: u8,
}

#[derive(Debug, Clone, PartialEq, Eq, Singleton)]
pub struct SingA {
    pub v: u8,
}

#[derive(Debug, Clone, PartialEq, Eq, Singleton)]
pub struct SingB {
    pub v: u8,
}

#[derive(Default, Debug)]
pub struct IndexMap(pub BTreeMap<u8, SourceId<Cell>>);

#[derive(Default, Debug)]
pub struct Cfg {
    pub bias: u8,
}

#[derive(Db)]
pub struct MonDb {
    storage: Storage<Self>,
    #[tracked]
    index: IndexMap,
    #[tracked]
    cfg: Cfg,
}

impl MonDb {
    pub fn new(capacity: usize) -> Self {
        MonDb {
            storage: Storage::new_with_capacity(capacity.try_into().unwrap()),
            index: IndexMap::default(),
            cfg: Cfg::default(),
        }
    }
}

thread_local! {
    static LIVE_TAGS: RefCell<std::collections::HashSet<u64>> = RefCell::new(Default::default());
    static NEXT_TAG: std::cell::Cell<u64> = const { std::cell::Cell::new(1) };
}

/// A string whose liveness the harness can observe: constructing registers a
/// unique id, dropping unregisters it. `live()` on a reference that pico
/// handed out tells (natively, deterministically) whether the pointee has been
/// dropped — Miri/ASan flag the same read as a use-after-free.
pub struct Tag {
    id: u64,
    s: String,
}

impl Tag {
    pub fn new(s: String) -> Self {
        let n = NEXT_TAG.with(|c| {
            let n = c.get();
            c.set(n + 1);
            n
        });
        let id = n.wrapping_mul(0x9E3779B97F4A7C15) | 1;
        LIVE_TAGS.with(|l| l.borrow_mut().insert(id));
        Tag { id, s }
    }
    pub fn live(&self) -> bool {
        // SAFETY: reading a plain u64 through the reference pico returned
        let id = unsafe { std::ptr::read_volatile(&self.id) };
        LIVE_TAGS.with(|l| l.borrow().contains(&id))
    }
    /// The text, or a marker if the reference is dangling (never reads freed string data).
    pub fn text(&self) -> String {
        if self.live() { self.s.clone() } else { "<DANGLING>".to_string() }
    }
}

impl Drop for Tag {
    fn drop(&mut self) {
        LIVE_TAGS.with(|l| {
            l.borrow_mut().remove(&self.id);
        });
        self.id = 0;
    }
}

impl Clone for Tag {
    fn clone(&self) -> Self {
        Tag::new(self.s.clone())
    }
}

impl PartialEq for Tag {
    fn eq(&self, o: &Self) -> bool {
        self.s == o.s
    }
}

impl std::hash::Hash for Tag {
    fn hash<H: std::hash::Hasher>(&self, h: &mut H) {
        self.s.hash(h)
    }
}

impl std::fmt::Debug for Tag {
    fn fmt(&self, f: &mut std::fmt::Formatter<'_>) -> std::fmt::Result {
        write!(f, "{:?}", self.text())
    }
}

pub fn cid(k: u8) -> SourceId<Cell> {
    SourceId::new(&Cell { k, v: 0 })
}

pub fn key_of(id: SourceId<Cell>) -> u8 {
    for k in 0..NKEYS {
        if cid(k).key == id.key {
            return k;
        }
    }
    panic!("harness: unknown cell id");
}

// ---------------------------------------------------------------------------
// nodes, events, log
// ---------------------------------------------------------------------------

#[derive(Debug, Clone, PartialEq, Eq, Hash, PartialOrd, Ord, Serialize, Deserialize)]
pub enum Node {
    Val(u8),
    Parity(u8),
    Label(u8),
    Sum2(u8, u8),
    SingOr(u8),
    SingPair,
    TrackedSum,
    TrackedParities,
    UntrackedVal(u8),
    Biased(u8),
    NameOf(String),
    Pair(u8),
    SecondRef(u8),
    UseSecond(u8),
    Interned(u8),
    ViaMemoRef(u8),
    SameA(u8),
    SameB(u8),
    /// pseudo nodes for interned values (never executed)
    InternedValue(String),
    InternedRef(String),
}

impl Node {
    pub fn func(&self) -> &'static str {
        match self {
            Node::Val(_) => "val",
            Node::Parity(_) => "parity",
            Node::Label(_) => "label",
            Node::Sum2(..) => "sum2",
            Node::SingOr(_) => "sing_or",
            Node::SingPair => "sing_pair",
            Node::TrackedSum => "tracked_sum",
            Node::TrackedParities => "tracked_parities",
            Node::UntrackedVal(_) => "untracked_val",
            Node::Biased(_) => "biased",
            Node::NameOf(_) => "name_of",
            Node::Pair(_) => "pair",
            Node::SecondRef(_) => "second_ref",
            Node::UseSecond(_) => "use_second",
            Node::Interned(_) => "interned",
            Node::ViaMemoRef(_) => "via_memoref",
            Node::SameA(_) => "a::same",
            Node::SameB(_) => "b::same",
            Node::InternedValue(_) => "<intern_value>",
            Node::InternedRef(_) => "<intern_ref>",
        }
    }
    /// cell keys that must be present for a from-scratch evaluation to be defined
    pub fn cells(&self) -> Vec<u8> {
        match self {
            Node::Val(k)
            | Node::Parity(k)
            | Node::Label(k)
            | Node::UntrackedVal(k)
            | Node::Biased(k)
            | Node::Pair(k)
            | Node::SecondRef(k)
            | Node::UseSecond(k)
            | Node::Interned(k)
            | Node::ViaMemoRef(k) => vec![*k],
            Node::Sum2(a, b) => vec![*a, *b],
            _ => vec![],
        }
    }
}

#[derive(Debug, Clone, PartialEq, Eq, Hash, PartialOrd, Ord, Serialize, Deserialize)]
pub enum Src {
    Cell(u8),
    SingA,
    SingB,
    IndexCounter,
    CfgCounter,
}

#[derive(Debug, Clone, Serialize)]
pub enum Ev {
    Enter(Node),
    Read(Src, Option<u8>),
    /// a nested memoized call or a tracked MemoRef read: child node, rendered value
    Dep(Node, String),
    Exit(Node, String),
    /// the program was handed a reference whose pointee has been dropped
    Dangling(String),
}

thread_local! {
    pub static LOG: RefCell<Vec<Ev>> = const { RefCell::new(Vec::new()) };
    static MEMOREF_CELL: RefCell<HashMap<MemoRef<u8>, u8>> = RefCell::new(HashMap::new());
}

fn log(e: Ev) {
    LOG.with(|l| l.borrow_mut().push(e));
}

pub fn take_log() -> Vec<Ev> {
    LOG.with(|l| std::mem::take(&mut *l.borrow_mut()))
}

pub fn register_val_memoref(m: MemoRef<u8>, k: u8) {
    MEMOREF_CELL.with(|t| {
        t.borrow_mut().insert(m, k);
    });
}

pub fn reset_tls() {
    take_log();
    LIVE_TAGS.with(|l| l.borrow_mut().clear());
    MEMOREF_CELL.with(|t| t.borrow_mut().clear());
}

fn body<T: std::fmt::Debug>(node: Node, f: impl FnOnce() -> T) -> T {
    log(Ev::Enter(node.clone()));
    let r = f();
    log(Ev::Exit(node, format!("{r:?}")));
    r
}

fn body_rendered<T>(node: Node, f: impl FnOnce() -> (T, String)) -> T {
    log(Ev::Enter(node.clone()));
    let (r, s) = f();
    log(Ev::Exit(node, s));
    r
}

fn read_cell(db: &MonDb, id: SourceId<Cell>) -> u8 {
    let c = db.get(id);
    log(Ev::Read(Src::Cell(c.k), Some(c.v)));
    c.v
}

fn read_a(db: &MonDb) -> Option<u8> {
    let r = db.get_singleton::<SingA>().map(|s| s.v);
    log(Ev::Read(Src::SingA, r));
    r
}

fn read_b(db: &MonDb) -> Option<u8> {
    let r = db.get_singleton::<SingB>().map(|s| s.v);
    log(Ev::Read(Src::SingB, r));
    r
}

fn dep<T: std::fmt::Debug>(child: Node, v: &T) {
    log(Ev::Dep(child, format!("{v:?}")));
}

// ---------------------------------------------------------------------------
// memoized functions
// ---------------------------------------------------------------------------

#[memo(raw)]
pub fn val(db: &MonDb, id: SourceId<Cell>) -> u8 {
    body(Node::Val(key_of(id)), || read_cell(db, id))
}

#[memo]
pub fn parity(db: &MonDb, id: SourceId<Cell>) -> u8 {
    let k = key_of(id);
    body(Node::Parity(k), || {
        let v = *val(db, id).lookup(db);
        dep(Node::Val(k), &v);
        v % 2
    })
}

#[memo(raw)]
pub fn label(db: &MonDb, id: SourceId<Cell>) -> String {
    let k = key_of(id);
    body(Node::Label(k), || {
        let p = *parity(db, id);
        dep(Node::Parity(k), &p);
        format!("p{p}")
    })
}

#[memo]
pub fn sum2(db: &MonDb, a: SourceId<Cell>, b: &SourceId<Cell>) -> u16 {
    body(Node::Sum2(key_of(a), key_of(*b)), || {
        read_cell(db, a) as u16 + read_cell(db, *b) as u16
    })
}

#[memo]
pub fn sing_or(db: &MonDb, dflt: u8) -> u8 {
    body(Node::SingOr(dflt), || read_a(db).unwrap_or(dflt))
}

#[memo(raw)]
pub fn sing_pair(db: &MonDb) -> (Option<u8>, Option<u8>) {
    body(Node::SingPair, || (read_a(db), read_b(db)))
}

#[memo(raw)]
pub fn tracked_sum(db: &MonDb) -> u32 {
    body(Node::TrackedSum, || {
        log(Ev::Read(Src::IndexCounter, None));
        let mut s = 0u32;
        for (_k, id) in db.get_index().tracked().0.iter() {
            s += 1000 + read_cell(db, *id) as u32;
        }
        s
    })
}

#[memo(raw)]
pub fn tracked_parities(db: &MonDb) -> Vec<u8> {
    body(Node::TrackedParities, || {
        log(Ev::Read(Src::IndexCounter, None));
        let mut out = vec![];
        for (k, id) in db.get_index().tracked().0.iter() {
            let p = *parity(db, *id);
            dep(Node::Parity(*k), &p);
            out.push(p);
        }
        out
    })
}

#[memo]
pub fn untracked_val(db: &MonDb, k: u8) -> u8 {
    body(Node::UntrackedVal(k), || {
        let id = *db
            .get_index()
            .untracked()
            .0
            .get(&k)
            .expect("harness contract: slot is indexed when untracked_val is called");
        read_cell(db, id)
    })
}

#[memo]
pub fn biased(db: &MonDb, id: SourceId<Cell>) -> u16 {
    body(Node::Biased(key_of(id)), || {
        log(Ev::Read(Src::CfgCounter, None));
        let bias = db.get_cfg().tracked().bias;
        bias as u16 + read_cell(db, id) as u16
    })
}

#[memo]
pub fn name_of(db: &MonDb, s: &String) -> usize {
    body(Node::NameOf(s.clone()), || {
        let d = *sing_or(db, 0);
        dep(Node::SingOr(0), &d);
        s.len() + d as usize
    })
}

#[memo(raw)]
pub fn pair(db: &MonDb, id: SourceId<Cell>) -> (u8, Tag) {
    body(Node::Pair(key_of(id)), || {
        let v = read_cell(db, id);
        (v, Tag::new(format!("tag{}", v % 2)))
    })
}

/// Returns a MemoRef into *another node's* value (the `intern_ref` docs scenario).
#[memo]
pub fn second_ref(db: &MonDb, id: SourceId<Cell>) -> MemoRef<Tag> {
    let k = key_of(id);
    body_rendered(Node::SecondRef(k), || {
        let p = pair(db, id).lookup(db);
        dep(Node::Pair(k), p);
        let m = db.intern_ref(&p.1);
        log(Ev::Dep(Node::InternedRef(p.1.text()), format!("{:?}", p.1)));
        (m, format!("{:?}", p.1))
    })
}

#[memo(raw)]
pub fn use_second(db: &MonDb, id: SourceId<Cell>) -> String {
    let k = key_of(id);
    body(Node::UseSecond(k), || {
        let m = *second_ref(db, id);
        let t = m.lookup(db);
        if !t.live() {
            log(Ev::Dangling(format!("use_second({k}) read the reference returned by second_ref({k})")));
        }
        dep(Node::SecondRef(k), t);
        format!("{}!", t.text())
    })
}

#[memo]
pub fn interned(db: &MonDb, id: SourceId<Cell>) -> MemoRef<u8> {
    let k = key_of(id);
    body_rendered(Node::Interned(k), || {
        let v = read_cell(db, id) / 2;
        let m = db.intern_value(v);
        log(Ev::Dep(Node::InternedValue(format!("{v}")), format!("{v}")));
        (m, format!("{v}"))
    })
}

#[memo]
pub fn via_memoref(db: &MonDb, m: MemoRef<u8>) -> u16 {
    let k = MEMOREF_CELL.with(|t| *t.borrow().get(&m).expect("harness: memoref registered"));
    body(Node::ViaMemoRef(k), || {
        let v = *m.lookup_tracked(db);
        dep(Node::Val(k), &v);
        v as u16 + 1
    })
}

pub mod a {
    use super::*;
    #[memo]
    pub fn same(db: &MonDb, k: u8) -> u8 {
        body(Node::SameA(k), || read_a(db).unwrap_or(k))
    }
}

pub mod b {
    use super::*;
    #[memo]
    pub fn same(db: &MonDb, k: u8) -> u8 {
        body(Node::SameB(k), || {
            let _ = db;
            k.wrapping_add(100)
        })
    }
}

// ---------------------------------------------------------------------------
// the pure model and the twins
// ---------------------------------------------------------------------------

#[derive(Debug, Clone, Default, PartialEq, Eq)]
pub struct Model {
    pub cells: BTreeMap<u8, u8>,
    pub sing_a: Option<u8>,
    pub sing_b: Option<u8>,
    pub index: BTreeSet<u8>,
    pub bias: u8,
}

impl Model {
    pub fn defined(&self, n: &Node) -> bool {
        if !n.cells().iter().all(|k| self.cells.contains_key(k)) {
            return false;
        }
        match n {
            Node::UntrackedVal(k) => self.index.contains(k),
            Node::InternedValue(_) | Node::InternedRef(_) => false,
            _ => true,
        }
    }

    /// From-scratch evaluation, rendered exactly like the memoized result.
    pub fn twin(&self, n: &Node) -> String {
        let c = |k: &u8| self.cells[k];
        match n {
            Node::Val(k) => format!("{:?}", c(k)),
            Node::Parity(k) => format!("{:?}", c(k) % 2),
            Node::Label(k) => format!("{:?}", format!("p{}", c(k) % 2)),
            Node::Sum2(a, b) => format!("{:?}", c(a) as u16 + c(b) as u16),
            Node::SingOr(d) => format!("{:?}", self.sing_a.unwrap_or(*d)),
            Node::SingPair => format!("{:?}", (self.sing_a, self.sing_b)),
            Node::TrackedSum => format!(
                "{:?}",
                self.index.iter().map(|k| 1000 + c(k) as u32).sum::<u32>()
            ),
            Node::TrackedParities => {
                format!("{:?}", self.index.iter().map(|k| c(k) % 2).collect::<Vec<u8>>())
            }
            Node::UntrackedVal(k) => format!("{:?}", c(k)),
            Node::Biased(k) => format!("{:?}", self.bias as u16 + c(k) as u16),
            Node::NameOf(s) => format!("{:?}", s.len() + self.sing_a.unwrap_or(0) as usize),
            Node::Pair(k) => format!("{:?}", (c(k), format!("tag{}", c(k) % 2))),
            Node::SecondRef(k) => format!("{:?}", format!("tag{}", c(k) % 2)),
            Node::UseSecond(k) => format!("{:?}", format!("tag{}!", c(k) % 2)),
            Node::Interned(k) => format!("{}", c(k) / 2),
            Node::ViaMemoRef(k) => format!("{:?}", c(k) as u16 + 1),
            Node::SameA(k) => format!("{:?}", self.sing_a.unwrap_or(*k)),
            Node::SameB(k) => format!("{:?}", k.wrapping_add(100)),
            Node::InternedValue(s) | Node::InternedRef(s) => s.clone(),
        }
    }
}
