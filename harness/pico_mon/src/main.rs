//! pico_mon — runs generated histories against the real `pico` and decides
//! C01–C04 with the monitors in `exec.rs`.
//!
//!   pico_mon run  --seed S --count N [--maxops M] [--profile general|gc|c04] [--samples K] [--progress FILE]
//!   pico_mon exec --ops '<json list of ops>' --cap C [--trace]
mod exec;
mod program;

use std::collections::{BTreeMap, BTreeSet};
use std::io::Write;
use std::panic::{AssertUnwindSafe, catch_unwind};

use exec::*;
use program::*;
use serde::Serialize;

/// `--quarantine`: freed memory is never handed out again (it is leaked), so the native liveness monitor
/// (`Tag::live`, which reads an id that `Drop` zeroes) sees every dangling reference deterministically instead of
/// only when the allocator happens not to have re-used the block. Used for the single-history re-runs that
/// attribute a Miri / ASan / valgrind report to a native signature.
struct QuarantineAlloc;
static QUARANTINE: std::sync::atomic::AtomicBool = std::sync::atomic::AtomicBool::new(false);
unsafe impl std::alloc::GlobalAlloc for QuarantineAlloc {
    unsafe fn alloc(&self, l: std::alloc::Layout) -> *mut u8 {
        unsafe { std::alloc::System.alloc(l) }
    }
    unsafe fn dealloc(&self, p: *mut u8, l: std::alloc::Layout) {
        if !QUARANTINE.load(std::sync::atomic::Ordering::Relaxed) {
            unsafe { std::alloc::System.dealloc(p, l) }
        }
    }
    unsafe fn realloc(&self, p: *mut u8, l: std::alloc::Layout, n: usize) -> *mut u8 {
        if QUARANTINE.load(std::sync::atomic::Ordering::Relaxed) {
            let q = unsafe { std::alloc::System.alloc(std::alloc::Layout::from_size_align_unchecked(n, l.align())) };
            if !q.is_null() {
                unsafe { std::ptr::copy_nonoverlapping(p, q, l.size().min(n)) };
            }
            q
        } else {
            unsafe { std::alloc::System.realloc(p, l, n) }
        }
    }
}
#[global_allocator]
static GLOBAL: QuarantineAlloc = QuarantineAlloc;

struct Rng(u64);
impl Rng {
    fn next(&mut self) -> u64 {
        self.0 = self.0.wrapping_add(0x9E3779B97F4A7C15);
        let mut z = self.0;
        z = (z ^ (z >> 30)).wrapping_mul(0xBF58476D1CE4E5B9);
        z = (z ^ (z >> 27)).wrapping_mul(0x94D049BB133111EB);
        z ^ (z >> 31)
    }
    fn below(&mut self, n: u64) -> u64 {
        self.next() % n
    }
    fn chance(&mut self, pct: u64) -> bool {
        self.below(100) < pct
    }
}

fn mix(a: u64, b: u64) -> u64 {
    let mut r = Rng(a ^ b.wrapping_mul(0xD1342543DE82EF95));
    r.next()
}

#[derive(Clone, Copy, PartialEq)]
enum Profile {
    General,
    Gc,
    C04,
}

fn gen_node(r: &mut Rng, profile: Profile) -> Node {
    let k = r.below(NKEYS as u64) as u8;
    let k2 = r.below(NKEYS as u64) as u8;
    let names = ["", "a", "bb"];
    let n = if profile == Profile::C04 && r.chance(60) { 17 + r.below(4) } else { r.below(17) };
    match n {
        0 => Node::Val(k),
        1 => Node::Parity(k),
        2 => Node::Label(k),
        3 => Node::Sum2(k, k2),
        4 => Node::SingOr(r.below(3) as u8),
        5 => Node::SingPair,
        6 => Node::TrackedSum,
        7 => Node::TrackedParities,
        8 => Node::UntrackedVal(k),
        9 => Node::Biased(k),
        10 => Node::NameOf(names[r.below(3) as usize].to_string()),
        11 => Node::Pair(k),
        12 => Node::SecondRef(k),
        13 => Node::UseSecond(k),
        14 => Node::Interned(k),
        15 => Node::ViaMemoRef(k),
        16 => Node::Label(k),
        17 => Node::SameA(r.below(3) as u8),
        18 => Node::SameB(r.below(3) as u8),
        19 => Node::GenX(r.below(3) as u8),
        _ => Node::GenY(r.below(3) as u8),
    }
}

fn gen_retainable(r: &mut Rng) -> Node {
    let k = r.below(NKEYS as u64) as u8;
    match r.below(8) {
        0 => Node::Val(k),
        1 => Node::Label(k),
        2 => Node::SingPair,
        3 => Node::TrackedSum,
        4 => Node::TrackedParities,
        5 => Node::Pair(k),
        _ => Node::UseSecond(k),
    }
}

/// Histories are biased to small key spaces and to the orderings the
/// hand-written tests never sample (read absent → first write, remove → re-set,
/// write → GC → call, equal write after unrelated write, equal values interned
/// by reference from two owners then GC with one owner retained).
fn gen_history(seed: u64, maxops: usize, profile: Profile) -> (Vec<Op>, usize) {
    let mut r = Rng(seed);
    let cap = 1 + r.below(3) as usize;
    let len = 5 + r.below((maxops.max(6) - 5) as u64) as usize;
    let mut ops = Vec::with_capacity(len + 8);
    // warm-up: some cells exist, sometimes nothing (absent-first orderings)
    if r.chance(75) {
        for k in 0..NKEYS {
            if r.chance(70) {
                ops.push(Op::SetCell(k, r.below(4) as u8));
                if r.chance(50) {
                    ops.push(Op::IndexCell(k));
                }
            }
        }
    }
    let gcw = if profile == Profile::Gc { 18 } else { 6 };
    while ops.len() < len {
        let x = r.below(100);
        let k = r.below(NKEYS as u64) as u8;
        let v = r.below(4) as u8;
        if x < 40 {
            ops.push(Op::Call(gen_node(&mut r, profile)));
        } else if x < 52 {
            ops.push(Op::SetCell(k, v));
        } else if x < 56 {
            ops.push(Op::RemoveCell(k));
        } else if x < 62 {
            ops.push(if r.chance(50) { Op::SetA(v) } else { Op::SetB(v) });
        } else if x < 65 {
            ops.push(if r.chance(50) { Op::RemoveA } else { Op::RemoveB });
        } else if x < 70 {
            ops.push(Op::IndexCell(k));
        } else if x < 73 {
            ops.push(Op::UnindexCell(k));
        } else if x < 75 {
            ops.push(Op::SetBias(v));
        } else if x < 75 + gcw {
            ops.push(Op::Gc);
        } else if x < 75 + gcw + 5 {
            ops.push(Op::Retain(gen_retainable(&mut r)));
        } else if x < 75 + gcw + 8 {
            ops.push(Op::ClearRetain(r.below(3) as usize));
        } else if x < 75 + gcw + 9 {
            ops.push(Op::NeverGc(gen_retainable(&mut r)));
        } else if x < 75 + gcw + 10 {
            ops.push(Op::InternTop(v));
        } else if x < 75 + gcw + 12 {
            ops.push(Op::LookupAll);
        } else {
            // scripted hostile snippets
            match r.below(7) {
                0 => {
                    // read absent singleton -> first write -> read again
                    let n = if r.chance(50) { Node::SingOr(v) } else { Node::SingPair };
                    ops.push(Op::RemoveA);
                    ops.push(Op::Call(n.clone()));
                    ops.push(Op::SetA(v.wrapping_add(1)));
                    ops.push(Op::Call(n));
                }
                1 => {
                    // equal write after an unrelated write
                    ops.push(Op::Call(Node::Label(k)));
                    ops.push(Op::SetB(v));
                    ops.push(Op::SetCell(k, v));
                    ops.push(Op::SetCell(k, v));
                    ops.push(Op::Call(Node::Label(k)));
                }
                2 => {
                    // two owners intern_ref equal values; GC keeps only one owner; lookup
                    let k2 = (k + 1) % NKEYS;
                    ops.push(Op::SetCell(k, v));
                    ops.push(Op::SetCell(k2, v));
                    ops.push(Op::Call(Node::SecondRef(k)));
                    ops.push(Op::Call(Node::SecondRef(k2)));
                    if r.chance(50) {
                        ops.push(Op::Retain(Node::UseSecond(k2)));
                    }
                    ops.push(Op::Gc);
                    ops.push(Op::Call(Node::SecondRef(k2)));
                    ops.push(Op::LookupAll);
                }
                3 => {
                    // remove -> re-set same key
                    ops.push(Op::Call(Node::Parity(k)));
                    ops.push(Op::RemoveCell(k));
                    ops.push(Op::SetCell(k, v));
                    ops.push(Op::Call(Node::Parity(k)));
                }
                4 => {
                    // write -> GC -> call (backdating across GC)
                    ops.push(Op::Call(Node::Label(k)));
                    ops.push(Op::SetCell(k, v.wrapping_add(2)));
                    ops.push(Op::Gc);
                    ops.push(Op::Call(Node::Label(k)));
                }
                5 => {
                    // tracked read before the counter exists -> first tracked mutation
                    ops.push(Op::Call(Node::TrackedSum));
                    ops.push(Op::SetCell(k, v));
                    ops.push(Op::IndexCell(k));
                    ops.push(Op::Call(Node::TrackedSum));
                }
                _ => {
                    // doc scenario: re-intern after owner re-executed, GC, second consumer
                    ops.push(Op::Call(Node::UseSecond(k)));
                    ops.push(Op::SetCell(k, v.wrapping_add(2)));
                    ops.push(Op::Call(Node::UseSecond(k)));
                    ops.push(Op::Gc);
                    ops.push(Op::Call(Node::SecondRef(k)));
                    ops.push(Op::LookupAll);
                }
            }
        }
    }
    (ops, cap)
}

#[derive(Serialize, Clone)]
struct Finding {
    property: String,
    rule: String,
    func: String,
    detail: String,
    signature: String,
    history_seed: u64,
    cap: usize,
    shrunk_ops: Vec<Op>,
    original_len: usize,
}

enum Outcome {
    Done(Vec<Violation>, Stats, Vec<String>),
    Panicked(String, usize),
}

fn run_ops(ops: &[Op], cap: usize, trace: bool) -> Outcome {
    let mut ex = Exec::new(cap, trace);
    let r = catch_unwind(AssertUnwindSafe(|| {
        for op in ops {
            ex.step(op);
        }
    }));
    match r {
        Ok(()) => {
            let (v, s, t) = ex.finish();
            Outcome::Done(v, s, t)
        }
        Err(e) => {
            let msg = if let Some(s) = e.downcast_ref::<String>() {
                s.clone()
            } else if let Some(s) = e.downcast_ref::<&str>() {
                s.to_string()
            } else {
                "non-string panic".to_string()
            };
            let at = ex.op_index;
            ex.forget();
            Outcome::Panicked(msg, at)
        }
    }
}

fn normalise_panic(msg: &str) -> String {
    let m: String = msg.chars().take(80).collect();
    m.chars().map(|c| if c.is_ascii_digit() { '#' } else { c }).collect()
}

fn violation_keys(ops: &[Op], cap: usize) -> BTreeSet<String> {
    match run_ops(ops, cap, false) {
        Outcome::Done(v, _, _) => v.iter().map(|x| x.key()).collect(),
        Outcome::Panicked(msg, _) => {
            let mut s = BTreeSet::new();
            s.insert(format!("C03/panic/{}", normalise_panic(&msg)));
            s
        }
    }
}

/// Greedy delta-debugging: drop ops while the same rule still fires.
fn shrink(ops: &[Op], cap: usize, key: &str) -> Vec<Op> {
    let mut cur: Vec<Op> = ops.to_vec();
    let mut chunk = (cur.len() / 2).max(1);
    loop {
        let mut i = 0;
        let mut progressed = false;
        while i < cur.len() {
            let end = (i + chunk).min(cur.len());
            let mut cand = cur[..i].to_vec();
            cand.extend_from_slice(&cur[end..]);
            if !cand.is_empty() && violation_keys(&cand, cap).contains(key) {
                cur = cand;
                progressed = true;
            } else {
                i += chunk;
            }
        }
        if chunk == 1 && !progressed {
            break;
        }
        if !progressed {
            chunk = (chunk / 2).max(1);
        }
    }
    cur
}

fn arg(args: &[String], name: &str) -> Option<String> {
    args.iter().position(|a| a == name).and_then(|i| args.get(i + 1).cloned())
}

#[derive(Serialize)]
struct RunReport {
    seed: u64,
    profile: String,
    histories: usize,
    nontrivial_c01: usize,
    nontrivial_c02: usize,
    nontrivial_c03: usize,
    nontrivial_c04: usize,
    distinct_histories: usize,
    panics: usize,
    stats: BTreeMap<String, usize>,
    findings: Vec<Finding>,
    samples: Vec<serde_json::Value>,
    memo_identity_conflicts: Vec<String>,
    memo_identities: usize,
}

fn add_stats(total: &mut BTreeMap<String, usize>, s: &Stats) {
    let v = serde_json::to_value(s).unwrap();
    for (k, x) in v.as_object().unwrap() {
        *total.entry(k.clone()).or_default() += x.as_u64().unwrap() as usize;
    }
}

fn main() {
    let args: Vec<String> = std::env::args().collect();
    let cmd = args.get(1).map(|s| s.as_str()).unwrap_or("");
    if args.iter().any(|a| a == "--quarantine") {
        QUARANTINE.store(true, std::sync::atomic::Ordering::Relaxed);
    }
    // keep panic messages of caught panics quiet
    if std::env::var("PICO_MON_LOUD").is_err() {
        std::panic::set_hook(Box::new(|_| {}));
    }
    match cmd {
        "exec" => {
            let ops: Vec<Op> = serde_json::from_str(&arg(&args, "--ops").expect("--ops")).expect("ops json");
            let cap: usize = arg(&args, "--cap").map(|s| s.parse().unwrap()).unwrap_or(1);
            match run_ops(&ops, cap, true) {
                Outcome::Done(v, s, t) => {
                    for l in t {
                        println!("{l}");
                    }
                    println!("{}", serde_json::to_string(&serde_json::json!({"violations": v, "stats": s})).unwrap());
                }
                Outcome::Panicked(m, at) => {
                    println!("{}", serde_json::json!({"panic": m, "at_op": at}));
                }
            }
        }
        "run" => {
            let seed: u64 = arg(&args, "--seed").map(|s| s.parse().unwrap()).unwrap_or(1);
            let count: usize = arg(&args, "--count").map(|s| s.parse().unwrap()).unwrap_or(100);
            let maxops: usize = arg(&args, "--maxops").map(|s| s.parse().unwrap()).unwrap_or(40);
            let nsamples: usize = arg(&args, "--samples").map(|s| s.parse().unwrap()).unwrap_or(2);
            let no_shrink = args.iter().any(|a| a == "--no-shrink");
            let pname = arg(&args, "--profile").unwrap_or("general".into());
            let profile = match pname.as_str() {
                "gc" => Profile::Gc,
                "c04" => Profile::C04,
                _ => Profile::General,
            };
            let mut progress = arg(&args, "--progress").map(|p| std::fs::File::create(p).expect("progress file"));
            let mut total = BTreeMap::new();
            let mut findings: Vec<Finding> = vec![];
            let mut seen_keys: BTreeMap<String, usize> = BTreeMap::new();
            let mut distinct = BTreeSet::new();
            let (mut nt1, mut nt2, mut nt3, mut nt4, mut panics) = (0, 0, 0, 0, 0);
            let mut samples = vec![];
            let start: usize = arg(&args, "--start").map(|s| s.parse().unwrap()).unwrap_or(0);
            let announce = args.iter().any(|a| a == "--announce");
            let only: Option<u64> = arg(&args, "--only-hseed").map(|s| s.parse().unwrap());
            for i in start..count {
                let hseed = only.unwrap_or_else(|| mix(seed, i as u64));
                if announce {
                    println!("#H {i} {hseed}");
                }
                let (ops, cap) = gen_history(hseed, maxops, profile);
                if let Some(f) = progress.as_mut() {
                    let _ = writeln!(f, "{hseed}");
                    let _ = f.flush();
                }
                distinct.insert(mix(hseed, ops.len() as u64));
                let outcome = run_ops(&ops, cap, i < start + nsamples);
                let mut keys: Vec<(String, Violation)> = vec![];
                match outcome {
                    Outcome::Done(v, s, t) => {
                        add_stats(&mut total, &s);
                        if s.changed_between_calls > 0 {
                            nt1 += 1;
                        }
                        if s.equal_writes > 0 || s.backdate_opportunities > 0 || s.reuses > 0 || s.reexec_justified_by_source > 0 {
                            nt2 += 1;
                        }
                        if s.gcs > 0 && (s.retained_survivals_checked > 0) {
                            nt3 += 1;
                        }
                        if s.c04_pairs > 1 {
                            nt4 += 1;
                        }
                        if i < start + nsamples {
                            samples.push(serde_json::json!({"history_seed": hseed, "lru_capacity": cap, "ops": ops, "trace_head": t.iter().take(60).collect::<Vec<_>>()}));
                        }
                        for x in v {
                            keys.push((x.key(), x));
                        }
                    }
                    Outcome::Panicked(msg, at) => {
                        panics += 1;
                        let key = format!("C03/panic/{}", normalise_panic(&msg));
                        keys.push((
                            key,
                            Violation { property: "C03", rule: "panic", func: normalise_panic(&msg), detail: msg, op_index: at, class: None },
                        ));
                    }
                }
                let mut done_here = BTreeSet::new();
                for (key, v) in keys {
                    if !done_here.insert(key.clone()) {
                        continue;
                    }
                    let n = seen_keys.entry(key.clone()).or_default();
                    *n += 1;
                    // shrink the first few occurrences of each key (signature includes the shrunk shape)
                    if *n > 3 {
                        continue;
                    }
                    let shrunk = if no_shrink { ops.clone() } else { shrink(&ops, cap, &key) };
                    let kinds: Vec<String> = shrunk.iter().map(|o| o.kind()).collect();
                    let signature = match &v.class {
                        Some(c) => format!("{}/{}:{}", v.property, v.rule, c),
                        None => format!("{}:{}", key, kinds.join(",")),
                    };
                    findings.push(Finding {
                        property: v.property.to_string(),
                        rule: v.rule.to_string(),
                        func: v.func.clone(),
                        detail: v.detail.clone(),
                        signature,
                        history_seed: hseed,
                        cap,
                        shrunk_ops: shrunk,
                        original_len: ops.len(),
                    });
                }
            }
            let mut conflicts = vec![];
            let mut identities = 0;
            #[cfg(isographlabs_isograph_verif)]
            {
                for line in pico::verif::dump_memo_identities().lines() {
                    identities += 1;
                    if line.split('\t').count() > 2 {
                        conflicts.push(line.to_string());
                    }
                }
            }
            for (k, n) in &seen_keys {
                total.insert(format!("violations::{k}"), *n);
            }
            let rep = RunReport {
                seed,
                profile: pname,
                histories: count - start,
                nontrivial_c01: nt1,
                nontrivial_c02: nt2,
                nontrivial_c03: nt3,
                nontrivial_c04: nt4,
                distinct_histories: distinct.len(),
                panics,
                stats: total,
                findings,
                samples,
                memo_identity_conflicts: conflicts,
                memo_identities: identities,
            };
            println!("{}", serde_json::to_string(&rep).unwrap());
        }
        _ => {
            eprintln!("usage: pico_mon run|exec ...");
            std::process::exit(2);
        }
    }
}
