//! History executor + monitors for C01 (memo == twin), C02 (minimal
//! re-execution / backdating), C03 (retention across GC, references stay
//! readable) and C04 (identical-signature functions do not share results).
use std::collections::{BTreeMap, BTreeSet, HashMap};

use pico::{Database, MemoRef, RetainedQuery, clear_retain, retain};
use serde::{Deserialize, Serialize};

use crate::program::*;

#[derive(Debug, Clone, PartialEq, Serialize, Deserialize)]
pub enum Op {
    SetCell(u8, u8),
    RemoveCell(u8),
    SetA(u8),
    RemoveA,
    SetB(u8),
    RemoveB,
    IndexCell(u8),
    UnindexCell(u8),
    SetBias(u8),
    Call(Node),
    Retain(Node),
    ClearRetain(usize),
    NeverGc(Node),
    InternTop(u8),
    Gc,
    LookupAll,
}

impl Op {
    pub fn kind(&self) -> String {
        match self {
            Op::SetCell(..) => "set".into(),
            Op::RemoveCell(_) => "remove".into(),
            Op::SetA(_) | Op::SetB(_) => "set_singleton".into(),
            Op::RemoveA | Op::RemoveB => "remove_singleton".into(),
            Op::IndexCell(_) => "tracked_insert".into(),
            Op::UnindexCell(_) => "tracked_remove".into(),
            Op::SetBias(_) => "tracked_set".into(),
            Op::Call(n) => format!("call:{}", n.func()),
            Op::Retain(n) => format!("retain:{}", n.func()),
            Op::ClearRetain(_) => "clear_retain".into(),
            Op::NeverGc(n) => format!("never_gc:{}", n.func()),
            Op::InternTop(_) => "intern_top".into(),
            Op::Gc => "gc".into(),
            Op::LookupAll => "lookup_all".into(),
        }
    }
}

#[derive(Debug, Clone, Serialize)]
pub struct Violation {
    pub property: &'static str,
    pub rule: &'static str,
    pub func: String,
    pub detail: String,
    pub op_index: usize,
    /// cause class computed by the monitor; when present it replaces the shrunk-shape part of the signature
    pub class: Option<String>,
}

impl Violation {
    pub fn key(&self) -> String {
        format!("{}/{}/{}", self.property, self.rule, self.func)
    }
}

#[derive(Clone)]
pub enum Handle {
    U8(MemoRef<u8>),
    Str(MemoRef<String>),
    Pair(MemoRef<(u8, Tag)>),
    Tag(MemoRef<Tag>),
    OptPair(MemoRef<(Option<u8>, Option<u8>)>),
    U32(MemoRef<u32>),
    VecU8(MemoRef<Vec<u8>>),
}

impl Handle {
    pub fn lookup(&self, db: &MonDb) -> String {
        match self {
            Handle::U8(m) => format!("{:?}", m.lookup(db)),
            Handle::Str(m) => format!("{:?}", m.lookup(db)),
            Handle::Pair(m) => format!("{:?}", m.lookup(db)),
            Handle::Tag(m) => format!("{:?}", m.lookup(db)),
            Handle::OptPair(m) => format!("{:?}", m.lookup(db)),
            Handle::U32(m) => format!("{:?}", m.lookup(db)),
            Handle::VecU8(m) => format!("{:?}", m.lookup(db)),
        }
    }
    fn retain(&self, db: &MonDb) -> RetainedQuery {
        match self {
            Handle::U8(m) => retain(db, *m),
            Handle::Str(m) => retain(db, *m),
            Handle::Pair(m) => retain(db, *m),
            Handle::Tag(m) => retain(db, *m),
            Handle::OptPair(m) => retain(db, *m),
            Handle::U32(m) => retain(db, *m),
            Handle::VecU8(m) => retain(db, *m),
        }
    }
}

/// Which nodes can be retained (their top-level call yields a MemoRef of the node itself).
pub fn retainable(n: &Node) -> bool {
    matches!(
        n,
        Node::Val(_)
            | Node::Label(_)
            | Node::SingPair
            | Node::TrackedSum
            | Node::TrackedParities
            | Node::Pair(_)
            | Node::UseSecond(_)
    )
}

/// Top-level invocation. Returns the rendered result, the sequence of
/// top-level nodes actually called (in order), the handle of the node itself
/// (raw functions) and an optional inner handle (MemoRef *returned as value*).
pub fn invoke(db: &MonDb, n: &Node) -> (String, Vec<Node>, Option<Handle>, Option<Handle>) {
    let one = |n: &Node| vec![n.clone()];
    match n {
        Node::Val(k) => {
            let m = val(db, cid(*k));
            register_val_memoref(m, *k);
            (format!("{:?}", m.lookup(db)), one(n), Some(Handle::U8(m)), None)
        }
        Node::Parity(k) => (format!("{:?}", parity(db, cid(*k))), one(n), None, None),
        Node::Label(k) => {
            let m = label(db, cid(*k));
            (format!("{:?}", m.lookup(db)), one(n), Some(Handle::Str(m)), None)
        }
        Node::Sum2(a, b) => (format!("{:?}", sum2(db, cid(*a), &cid(*b))), one(n), None, None),
        Node::SingOr(d) => (format!("{:?}", sing_or(db, *d)), one(n), None, None),
        Node::SingPair => {
            let m = sing_pair(db);
            (format!("{:?}", m.lookup(db)), one(n), Some(Handle::OptPair(m)), None)
        }
        Node::TrackedSum => {
            let m = tracked_sum(db);
            (format!("{:?}", m.lookup(db)), one(n), Some(Handle::U32(m)), None)
        }
        Node::TrackedParities => {
            let m = tracked_parities(db);
            (format!("{:?}", m.lookup(db)), one(n), Some(Handle::VecU8(m)), None)
        }
        Node::UntrackedVal(k) => (format!("{:?}", untracked_val(db, *k)), one(n), None, None),
        Node::Biased(k) => (format!("{:?}", biased(db, cid(*k))), one(n), None, None),
        Node::NameOf(s) => (format!("{:?}", name_of(db, s)), one(n), None, None),
        Node::Pair(k) => {
            let m = pair(db, cid(*k));
            (format!("{:?}", m.lookup(db)), one(n), Some(Handle::Pair(m)), None)
        }
        Node::SecondRef(k) => {
            let m = *second_ref(db, cid(*k));
            (format!("{:?}", m.lookup(db)), one(n), None, Some(Handle::Tag(m)))
        }
        Node::UseSecond(k) => {
            let m = use_second(db, cid(*k));
            (format!("{:?}", m.lookup(db)), one(n), Some(Handle::Str(m)), None)
        }
        Node::Interned(k) => {
            let m = *interned(db, cid(*k));
            (format!("{}", m.lookup(db)), one(n), None, Some(Handle::U8(m)))
        }
        Node::ViaMemoRef(k) => {
            // contract: the producer is (re-)called at top level before its MemoRef is passed on
            let m = val(db, cid(*k));
            register_val_memoref(m, *k);
            let r = format!("{:?}", via_memoref(db, m));
            (r, vec![Node::Val(*k), n.clone()], None, None)
        }
        Node::SameA(k) => (format!("{:?}", a::same(db, *k)), one(n), None, None),
        Node::SameB(k) => (format!("{:?}", b::same(db, *k)), one(n), None, None),
        Node::GenX(k) => (format!("{:?}", gen_x::same(db, *k)), one(n), None, None),
        Node::GenY(k) => (format!("{:?}", gen_y::same(db, *k)), one(n), None, None),
        Node::InternedValue(_) | Node::InternedRef(_) => unreachable!(),
    }
}

#[derive(Default, Clone)]
struct NodeState {
    last_exit: usize,
    last_value: String,
    value_changed: usize,
    deps_src: BTreeSet<Src>,
    deps_node: BTreeMap<Node, String>,
    /// in the guaranteed-retained set at every GC since its last execution
    alive_guaranteed: bool,
    gc_since_exec: bool,
    writes_at_exec: usize,
    executions: usize,
    needed: usize,
}

#[derive(Default, Debug, Clone, Serialize)]
pub struct Stats {
    pub ops: usize,
    pub top_calls: usize,
    pub nested_deps_checked: usize,
    pub executions: usize,
    pub reuses: usize,
    pub reexec_justified_by_source: usize,
    pub reexec_justified_by_child: usize,
    pub reexec_after_gc_discard: usize,
    pub equal_writes: usize,
    pub backdate_opportunities: usize,
    pub backdates_observed: usize,
    pub gcs: usize,
    pub retained_survivals_checked: usize,
    pub handle_lookups_checked: usize,
    pub absent_then_written: usize,
    pub c04_pairs: usize,
    pub events: usize,
    /// C01 non-trivial: a node called twice with a different twin value in between
    pub changed_between_calls: usize,
}

/// Model of the one interned node that all `intern_ref`s of equal values share.
#[derive(Clone, Debug)]
struct RefModel {
    /// node whose cached value holds the pointee
    owner: Node,
    /// how many times `owner` had executed when the pointer was taken (a re-execution moves the value)
    owner_exec: usize,
    /// epoch (count of effective writes) in which the pointer was last (re)set
    stamp: usize,
    /// a GC since then may have discarded the interned node (no guaranteed-retained node depended on it): a
    /// later intern_ref in the same epoch may or may not have re-created it, so the pointee is not predictable
    uncertain: bool,
}

pub struct Exec {
    pub db: MonDb,
    pub model: Model,
    pub cap: usize,
    pub clock: usize,
    pub writes: usize,
    nodes: HashMap<Node, NodeState>,
    src_changed: HashMap<Src, usize>,
    index_version: usize,
    last_call: HashMap<Node, usize>,
    last_twin_at_call: HashMap<Node, String>,
    retained_count: BTreeMap<Node, usize>,
    retained: Vec<Option<(Node, RetainedQuery)>>,
    handles: BTreeMap<Node, (Handle, bool)>,
    inner_handles: BTreeMap<Node, (Handle, String, usize)>,
    absent_read: BTreeSet<Src>,
    /// text -> nodes that interned it by reference (intern_ref identity is the value)
    ref_owners: HashMap<String, BTreeSet<Node>>,
    /// text -> which owner's value the single interned node points to, following pico's documented re-pointing
    /// rule (first intern_ref of the value in an epoch re-points; later ones in the same epoch do not).
    ref_model: HashMap<String, RefModel>,
    /// nodes whose cached result was computed from a dangling / re-used reference
    tainted: BTreeSet<Node>,
    pub violations: Vec<Violation>,
    pub stats: Stats,
    pub trace: Vec<String>,
    pub keep_trace: bool,
    pub op_index: usize,
}

impl Exec {
    pub fn new(cap: usize, keep_trace: bool) -> Self {
        reset_tls();
        Exec {
            db: MonDb::new(cap),
            model: Model::default(),
            cap,
            clock: 1,
            writes: 0,
            nodes: HashMap::new(),
            src_changed: HashMap::new(),
            index_version: 0,
            last_call: HashMap::new(),
            last_twin_at_call: HashMap::new(),
            retained_count: BTreeMap::new(),
            retained: Vec::new(),
            handles: BTreeMap::new(),
            inner_handles: BTreeMap::new(),
            absent_read: BTreeSet::new(),
            ref_owners: HashMap::new(),
            ref_model: HashMap::new(),
            tainted: BTreeSet::new(),
            violations: Vec::new(),
            stats: Stats::default(),
            trace: Vec::new(),
            keep_trace,
            op_index: 0,
        }
    }

    /// Leak everything that could panic in `Drop` (RetainedQuery) — used after a caught panic.
    pub fn forget(self) {
        std::mem::forget(self);
    }

    pub fn finish(mut self) -> (Vec<Violation>, Stats, Vec<String>) {
        // RetainedQuery panics on drop unless cleared
        let retained = std::mem::take(&mut self.retained);
        for r in retained.into_iter().flatten() {
            clear_retain(&self.db, r.1);
        }
        (self.violations, self.stats, self.trace)
    }

    fn violate(&mut self, property: &'static str, rule: &'static str, func: &str, detail: String) {
        self.violations.push(Violation {
            property,
            rule,
            func: func.to_string(),
            detail,
            op_index: self.op_index,
            class: None,
        });
    }

    /// A reference handed out by pico points to a dropped (or re-used) value.
    fn violate_reference(&mut self, rule: &'static str, func: &str, text: &str, detail: String) {
        let n = self.ref_owners.get(text.trim_matches('"')).map(|s| s.len()).unwrap_or(0);
        // Where does pico's documented re-pointing rule say the shared node points? If that owner's value is
        // certainly still alive (owner not re-executed since, guaranteed retained at every GC since), the dangling /
        // wrong read is NOT the known shared-identity defect (whose pointee is a collected or superseded owner).
        let predicted_alive = self.ref_model.get(text.trim_matches('"')).and_then(|m| {
            let st = self.nodes.get(&m.owner)?;
            Some(!m.uncertain && st.executions == m.owner_exec && st.alive_guaranteed)
        }).unwrap_or(false);
        let class = if predicted_alive {
            "intern_ref-pointee-not-the-one-the-repointing-rule-selects".to_string()
        } else if n >= 2 {
            "intern_ref-identity-shared-by-several-owners".to_string()
        } else {
            format!("intern_ref-owners={n}")
        };
        self.violations.push(Violation {
            property: "C03",
            rule,
            func: func.to_string(),
            detail: format!("{detail}; owners that interned this value by reference: {:?}", self.ref_owners.get(text.trim_matches('"'))),
            op_index: self.op_index,
            class: Some(class),
        });
    }

    fn src_write(&mut self, s: Src) {
        self.clock += 1;
        self.writes += 1;
        self.src_changed.insert(s.clone(), self.clock);
        if self.absent_read.remove(&s) {
            self.stats.absent_then_written += 1;
        }
    }

    /// Is the op executable under the documented usage contracts? (Any sub-list
    /// of a history is a history: inapplicable ops are skipped.)
    pub fn applicable(&self, op: &Op) -> bool {
        match op {
            Op::RemoveCell(k) => self.model.cells.contains_key(k),
            Op::RemoveA => self.model.sing_a.is_some(),
            Op::RemoveB => self.model.sing_b.is_some(),
            Op::IndexCell(k) => self.model.cells.contains_key(k) && !self.model.index.contains(k),
            Op::UnindexCell(k) => self.model.index.contains(k),
            Op::Call(n) => self.model.defined(n),
            Op::Retain(n) | Op::NeverGc(n) => retainable(n) && self.model.defined(n),
            Op::ClearRetain(i) => self.retained.get(*i).is_some_and(|r| r.is_some()),
            _ => true,
        }
    }

    pub fn step(&mut self, op: &Op) {
        self.stats.ops += 1;
        if !self.applicable(op) {
            return;
        }
        if self.keep_trace {
            self.trace.push(format!("op[{}] {:?}", self.op_index, op));
        }
        match op {
            Op::SetCell(k, v) => {
                let old = self.model.cells.insert(*k, *v);
                self.db.set(Cell { k: *k, v: *v });
                if old == Some(*v) {
                    self.stats.equal_writes += 1;
                    self.clock += 1;
                } else {
                    self.src_write(Src::Cell(*k));
                }
            }
            Op::RemoveCell(k) => {
                if self.model.index.contains(k) {
                    // contract (as isograph's remove_iso_literal): drop the map entry, then the source
                    self.db.get_index_mut().tracked().0.remove(k);
                    self.model.index.remove(k);
                    self.index_version += 1;
                    self.src_write(Src::IndexCounter);
                }
                self.model.cells.remove(k);
                self.db.remove(cid(*k));
                self.src_write(Src::Cell(*k));
            }
            Op::SetA(v) => {
                let old = self.model.sing_a.replace(*v);
                self.db.set(SingA { v: *v });
                if old == Some(*v) {
                    self.stats.equal_writes += 1;
                    self.clock += 1;
                } else {
                    self.src_write(Src::SingA);
                }
            }
            Op::RemoveA => {
                self.model.sing_a = None;
                self.db.remove_singleton::<SingA>();
                self.src_write(Src::SingA);
            }
            Op::SetB(v) => {
                let old = self.model.sing_b.replace(*v);
                self.db.set(SingB { v: *v });
                if old == Some(*v) {
                    self.stats.equal_writes += 1;
                    self.clock += 1;
                } else {
                    self.src_write(Src::SingB);
                }
            }
            Op::RemoveB => {
                self.model.sing_b = None;
                self.db.remove_singleton::<SingB>();
                self.src_write(Src::SingB);
            }
            Op::IndexCell(k) => {
                self.db.get_index_mut().tracked().0.insert(*k, cid(*k));
                self.model.index.insert(*k);
                self.index_version += 1;
                self.src_write(Src::IndexCounter);
            }
            Op::UnindexCell(k) => {
                self.db.get_index_mut().tracked().0.remove(k);
                self.model.index.remove(k);
                self.index_version += 1;
                self.src_write(Src::IndexCounter);
            }
            Op::SetBias(v) => {
                self.db.get_cfg_mut().tracked().bias = *v;
                self.model.bias = *v;
                // every tracked() mutable access bumps the counter, equal value or not
                self.src_write(Src::CfgCounter);
            }
            Op::Call(n) => {
                self.call(n);
            }
            Op::Retain(n) => {
                self.call(n);
                if let Some((h, _)) = self.handles.get(n) {
                    let rq = h.retain(&self.db);
                    self.retained.push(Some((n.clone(), rq)));
                    *self.retained_count.entry(n.clone()).or_default() += 1;
                }
            }
            Op::NeverGc(n) => {
                self.call(n);
                if let Some((h, _)) = self.handles.get(n) {
                    h.retain(&self.db).never_garbage_collect();
                    *self.retained_count.entry(n.clone()).or_default() += 1;
                }
            }
            Op::ClearRetain(i) => {
                if let Some((n, rq)) = self.retained[*i].take() {
                    clear_retain(&self.db, rq);
                    let c = self.retained_count.get_mut(&n).unwrap();
                    *c -= 1;
                    if *c == 0 {
                        self.retained_count.remove(&n);
                    }
                }
            }
            Op::InternTop(v) => {
                let m = self.db.intern_value(*v);
                let got = *m.lookup(&self.db);
                if got != *v {
                    self.violate("C01", "intern-value-mismatch", "<intern_value>", format!("interned {v} read {got}"));
                }
            }
            Op::Gc => self.gc(),
            Op::LookupAll => self.lookup_all("lookup_all"),
        }
        self.op_index += 1;
    }

    fn call(&mut self, n: &Node) {
        self.clock += 1;
        let expected = self.model.twin(n);
        if let Some(prev) = self.last_twin_at_call.get(n) {
            if *prev != expected {
                self.stats.changed_between_calls += 1;
            }
        }
        self.last_twin_at_call.insert(n.clone(), expected.clone());
        let (got, tops, handle, inner) = invoke(&self.db, n);
        self.stats.top_calls += 1;
        for t in &tops {
            self.clock += 1;
            self.last_call.insert(t.clone(), self.clock);
        }
        let events = take_log();
        self.stats.events += events.len();
        self.process_events(&events);
        if got != expected {
            let node_value_ok = self.nodes.get(n).map(|st| st.last_value == expected).unwrap_or(false);
            if matches!(n, Node::SecondRef(_)) && (got.contains("<DANGLING>") || node_value_ok) {
                // the node's own result (a MemoRef) is right, what it points to is not
                let rule = if got.contains("<DANGLING>") { "dangling-reference" } else { "reference-wrong-value" };
                self.violate_reference(rule, n.func(), &expected, format!("top-level lookup of the reference returned by {n:?} read {got}, expected {expected}"));
            } else if self.tainted.contains(n) {
                // consequence of a dangling reference already reported under C03
            } else {
                let prop = if matches!(n, Node::SameA(_) | Node::SameB(_) | Node::GenX(_) | Node::GenY(_)) { "C04" } else { "C01" };
                self.violate(prop, "memo-ne-twin", n.func(), format!("{n:?} returned {got}, from-scratch {expected}"));
            }
        }
        if matches!(n, Node::SameA(_) | Node::SameB(_) | Node::GenX(_) | Node::GenY(_)) {
            self.stats.c04_pairs += 1;
        }
        if let Some(h) = handle {
            self.handles.insert(n.clone(), (h, true));
        }
        if let Some(h) = inner {
            self.inner_handles.insert(n.clone(), (h, expected.clone(), self.writes));
        }
        if self.keep_trace {
            self.trace.push(format!("  -> {got} (twin {expected})"));
        }
    }

    fn process_events(&mut self, events: &[Ev]) {
        // stack of (node, deps_src, deps_node)
        let mut stack: Vec<(Node, BTreeSet<Src>, BTreeMap<Node, String>)> = vec![];
        let mut tainted_now: BTreeSet<Node> = BTreeSet::new();
        for ev in events {
            self.clock += 1;
            if self.keep_trace {
                self.trace.push(format!("    {}{:?}", "  ".repeat(stack.len()), ev));
            }
            match ev {
                Ev::Enter(n) => {
                    self.stats.executions += 1;
                    self.check_reexecution(n);
                    stack.push((n.clone(), BTreeSet::new(), BTreeMap::new()));
                }
                Ev::Read(s, v) => {
                    if let Some(top) = stack.last_mut() {
                        top.1.insert(s.clone());
                    }
                    // C01 on the read itself
                    let expect = match s {
                        Src::Cell(k) => Some(self.model.cells.get(k).copied()),
                        Src::SingA => Some(self.model.sing_a),
                        Src::SingB => Some(self.model.sing_b),
                        _ => None,
                    };
                    if let Some(e) = expect {
                        if e != *v {
                            let f = stack.last().map(|t| t.0.func()).unwrap_or("?").to_string();
                            self.violate("C01", "source-read-ne-model", &f, format!("read {s:?} = {v:?}, model {e:?}"));
                        }
                        if v.is_none() {
                            self.absent_read.insert(s.clone());
                        }
                    }
                }
                Ev::Dep(child, rendered) => {
                    if let Some(top) = stack.last_mut() {
                        top.2.insert(child.clone(), rendered.clone());
                    }
                    self.stats.nested_deps_checked += 1;
                    let is_pseudo = matches!(child, Node::InternedValue(_) | Node::InternedRef(_));
                    if let (Node::InternedRef(text), Some(top)) = (child, stack.last()) {
                        self.ref_owners.entry(text.clone()).or_default().insert(top.0.clone());
                        if let Node::SecondRef(k) = &top.0 {
                            let owner = Node::Pair(*k);
                            let owner_exec = self.nodes.get(&owner).map(|st| st.executions).unwrap_or(0);
                            let epoch = self.writes;
                            match self.ref_model.get_mut(text) {
                                Some(m) if m.stamp == epoch => {} // same epoch: pico keeps the pointer it has
                                _ => {
                                    self.ref_model.insert(text.clone(), RefModel { owner, owner_exec, stamp: epoch, uncertain: false });
                                }
                            }
                        }
                    }
                    if self.tainted.contains(child) || tainted_now.contains(child) {
                        for fr in &stack {
                            tainted_now.insert(fr.0.clone());
                        }
                    } else if !is_pseudo && self.model.defined(child) {
                        let e = self.model.twin(child);
                        let child_value_ok = self.nodes.get(child).map(|st| st.last_value == e).unwrap_or(false);
                        if e != *rendered && matches!(child, Node::SecondRef(_)) && child_value_ok {
                            let f = stack.last().map(|t| t.0.func()).unwrap_or("?").to_string();
                            for fr in &stack {
                                tainted_now.insert(fr.0.clone());
                            }
                            if !rendered.contains("<DANGLING>") {
                                self.violate_reference("reference-wrong-value", &f, &e, format!("the reference returned by {child:?} read {rendered}, expected {e}"));
                            }
                        } else if e != *rendered {
                            let f = stack.last().map(|t| t.0.func()).unwrap_or("?").to_string();
                            self.violate(
                                "C01",
                                "nested-value-ne-twin",
                                &f,
                                format!("{child:?} seen as {rendered}, from-scratch {e}"),
                            );
                        }
                    }
                }
                Ev::Dangling(what) => {
                    let f = stack.last().map(|t| t.0.func()).unwrap_or("?").to_string();
                    for fr in &stack {
                        tainted_now.insert(fr.0.clone());
                    }
                    // the value the reference should have: the owner's (second_ref) current result
                    let text = match stack.last().map(|t| &t.0) {
                        Some(Node::UseSecond(k)) => self.nodes.get(&Node::SecondRef(*k)).map(|st| st.last_value.clone()).unwrap_or_default(),
                        _ => String::new(),
                    };
                    self.violate_reference("dangling-reference", &f, &text, what.clone());
                }
                Ev::Exit(n, rendered) => {
                    let (node, ds, dn) = stack.pop().expect("harness: balanced log");
                    debug_assert!(node == *n);
                    if tainted_now.contains(n) {
                        self.tainted.insert(n.clone());
                    } else {
                        self.tainted.remove(n);
                    }
                    let clock = self.clock;
                    let writes = self.writes;
                    let st = self.nodes.entry(n.clone()).or_default();
                    let first = st.executions == 0;
                    st.executions += 1;
                    if first || st.last_value != *rendered {
                        st.value_changed = clock;
                        st.needed += 1;
                    } else if !first {
                        // re-executed and produced an equal value: a backdating opportunity
                        self.stats.backdate_opportunities += 1;
                    }
                    st.last_value = rendered.clone();
                    st.last_exit = clock;
                    st.deps_src = ds;
                    st.deps_node = dn;
                    st.alive_guaranteed = true;
                    st.gc_since_exec = false;
                    st.writes_at_exec = writes;
                }
            }
        }
    }

    /// C02 / C03(a): an `Enter` of a node that ran before must be justified.
    fn check_reexecution(&mut self, n: &Node) {
        let Some(st) = self.nodes.get(n) else { return };
        if st.executions == 0 {
            return;
        }
        if !st.alive_guaranteed {
            self.stats.reexec_after_gc_discard += 1;
            return;
        }
        let t = st.last_exit;
        let by_src = st
            .deps_src
            .iter()
            .any(|s| self.src_changed.get(s).copied().unwrap_or(0) > t);
        // a derived dependency justifies re-execution if its cached value changed since
        // (by history) or if its from-scratch value now differs from what was seen then
        let by_child = st.deps_node.iter().any(|(c, seen)| {
            let pseudo = matches!(c, Node::InternedValue(_) | Node::InternedRef(_));
            if pseudo {
                return false;
            }
            let by_history = self
                .nodes
                .get(c)
                .map(|cs| cs.value_changed > t || !cs.alive_guaranteed)
                .unwrap_or(false);
            by_history || !self.model.defined(c) || self.model.twin(c) != *seen
        });
        if by_src {
            self.stats.reexec_justified_by_source += 1;
            return;
        }
        if by_child {
            self.stats.reexec_justified_by_child += 1;
            return;
        }
        let gc_between = st.gc_since_exec;
        let writes_between = self.writes - st.writes_at_exec;
        let deps = format!("src={:?} nodes={:?}", st.deps_src, st.deps_node);
        let func = n.func();
        self.violate(
            "C02",
            "reexecuted-without-changed-dependency",
            func,
            format!("{n:?} re-executed; direct deps unchanged since its last run ({deps}); writes since={writes_between}"),
        );
        if gc_between {
            self.violate(
                "C03",
                "retained-result-reexecuted-after-gc",
                func,
                format!("{n:?} was guaranteed retained (LRU capacity {} / retain) but re-executed after GC; writes since={writes_between}", self.cap),
            );
        }
    }

    fn guaranteed_set(&self) -> BTreeSet<Node> {
        let mut by_recency: Vec<(&Node, &usize)> = self.last_call.iter().collect();
        by_recency.sort_by(|a, b| b.1.cmp(a.1));
        let mut queue: Vec<Node> = by_recency.iter().take(self.cap).map(|(n, _)| (*n).clone()).collect();
        queue.extend(self.retained_count.keys().cloned());
        let mut g = BTreeSet::new();
        while let Some(n) = queue.pop() {
            if !g.insert(n.clone()) {
                continue;
            }
            if let Some(st) = self.nodes.get(&n) {
                for c in st.deps_node.keys() {
                    queue.push(c.clone());
                }
            }
        }
        g
    }

    fn gc(&mut self) {
        self.stats.gcs += 1;
        // values readable just before the collection
        let mut before: BTreeMap<Node, String> = BTreeMap::new();
        for (n, (h, alive)) in &self.handles {
            if *alive {
                before.insert(n.clone(), h.lookup(&self.db));
            }
        }
        self.db.run_garbage_collection();
        self.clock += 1;
        let g = self.guaranteed_set();
        for (text, m) in self.ref_model.iter_mut() {
            if !g.contains(&Node::InternedRef(text.clone())) {
                m.uncertain = true;
            }
        }
        for (n, st) in self.nodes.iter_mut() {
            st.gc_since_exec = true;
            if !g.contains(n) {
                st.alive_guaranteed = false;
            }
        }
        for (n, (_, alive)) in self.handles.iter_mut() {
            if !g.contains(n) {
                *alive = false;
            }
        }
        let dead_inner: Vec<Node> = self.inner_handles.keys().filter(|n| !g.contains(*n)).cloned().collect();
        for n in dead_inner {
            self.inner_handles.remove(&n);
        }
        self.stats.retained_survivals_checked += g.len();
        // C03(b): references obtained from guaranteed-retained results still read their value
        let mut bad = vec![];
        for (n, (h, alive)) in &self.handles {
            if *alive {
                self.stats.handle_lookups_checked += 1;
                let after = h.lookup(&self.db);
                if Some(&after) != before.get(n) {
                    bad.push((n.clone(), before.get(n).cloned().unwrap_or_default(), after));
                }
            }
        }
        for (n, b, a) in bad {
            self.violate("C03", "reference-changed-across-gc", n.func(), format!("{n:?} read {b} before GC and {a} after"));
        }
        self.lookup_all("after-gc");
    }

    /// Inner references (MemoRef returned *as a value* by a retained node) must
    /// still read the value they had when obtained, as long as their owner's
    /// cached result is the one they were obtained from.
    fn lookup_all(&mut self, when: &str) {
        let mut bad = vec![];
        let mut dangling = vec![];
        for (n, (h, expected, writes_at_obtain)) in &self.inner_handles {
            let Some(st) = self.nodes.get(n) else { continue };
            // contract: a reference is used only while the result it was obtained from is current
            if !st.alive_guaranteed || st.last_value != *expected || *writes_at_obtain != self.writes {
                continue;
            }
            self.stats.handle_lookups_checked += 1;
            let got = h.lookup(&self.db);
            let got_norm = got.trim_matches('"').to_string();
            let exp_norm = expected.trim_matches('"').to_string();
            if got_norm == "<DANGLING>" {
                dangling.push((n.clone(), expected.clone()));
            } else if got_norm != exp_norm {
                bad.push((n.clone(), expected.clone(), got));
            }
        }
        for (n, e) in dangling {
            self.violate_reference("dangling-reference", n.func(), &e, format!("{when}: the reference returned by {n:?} points to a dropped value"));
        }
        for (n, e, g) in bad {
            if matches!(n, Node::SecondRef(_)) {
                self.violate_reference("reference-wrong-value", n.func(), &e, format!("{when}: reference returned by {n:?} read {g}, originally {e}"));
                continue;
            }
            self.violate("C03", "inner-reference-wrong-value", n.func(), format!("{when}: reference returned by {n:?} read {g}, originally {e}"));
        }
    }
}
