//! C05: concurrent interning workloads, per-thread event logs, offline checker.
//!
//! Tables under test: the byte table (BytesId / StringId / StringKey / path
//! components share it), PathId, and harness-defined `intern_struct!` types whose
//! tables start empty in a fresh process (KeyId0..3 - a fresh table per early
//! history so that the lazy table initialisation is raced -, PairId with a
//! distinguished zero, NodeId whose values contain other NodeIds).
//!
//! Rules (offline, over the merged logs of one history plus a process-wide map):
//!   eq-values-distinct-ids    one value got two ids (intern or get_interned)
//!   distinct-values-same-id   two values share an id
//!   get-none-after-intern     get_interned -> None started after an intern of that value returned
//!   get-some-before-intern    get_interned -> Some returned before any intern of that value started
//!   lookup-mismatch           deref of an id (own, or published by another thread) != value
//!   not-dense                 ids handed out in the history are not exactly [len_before, len_after)
//!   unstable-id               a value of an earlier history now has another id
//!   ord-mismatch              Ord of StringId / BytesId / PathId != order of the text / bytes / components
//!   serde-roundtrip           WithIntern / guard round trip (bincode, JSON) != input
//!   panic
use std::borrow::Cow;
use std::collections::{BTreeMap, BTreeSet, HashMap};
use std::hash::{BuildHasher, BuildHasherDefault, Hash, Hasher};
use std::path::PathBuf;
use std::sync::Barrier;
use std::sync::atomic::Ordering::{Acquire, Release, SeqCst};
use std::sync::atomic::{AtomicU32, AtomicU64};

use intern::intern::InternId;
use intern::path::PathId;
use intern::string::{self, BytesId, StringId};
use intern::string_key::{Intern as _, StringKey};
use intern::{DeGuard, InternSerdes, SerGuard, WithIntern, intern_struct};
use serde_derive::{Deserialize, Serialize};
use serde_json::{Value, json};

use crate::hook::{self, Plan};
use crate::rng::{Rng, mix};
use crate::{Args, Finding, Report};

// ---------------------------------------------------------------- harness-defined interned types
#[derive(Debug, PartialEq, Eq, Hash, Clone, Serialize, Deserialize)]
pub struct KeyVal {
    a: u32,
    s: String,
    b: Vec<u8>,
}

intern_struct! {
    pub struct KeyId0 = Intern<KeyVal> { serdes("InternSerdes<KeyId0>"); }
    pub struct KeyId1 = Intern<KeyVal> { serdes("InternSerdes<KeyId1>"); }
    pub struct KeyId2 = Intern<KeyVal> { serdes("InternSerdes<KeyId2>"); }
    pub struct KeyId3 = Intern<KeyVal> { serdes("InternSerdes<KeyId3>"); }
    pub struct PairId = Intern<Pair> {
        serdes("InternSerdes<PairId>");
        const ZERO = Pair(0, 0);
    }
    pub struct NodeId = Intern<Node> { serdes("InternSerdes<NodeId>"); }
}

#[derive(Debug, PartialEq, Eq, Hash, Clone, Copy, Serialize, Deserialize)]
pub struct Pair(u32, u32);

#[derive(Debug, PartialEq, Eq, Hash, Clone, Serialize, Deserialize)]
pub struct Node {
    label: StringId,
    kids: Vec<NodeId>,
}

// table numbers used in events
const T_BYTES: u8 = 0;
const T_PATH: u8 = 1;
const T_PAIR: u8 = 2;
const T_NODE: u8 = 3;
const T_KEY0: u8 = 4; // 4..=7: KeyId0..KeyId3
const NT: usize = 8;
const TABLE_NAMES: [&str; NT] = ["BytesId", "PathId", "PairId", "NodeId", "KeyId", "KeyId", "KeyId", "KeyId"];

const NONE: u32 = u32::MAX;
const UNKNOWN: u32 = u32::MAX - 1;

static CLOCK: AtomicU64 = AtomicU64::new(0);
fn stamp(on: bool) -> u64 {
    if on { CLOCK.fetch_add(1, SeqCst) + 1 } else { 0 }
}

/// shard of the byte table a value lands in - mirrors ShardedSet::hash_and_shard only to
/// *steer the workload* (values that collide on a shard); no oracle depends on it.
fn shard_of(bytes: &[u8]) -> u64 {
    let bh: BuildHasherDefault<fnv::FnvHasher> = Default::default();
    let mut h = bh.build_hasher();
    bytes.hash(&mut h);
    (h.finish() >> (64 - 7 - 6)) & 63
}

// ---------------------------------------------------------------- value space of one history
struct PathVal {
    text: String,       // what is passed to PathId::intern
    comps: Vec<String>, // expected components (Path::iter())
}

struct NodeVal {
    label: u32,     // index into bytes values (utf-8)
    kids: Vec<u32>, // indices of earlier node values
}

struct Values {
    bytes: Vec<Vec<u8>>,
    utf8: Vec<u32>, // indices into bytes that are valid utf-8
    paths: Vec<PathVal>,
    keys: Vec<KeyVal>,
    pairs: Vec<(u32, u32)>,
    nodes: Vec<NodeVal>,
    hot_shard_values: u32,
}

fn gen_values(rng: &mut Rng, hist_index: u64, miri: bool) -> Values {
    let salt = format!("h{}", hist_index);
    let mut bytes: Vec<Vec<u8>> = Vec::new();
    // shared over all histories of the process (stable ids are checked on these)
    bytes.push(Vec::new()); // EMPTY: the zero element
    bytes.push(b"a".to_vec());
    bytes.push(b"id".to_vec());
    bytes.push(b"exactly-22-bytes-long!".to_vec()); // largest inline
    bytes.push(b"exactly-23-bytes-long!!".to_vec()); // smallest boxed
    bytes.push("na\u{ef}ve \u{1F600}".as_bytes().to_vec());
    bytes.push(vec![0xff, 0xfe, 0x00, 0x80]); // not utf-8
    bytes.push(vec![b'L'; if miri { 48 } else { 700 }]);
    // salted
    bytes.push(salt.as_bytes().to_vec());
    bytes.push(format!("{salt}:name").into_bytes());
    let mut v22 = format!("{salt}:").into_bytes();
    v22.resize(22, b'x');
    bytes.push(v22.clone());
    v22.push(b'y');
    bytes.push(v22); // 23 bytes
    let mut large = format!("{salt}:large:").into_bytes();
    large.resize(if miri { 64 } else { rng.range(64, 4096) as usize }, b'z');
    bytes.push(large);
    let mut nonutf = format!("{salt}:").into_bytes();
    nonutf.extend_from_slice(&[0xc3, 0x28, 0xff]);
    bytes.push(nonutf);
    bytes.push(format!("{salt}:\u{00e9}\u{4e2d}").into_bytes());
    // a group of values that land in the same shard as "{salt}:name"
    let target = shard_of(&bytes[9]);
    let want = if miri { 0 } else { 6 }; // the search costs seconds under Miri
    let mut hot = 0;
    let mut c = 0u32;
    while hot < want && c < 4000 {
        let cand = format!("{salt}:k{c}").into_bytes();
        if shard_of(&cand) == target {
            bytes.push(cand);
            hot += 1;
        }
        c += 1;
    }
    for i in 0..(if miri { 2 } else { 6 }) {
        bytes.push(format!("{salt}:r{i}").into_bytes());
    }

    // paths with shared prefixes; text variants exercise Path::iter() normalisation
    let names = [salt.clone(), "src".to_string(), "lib".to_string(), "a".to_string(), format!("{salt}.rs")];
    let mut paths = Vec::new();
    let npaths = if miri { 4 } else { 12 };
    while paths.len() < npaths {
        let depth = rng.range(1, 4) as usize;
        let abs = rng.chance(1, 4);
        let mut comps: Vec<String> = Vec::new();
        if abs {
            comps.push("/".into());
        }
        for _ in 0..depth {
            comps.push(rng.pick(&names).clone());
        }
        let mut text = String::new();
        for (i, c) in comps.iter().enumerate() {
            if c == "/" {
                text.push('/');
                continue;
            }
            if i > 0 && !(i == 1 && abs) {
                text.push_str(*rng.pick(&["/", "/", "//", "/./"]));
            }
            text.push_str(c);
        }
        if rng.chance(1, 5) {
            text.push('/');
        }
        if paths.iter().all(|p: &PathVal| p.comps != comps) {
            paths.push(PathVal { text, comps });
        }
    }
    // close under prefixes (PathId::intern interns every prefix) and make components byte values
    let mut i = 0;
    while i < paths.len() {
        let c = paths[i].comps.clone();
        if c.len() > 1 {
            let pre = c[..c.len() - 1].to_vec();
            if paths.iter().all(|p| p.comps != pre) {
                let text = pre.iter().collect::<PathBuf>().to_string_lossy().into_owned();
                paths.push(PathVal { text, comps: pre });
            }
        }
        i += 1;
    }
    for n in names.iter().map(|s| s.as_str()).chain(["/"]) {
        if !bytes.iter().any(|b| b == n.as_bytes()) {
            bytes.push(n.as_bytes().to_vec());
        }
    }
    let utf8: Vec<u32> = bytes.iter().enumerate().filter(|(_, b)| std::str::from_utf8(b).is_ok()).map(|(i, _)| i as u32).collect();
    let nkeys = if miri { 4 } else { 12 };
    let mut keys = Vec::new();
    for k in 0..nkeys {
        let s = String::from_utf8(bytes[*rng.pick(&utf8) as usize].clone()).unwrap();
        let b = rng.pick(&bytes).clone();
        // `a` makes every key of the history distinct and distinct from other histories
        keys.push(KeyVal { a: (hist_index as u32) * 64 + k, s, b });
    }
    keys.push(KeyVal { a: u32::MAX, s: "shared".into(), b: vec![1, 2, 3] }); // shared over histories
    let mut pairs: Vec<(u32, u32)> = (0..(if miri { 3 } else { 8 })).map(|k| (hist_index as u32 + 1, k)).collect();
    pairs.push((0, 0)); // the zero element
    pairs.push((0, 1)); // shared over histories
    let mut nodes: Vec<NodeVal> = Vec::new();
    let salted_utf8: Vec<u32> = utf8.iter().copied().filter(|i| *i >= 8).collect();
    for j in 0..(if miri { 4 } else { 10 }).min(salted_utf8.len()) {
        // label j-th salted utf8 value => distinct labels => distinct node values
        let label = salted_utf8[j % salted_utf8.len()];
        let mut kids = Vec::new();
        if j > 0 {
            for _ in 0..rng.below(4) {
                kids.push(rng.below(j as u64) as u32);
            }
        }
        nodes.push(NodeVal { label, kids });
    }
    Values { bytes, utf8, paths, keys, pairs, nodes, hot_shard_values: hot + 1 }
}

// ---------------------------------------------------------------- key tables through function pointers
#[derive(Clone, Copy)]
struct KeyOps {
    intern: fn(KeyVal) -> u32,
    get: fn(&KeyVal) -> Option<u32>,
    deref: fn(u32) -> Option<KeyVal>,
    len: fn() -> usize,
}
macro_rules! key_ops {
    ($K:ty) => {
        KeyOps {
            intern: |v| <$K>::intern(v).index(),
            get: |v| <$K>::get_interned(v).map(|i| i.index()),
            deref: |i| <$K>::from_index_checked(i).map(|id| id.get().clone()),
            len: || <$K>::table().len(),
        }
    };
}
fn key_ops(which: u8) -> KeyOps {
    match which {
        0 => key_ops!(KeyId0),
        1 => key_ops!(KeyId1),
        2 => key_ops!(KeyId2),
        _ => key_ops!(KeyId3),
    }
}

fn table_len(t: u8) -> usize {
    match t {
        T_BYTES => BytesId::table().len(),
        T_PATH => PathId::table().len(),
        T_PAIR => PairId::table().len(),
        T_NODE => NodeId::table().len(),
        k => (key_ops(k - T_KEY0).len)(),
    }
}

// ---------------------------------------------------------------- scripts and events
#[derive(Clone, Copy, Debug)]
enum Op {
    InternBytes(u32, u8),
    InternStr(u32, u8),
    GetBytes(u32),
    InternPath(u32, u8),
    GetPathNode(u32),
    InternKey(u32),
    GetKey(u32),
    InternPair(u32),
    GetPair(u32),
    InternNode(u32),
    LookupPub(u8, u32),
    Ord(u8),
    Serde(u64),
}

#[derive(Clone, Copy)]
struct Ev {
    is_get: bool,
    table: u8,
    val: u32,
    res: u32,
    t0: u64,
    t1: u64,
}

struct HistCfg {
    hseed: u64,
    index: u64,
    threads: u32,
    stamps: bool,
    key_table: u8,
    plan: Plan,
    scripts: Vec<Vec<Op>>,
}

impl HistCfg {
    fn describe(&self, v: &Values) -> Value {
        json!({"history_seed": self.hseed.to_string(), "index_in_process": self.index, "threads": self.threads,
               "stamps": self.stamps, "key_table": format!("KeyId{}", self.key_table - T_KEY0), "plan": self.plan.describe(),
               "ops_per_thread": self.scripts.iter().map(|s| s.len()).collect::<Vec<_>>(),
               "value_space": {"bytes": v.bytes.len(), "paths": v.paths.len(), "keys": v.keys.len(), "pairs": v.pairs.len(),
                               "nodes": v.nodes.len(), "values_in_one_shard": v.hot_shard_values}})
    }
}

fn gen_script(rng: &mut Rng, v: &Values, n: usize, key_table: u8) -> Vec<Op> {
    let mut s = Vec::with_capacity(n);
    let nb = v.bytes.len() as u64;
    // hot values: the same-shard group sits right after index 14
    let hot = |rng: &mut Rng| 9 + rng.below(6 + v.hot_shard_values as u64) as u32;
    while s.len() < n {
        let op = match rng.below(100) {
            0..=17 => Op::InternBytes(if rng.chance(1, 2) { hot(rng) } else { rng.below(nb) as u32 }, rng.below(3) as u8),
            18..=37 => {
                let i = if rng.chance(1, 2) { hot(rng) } else { *rng.pick(&v.utf8) };
                let i = if v.utf8.contains(&i) { i } else { *rng.pick(&v.utf8) };
                Op::InternStr(i, rng.below(6) as u8)
            }
            38..=47 => Op::GetBytes(if rng.chance(1, 2) { hot(rng) } else { rng.below(nb) as u32 }),
            48..=57 => Op::InternPath(rng.below(v.paths.len() as u64) as u32, rng.below(3) as u8),
            58..=59 => Op::GetPathNode(rng.below(v.paths.len() as u64) as u32),
            60..=66 => Op::InternKey(rng.below(v.keys.len() as u64) as u32),
            67..=70 => Op::GetKey(rng.below(v.keys.len() as u64) as u32),
            71..=75 => Op::InternPair(rng.below(v.pairs.len() as u64) as u32),
            76..=78 => Op::GetPair(rng.below(v.pairs.len() as u64) as u32),
            79..=83 => Op::InternNode(rng.below(v.nodes.len() as u64) as u32),
            84..=91 => {
                let t = *rng.pick(&[T_BYTES, T_BYTES, T_PATH, T_PAIR, T_NODE, key_table]);
                let n = match t {
                    T_BYTES => v.bytes.len(),
                    T_PATH => v.paths.len(),
                    T_PAIR => v.pairs.len(),
                    T_NODE => v.nodes.len(),
                    _ => v.keys.len(),
                };
                Op::LookupPub(t, rng.below(n as u64) as u32)
            }
            92..=95 => Op::Ord(*rng.pick(&[T_BYTES, T_BYTES, T_PATH])),
            _ => Op::Serde(rng.next()),
        };
        s.push(op);
    }
    s
}

fn gen_history(hseed: u64, index: u64, a: &Args) -> (HistCfg, Values) {
    let mut rng = Rng::new(hseed);
    let miri = a.profile == "miri";
    let vals = gen_values(&mut rng, index, miri);
    let threads = if rng.chance(1, 2) { rng.range(2, 3) } else { rng.range(2, a.threads.max(2) as u64) } as u32;
    let stamps = match a.stamps {
        Some(s) => s,
        None => rng.chance(if miri { 3 } else { 6 }, 10),
    };
    let key_table = T_KEY0 + index.min(3) as u8;
    let plan = if a.no_delays { Plan::off() } else { Plan::generate(&mut rng, false) };
    let mut scripts = Vec::new();
    for _ in 0..threads {
        let n = rng.range((a.ops as u64 / 2).max(1), a.ops as u64) as usize;
        scripts.push(gen_script(&mut rng, &vals, n, key_table));
    }
    (HistCfg { hseed, index, threads, stamps, key_table, plan, scripts }, vals)
}

// ---------------------------------------------------------------- worker
struct Board {
    slots: [Vec<AtomicU32>; NT],
}

#[derive(Default)]
struct Counters {
    lookups: u64,
    lookups_published: u64,
    ord_pairs: u64,
    serde_roundtrips: u64,
    serde_backrefs: u64,
    serde_bytes: u64,
}

struct Worker<'a> {
    v: &'a Values,
    board: &'a Board,
    h: &'a HistCfg,
    keys: KeyOps,
    path_index: &'a HashMap<Vec<String>, u32>,
    bytes_index: &'a HashMap<Vec<u8>, u32>,
    log: Vec<Ev>,
    fails: Vec<(&'static str, u8, String)>,
    known: [Vec<(u32, u32)>; NT], // (value, id index) this thread obtained itself
    c: Counters,
    rng: Rng,
}

fn path_buf(comps: &[String]) -> PathBuf {
    comps.iter().collect()
}

fn node_text(v: &Values, j: u32) -> String {
    let n = &v.nodes[j as usize];
    let mut s = String::from_utf8_lossy(&v.bytes[n.label as usize]).into_owned();
    s.push('(');
    for k in &n.kids {
        s.push_str(&node_text(v, *k));
        s.push(',');
    }
    s.push(')');
    s
}

fn node_text_of(id: NodeId) -> String {
    let n = id.get();
    let mut s = n.label.as_str().to_string();
    s.push('(');
    for k in &n.kids {
        s.push_str(&node_text_of(*k));
        s.push(',');
    }
    s.push(')');
    s
}

impl<'a> Worker<'a> {
    fn ev(&mut self, is_get: bool, table: u8, val: u32, res: u32, t0: u64, t1: u64) {
        self.log.push(Ev { is_get, table, val, res, t0, t1 });
        if !is_get && res < UNKNOWN {
            self.known[table as usize].push((val, res));
            self.board.slots[table as usize][val as usize].store(res + 1, Release);
        }
    }
    fn fail(&mut self, rule: &'static str, table: u8, detail: String) {
        if self.fails.len() < 20 {
            self.fails.push((rule, table, detail));
        }
    }
    fn st(&self) -> u64 {
        stamp(self.h.stamps)
    }

    fn intern_bytes(&mut self, i: u32, variant: u8) -> BytesId {
        let b = &self.v.bytes[i as usize];
        let t0 = self.st();
        let id = match variant % 3 {
            0 => string::intern_bytes(&b[..]),
            1 => string::intern_bytes(b.clone()),
            _ => string::intern_bytes(b.clone().into_boxed_slice()),
        };
        let t1 = self.st();
        self.ev(false, T_BYTES, i, id.index(), t0, t1);
        self.c.lookups += 1;
        if id.as_bytes() != &b[..] {
            self.fail("lookup-mismatch", T_BYTES, format!("intern_bytes(value #{i}, {} bytes) -> id {} whose bytes differ", b.len(), id.index()));
        }
        id
    }

    fn intern_str(&mut self, i: u32, variant: u8) -> StringId {
        let s = std::str::from_utf8(&self.v.bytes[i as usize]).expect("utf8 value");
        let t0 = self.st();
        let id: StringId = match variant % 6 {
            0 => string::intern(s),
            1 => string::intern(s.to_string()),
            2 => string::intern(s.to_string().into_boxed_str()),
            3 => string::intern(Cow::Borrowed(s)),
            4 => {
                let k: StringKey = s.intern();
                StringId::from_index_checked(k.index()).expect("index of a StringKey is in range")
            }
            _ => s.parse().unwrap(),
        };
        let t1 = self.st();
        self.ev(false, T_BYTES, i, id.index(), t0, t1);
        self.c.lookups += 1;
        if id.as_str() != s || id.as_bytes().as_bytes() != s.as_bytes() || id.is_empty() != s.is_empty() {
            self.fail("lookup-mismatch", T_BYTES, format!("intern(str value #{i}) -> id {} reads {:?}", id.index(), id.as_str()));
        }
        id
    }

    fn get_bytes(&mut self, i: u32) {
        let b = &self.v.bytes[i as usize];
        let t0 = self.st();
        let r = BytesId::get_interned(b);
        let t1 = self.st();
        self.ev(true, T_BYTES, i, r.map(|x| x.index()).unwrap_or(NONE), t0, t1);
    }

    fn intern_path(&mut self, i: u32, variant: u8) -> PathId {
        let pv = &self.v.paths[i as usize];
        let t0 = self.st();
        let id = match variant % 3 {
            0 => PathId::intern(None, &pv.text),
            1 => PathId::from(&pv.text),
            _ => {
                if pv.comps.len() >= 2 {
                    let k = 1 + self.rng.below(pv.comps.len() as u64 - 1) as usize;
                    let parent = PathId::intern(None, path_buf(&pv.comps[..k]));
                    PathId::intern(Some(parent), path_buf(&pv.comps[k..]))
                } else {
                    PathId::intern(None, &pv.text)
                }
            }
        };
        let t1 = self.st();
        // every prefix got an id; every component was interned into the byte table
        let mut cur = Some(id);
        let mut n = pv.comps.len();
        while let Some(p) = cur {
            if n == 0 {
                self.fail("lookup-mismatch", T_PATH, format!("path {:?} has more ancestors than components", pv.text));
                break;
            }
            let vi = self.path_index[&pv.comps[..n]];
            self.ev(false, T_PATH, vi, p.index(), t0, t1);
            cur = p.parent();
            n -= 1;
        }
        for c in &pv.comps {
            let bi = self.bytes_index[c.as_bytes()];
            self.ev(false, T_BYTES, bi, UNKNOWN, t0, t1);
        }
        self.c.lookups += 1;
        if id.to_path_buf() != path_buf(&pv.comps) || id.file_name().as_encoded_bytes() != pv.comps.last().unwrap().as_bytes() {
            self.fail("lookup-mismatch", T_PATH, format!("PathId::intern({:?}) -> {:?}", pv.text, id.to_path_buf()));
        }
        id
    }

    fn get_path_node(&mut self, i: u32) {
        let s = self.board.slots[T_PATH as usize][i as usize].load(Acquire);
        if s == 0 {
            return;
        }
        let Some(id) = PathId::from_index_checked(s - 1) else {
            self.fail("not-dense", T_PATH, format!("published PathId index {} >= table len", s - 1));
            return;
        };
        let node = *id.get();
        let t0 = self.st();
        let r = PathId::get_interned(&node);
        let t1 = self.st();
        self.log.push(Ev { is_get: true, table: T_PATH, val: i, res: r.map(|x| x.index()).unwrap_or(NONE), t0, t1 });
        if r.is_none() {
            // the node was read out of the table, so it certainly was interned before this call
            self.fail("get-none-after-intern", T_PATH, format!("get_interned(node of published PathId {}) -> None", s - 1));
        }
    }

    fn intern_key(&mut self, i: u32) {
        let kv = self.v.keys[i as usize].clone();
        let t0 = self.st();
        let idx = (self.keys.intern)(kv);
        let t1 = self.st();
        self.ev(false, self.h.key_table, i, idx, t0, t1);
        self.c.lookups += 1;
        if (self.keys.deref)(idx).as_ref() != Some(&self.v.keys[i as usize]) {
            self.fail("lookup-mismatch", self.h.key_table, format!("KeyId::intern(key #{i}) -> id {idx} reads another value"));
        }
    }

    fn get_key(&mut self, i: u32) {
        let t0 = self.st();
        let r = (self.keys.get)(&self.v.keys[i as usize]);
        let t1 = self.st();
        self.ev(true, self.h.key_table, i, r.unwrap_or(NONE), t0, t1);
    }

    fn intern_pair(&mut self, i: u32) -> PairId {
        let p = self.v.pairs[i as usize];
        let t0 = self.st();
        let id = PairId::intern(Pair(p.0, p.1));
        let t1 = self.st();
        self.ev(false, T_PAIR, i, id.index(), t0, t1);
        self.c.lookups += 1;
        let got = (id.get().0, id.get().1);
        if got != p || (p == (0, 0)) != (id == PairId::ZERO) {
            self.fail("lookup-mismatch", T_PAIR, format!("PairId::intern({:?}) -> id {} reads {:?}", p, id.index(), got));
        }
        id
    }

    fn get_pair(&mut self, i: u32) {
        let t0 = self.st();
        let p = self.v.pairs[i as usize];
        let r = PairId::get_interned(&Pair(p.0, p.1));
        let t1 = self.st();
        self.ev(true, T_PAIR, i, r.map(|x| x.index()).unwrap_or(NONE), t0, t1);
    }

    fn intern_node(&mut self, j: u32) -> NodeId {
        let nv = &self.v.nodes[j as usize];
        let kids: Vec<NodeId> = nv.kids.iter().map(|k| self.intern_node(*k)).collect();
        let label = self.intern_str(nv.label, (j % 3) as u8);
        let t0 = self.st();
        let id = NodeId::intern(Node { label, kids });
        let t1 = self.st();
        self.ev(false, T_NODE, j, id.index(), t0, t1);
        self.c.lookups += 1;
        if node_text_of(id) != node_text(self.v, j) {
            self.fail("lookup-mismatch", T_NODE, format!("NodeId::intern(node #{j}) -> id {} reads {}", id.index(), node_text_of(id)));
        }
        id
    }

    /// deref an id that (possibly) another thread obtained and published with Release
    fn lookup_published(&mut self, t: u8, i: u32) {
        let s = self.board.slots[t as usize][i as usize].load(Acquire);
        if s == 0 {
            return;
        }
        let idx = s - 1;
        self.c.lookups += 1;
        self.c.lookups_published += 1;
        let ok: Option<bool> = match t {
            T_BYTES => BytesId::from_index_checked(idx).map(|id| id.as_bytes() == &self.v.bytes[i as usize][..]),
            T_PATH => PathId::from_index_checked(idx).map(|id| id.to_path_buf() == path_buf(&self.v.paths[i as usize].comps)),
            T_PAIR => PairId::from_index_checked(idx).map(|id| (id.get().0, id.get().1) == self.v.pairs[i as usize]),
            T_NODE => NodeId::from_index_checked(idx).map(|id| node_text_of(id) == node_text(self.v, i)),
            _ => (self.keys.deref)(idx).map(|kv| kv == self.v.keys[i as usize]),
        };
        match ok {
            Some(true) => {}
            Some(false) => self.fail("lookup-mismatch", t, format!("published id {idx} of value #{i} reads another value")),
            None => self.fail("not-dense", t, format!("published id {idx} of value #{i} is >= table len")),
        }
    }

    fn ord_sample(&mut self, t: u8) {
        let k = &self.known[t as usize];
        if k.len() < 2 {
            return;
        }
        let (va, ia) = k[self.rng.below(k.len() as u64) as usize];
        let (vb, ib) = k[self.rng.below(k.len() as u64) as usize];
        self.c.ord_pairs += 1;
        if t == T_BYTES {
            let (ba, bb) = (&self.v.bytes[va as usize], &self.v.bytes[vb as usize]);
            let (a, b) = (BytesId::from_index_checked(ia).unwrap(), BytesId::from_index_checked(ib).unwrap());
            if a.cmp(&b) != ba.cmp(bb) {
                self.fail("ord-mismatch", t, format!("BytesId order of values #{va} / #{vb} is {:?}, byte order {:?}", a.cmp(&b), ba.cmp(bb)));
            }
            if let (Ok(sa), Ok(sb)) = (std::str::from_utf8(ba), std::str::from_utf8(bb)) {
                let (a, b) = (StringId::from_bytes(a).unwrap(), StringId::from_bytes(b).unwrap());
                let (ka, kb): (StringKey, StringKey) = (sa.intern(), sb.intern());
                if a.cmp(&b) != sa.cmp(sb) || a.partial_cmp(&b) != Some(sa.cmp(sb)) || ka.cmp(&kb) != sa.cmp(sb) {
                    self.fail("ord-mismatch", t, format!("StringId order of {:?} / {:?} is {:?}, text order {:?}", sa, sb, a.cmp(&b), sa.cmp(sb)));
                }
            }
        } else {
            let (ca, cb) = (&self.v.paths[va as usize].comps, &self.v.paths[vb as usize].comps);
            let (a, b) = (PathId::from_index_checked(ia).unwrap(), PathId::from_index_checked(ib).unwrap());
            let want = ca.iter().map(|c| c.as_bytes()).cmp(cb.iter().map(|c| c.as_bytes()));
            if a.cmp(&b) != want {
                self.fail("ord-mismatch", t, format!("PathId order of {:?} / {:?} is {:?}, component order {:?}", ca, cb, a.cmp(&b), want));
            }
        }
    }

    fn run_op(&mut self, op: Op) {
        match op {
            Op::InternBytes(i, v) => {
                self.intern_bytes(i, v);
            }
            Op::InternStr(i, v) => {
                self.intern_str(i, v);
            }
            Op::GetBytes(i) => self.get_bytes(i),
            Op::InternPath(i, v) => {
                self.intern_path(i, v);
            }
            Op::GetPathNode(i) => self.get_path_node(i),
            Op::InternKey(i) => self.intern_key(i),
            Op::GetKey(i) => self.get_key(i),
            Op::InternPair(i) => {
                self.intern_pair(i);
            }
            Op::GetPair(i) => self.get_pair(i),
            Op::InternNode(j) => {
                self.intern_node(j);
            }
            Op::LookupPub(t, i) => self.lookup_published(t, i),
            Op::Ord(t) => self.ord_sample(t),
            Op::Serde(seed) => self.serde_op(seed),
        }
    }
}

// ---------------------------------------------------------------- serde round trips
#[derive(Serialize, Deserialize, PartialEq, Debug, Clone)]
enum Tree {
    S(StringId),
    B(BytesId),
    P(PathId),
    Q(PairId),
    N(NodeId),
    K(StringKey),
    U(u32),
    L(Vec<Tree>),
    M(BTreeMap<String, Tree>),
    O(Option<Box<Tree>>),
    T(Box<Tree>, StringId, Box<Tree>),
}

/// the same structure with plain values instead of ids (what "equal values" means across processes)
#[derive(Serialize, Deserialize, PartialEq, Debug, Clone)]
enum Plain {
    S(String),
    B(Vec<u8>),
    P(Vec<u8>),
    Q((u32, u32)),
    N(String),
    K(String),
    U(u32),
    L(Vec<Plain>),
    M(BTreeMap<String, Plain>),
    O(Option<Box<Plain>>),
    T(Box<Plain>, String, Box<Plain>),
}

fn plain_of(t: &Tree) -> Plain {
    match t {
        Tree::S(s) => Plain::S(s.as_str().to_string()),
        Tree::B(b) => Plain::B(b.as_bytes().to_vec()),
        Tree::P(p) => Plain::P(p.to_path_buf().into_os_string().into_encoded_bytes()),
        Tree::Q(q) => Plain::Q((q.get().0, q.get().1)),
        Tree::N(n) => Plain::N(node_text_of(*n)),
        Tree::K(k) => Plain::K(k.to_string()),
        Tree::U(u) => Plain::U(*u),
        Tree::L(l) => Plain::L(l.iter().map(plain_of).collect()),
        Tree::M(m) => Plain::M(m.iter().map(|(k, v)| (k.clone(), plain_of(v))).collect()),
        Tree::O(o) => Plain::O(o.as_ref().map(|b| Box::new(plain_of(b)))),
        Tree::T(a, s, b) => Plain::T(Box::new(plain_of(a)), s.as_str().to_string(), Box::new(plain_of(b))),
    }
}

fn count_leaves(t: &Tree) -> u64 {
    match t {
        Tree::L(l) => l.iter().map(count_leaves).sum(),
        Tree::M(m) => m.values().map(count_leaves).sum(),
        Tree::O(o) => o.as_ref().map(|b| count_leaves(b)).unwrap_or(0),
        Tree::T(a, _, b) => 1 + count_leaves(a) + count_leaves(b),
        _ => 1,
    }
}

/// format 0: bincode + WithIntern, 1: JSON + WithIntern, 2: bincode serialize_into + explicit guards, 3: pretty JSON + guards
fn roundtrip(t: &Tree, format: u64) -> Result<(Tree, usize, u64), String> {
    match format % 4 {
        0 => {
            let bytes = bincode::serialize(&WithIntern(t)).map_err(|e| format!("bincode serialize: {e}"))?;
            let back: Tree = WithIntern::strip(bincode::deserialize(&bytes)).map_err(|e| format!("bincode deserialize: {e}"))?;
            Ok((back, bytes.len(), 0))
        }
        1 => {
            let s = serde_json::to_string(&WithIntern(t)).map_err(|e| format!("json serialize: {e}"))?;
            let back: Tree = WithIntern::strip(serde_json::from_str(&s)).map_err(|e| format!("json deserialize: {e}"))?;
            Ok((back, s.len(), s.matches("{\"Id\":").count() as u64))
        }
        2 => {
            let mut bytes: Vec<u8> = Vec::new();
            {
                let _g = SerGuard::default();
                bincode::serialize_into(&mut bytes, t).map_err(|e| format!("bincode serialize_into: {e}"))?;
            }
            let back: Tree = {
                let _g = DeGuard::default();
                bincode::deserialize(&bytes).map_err(|e| format!("bincode deserialize: {e}"))?
            };
            Ok((back, bytes.len(), 0))
        }
        _ => {
            let s = {
                let _g = SerGuard::default();
                serde_json::to_string_pretty(t).map_err(|e| format!("json serialize: {e}"))?
            };
            let back: Tree = {
                let _g = DeGuard::default();
                serde_json::from_str(&s).map_err(|e| format!("json deserialize: {e}"))?
            };
            Ok((back, s.len(), s.matches("\"Id\":").count() as u64))
        }
    }
}

impl<'a> Worker<'a> {
    /// builds (tree of ids, expected plain tree from the model values); interning goes through the logged operations
    fn gen_tree(&mut self, rng: &mut Rng, depth: u32) -> (Tree, Plain) {
        let v = self.v;
        let leaf = depth == 0 || rng.chance(if depth >= 3 { 1 } else { 2 }, 5);
        if leaf {
            return match rng.below(8) {
                0 | 1 => {
                    // few distinct values => many repeated ids
                    let i = v.utf8[rng.below(v.utf8.len().min(6) as u64 + 3) as usize % v.utf8.len()];
                    let id = self.intern_str(i, 0);
                    (Tree::S(id), Plain::S(String::from_utf8(v.bytes[i as usize].clone()).unwrap()))
                }
                2 => {
                    let i = rng.below(v.bytes.len() as u64) as u32;
                    let id = self.intern_bytes(i, 0);
                    (Tree::B(id), Plain::B(v.bytes[i as usize].clone()))
                }
                3 => {
                    let i = rng.below(v.paths.len() as u64) as u32;
                    let id = self.intern_path(i, 0);
                    (Tree::P(id), Plain::P(path_buf(&v.paths[i as usize].comps).into_os_string().into_encoded_bytes()))
                }
                4 => {
                    let i = rng.below(v.pairs.len() as u64) as u32;
                    let id = self.intern_pair(i);
                    (Tree::Q(id), Plain::Q(v.pairs[i as usize]))
                }
                5 => {
                    let j = rng.below(v.nodes.len() as u64) as u32;
                    let id = self.intern_node(j);
                    (Tree::N(id), Plain::N(node_text(v, j)))
                }
                6 => {
                    let i = *rng.pick(&v.utf8);
                    let s = String::from_utf8(v.bytes[i as usize].clone()).unwrap();
                    let id = self.intern_str(i, 4);
                    let k: StringKey = s.as_str().intern();
                    debug_assert_eq!(k.index(), id.index());
                    (Tree::K(k), Plain::K(s))
                }
                _ => {
                    let u = rng.next() as u32;
                    (Tree::U(u), Plain::U(u))
                }
            };
        }
        match rng.below(4) {
            0 => {
                let n = rng.range(0, 5);
                let (mut a, mut b) = (Vec::new(), Vec::new());
                for _ in 0..n {
                    let (t, p) = self.gen_tree(rng, depth - 1);
                    a.push(t);
                    b.push(p);
                }
                (Tree::L(a), Plain::L(b))
            }
            1 => {
                let n = rng.range(0, 4);
                let (mut a, mut b) = (BTreeMap::new(), BTreeMap::new());
                for k in 0..n {
                    let (t, p) = self.gen_tree(rng, depth - 1);
                    a.insert(format!("k{k}"), t);
                    b.insert(format!("k{k}"), p);
                }
                (Tree::M(a), Plain::M(b))
            }
            2 => {
                if rng.chance(1, 4) {
                    (Tree::O(None), Plain::O(None))
                } else {
                    let (t, p) = self.gen_tree(rng, depth - 1);
                    (Tree::O(Some(Box::new(t))), Plain::O(Some(Box::new(p))))
                }
            }
            _ => {
                let (t1, p1) = self.gen_tree(rng, depth - 1);
                let i = v.utf8[rng.below(3) as usize % v.utf8.len()];
                let id = self.intern_str(i, 1);
                let (t2, p2) = self.gen_tree(rng, depth - 1);
                (Tree::T(Box::new(t1), id, Box::new(t2)), Plain::T(Box::new(p1), String::from_utf8(v.bytes[i as usize].clone()).unwrap(), Box::new(p2)))
            }
        }
    }

    fn serde_op(&mut self, seed: u64) {
        let mut rng = Rng::new(seed);
        let depth = if cfg!(miri) { 2 } else { 4 };
        let (tree, plain) = self.gen_tree(&mut rng, depth);
        self.check_roundtrip(&tree, &plain, rng.next());
    }

    fn check_roundtrip(&mut self, tree: &Tree, plain: &Plain, format: u64) {
        self.c.serde_roundtrips += 1;
        match roundtrip(tree, format) {
            Err(e) => self.fail("serde-roundtrip", T_BYTES, format!("format {}: {}", format % 4, e)),
            Ok((back, len, backrefs)) => {
                self.c.serde_backrefs += backrefs;
                self.c.serde_bytes += len as u64;
                if &back != tree {
                    self.fail("serde-roundtrip", T_BYTES, format!("format {}: ids differ after round trip ({} leaves)", format % 4, count_leaves(tree)));
                } else if &plain_of(&back) != plain {
                    self.fail("serde-roundtrip", T_BYTES, format!("format {}: values differ after round trip ({} leaves)", format % 4, count_leaves(tree)));
                }
            }
        }
    }
}

// ---------------------------------------------------------------- one history: run + offline check
#[derive(Default)]
struct Proc {
    /// (table, value key) -> id index, over all histories of this process
    known: HashMap<(u8, Vec<u8>), u32>,
}

fn value_key(v: &Values, t: u8, i: u32) -> Vec<u8> {
    match t {
        T_BYTES => v.bytes[i as usize].clone(),
        T_PATH => v.paths[i as usize].comps.join("\0").into_bytes(),
        T_PAIR => format!("{:?}", v.pairs[i as usize]).into_bytes(),
        T_NODE => node_text(v, i).into_bytes(),
        _ => format!("{:?}", v.keys[i as usize]).into_bytes(),
    }
}

struct Outcome {
    findings: Vec<(String, u8, String)>,
    events: u64,
    c: Counters,
    hh: hook::HistHook,
    new_values: u64,
    new_values_interned_by_2plus_threads: u64,
    overlapping_same_value_interns: u64,
    gets_none: u64,
    gets_some: u64,
    dense_tables_checked: u64,
}

type ThreadOut = Result<(Vec<Ev>, Vec<(&'static str, u8, String)>, Counters), String>;

fn run_history(h: &HistCfg, v: &Values, proc_: &mut Proc, tm: &crate::Timing) -> Outcome {
    tm.mark("history start");
    let mut findings: Vec<(String, u8, String)> = Vec::new();
    let path_index: HashMap<Vec<String>, u32> = v.paths.iter().enumerate().map(|(i, p)| (p.comps.clone(), i as u32)).collect();
    let bytes_index: HashMap<Vec<u8>, u32> = v.bytes.iter().enumerate().map(|(i, b)| (b.clone(), i as u32)).collect();
    let sizes = [v.bytes.len(), v.paths.len(), v.pairs.len(), v.nodes.len(), v.keys.len(), v.keys.len(), v.keys.len(), v.keys.len()];
    let board = Board { slots: std::array::from_fn(|t| (0..sizes[t]).map(|_| AtomicU32::new(0)).collect()) };
    let tables = [T_BYTES, T_PATH, T_PAIR, T_NODE, h.key_table];
    let len_before: Vec<usize> = tables.iter().map(|t| table_len(*t)).collect();
    let keys = key_ops(h.key_table - T_KEY0);
    let barrier = Barrier::new(h.threads as usize);
    hook::set_thread(0, 0);
    hook::begin_history(&h.plan);
    let mut outs: Vec<ThreadOut> = Vec::new();
    std::thread::scope(|sc| {
        let mut handles = Vec::new();
        for (ti, script) in h.scripts.iter().enumerate() {
            let (board, barrier, path_index, bytes_index) = (&board, &barrier, &path_index, &bytes_index);
            handles.push(sc.spawn(move || {
                let tid = ti as u32 + 1;
                hook::set_thread(tid, mix(h.hseed, tid as u64));
                let mut w = Worker {
                    v, board, h, keys, path_index, bytes_index,
                    log: Vec::with_capacity(script.len() * 8),
                    fails: Vec::new(),
                    known: Default::default(),
                    c: Counters::default(),
                    rng: Rng::new(mix(h.hseed, 500 + tid as u64)),
                };
                barrier.wait();
                let r = std::panic::catch_unwind(std::panic::AssertUnwindSafe(|| {
                    for op in script {
                        w.run_op(*op);
                    }
                }));
                match r {
                    Ok(()) => Ok((w.log, w.fails, w.c)),
                    Err(p) => Err(crate::panic_text(p)),
                }
            }));
        }
        for hd in handles {
            outs.push(hd.join().unwrap_or_else(|p| Err(crate::panic_text(p))));
        }
    });
    tm.mark("threads joined");
    let hh = hook::end_history();
    hook::set_thread(0, 0);

    let mut c = Counters::default();
    let mut events = 0u64;
    let mut panicked = false;
    // (table, val) -> events
    let mut interns: BTreeMap<(u8, u32), Vec<(u32, u32, u64, u64)>> = BTreeMap::new(); // (tid, res, t0, t1)
    let mut gets: BTreeMap<(u8, u32), Vec<(u32, u32, u64, u64)>> = BTreeMap::new();
    for (ti, o) in outs.iter().enumerate() {
        match o {
            Err(m) => {
                panicked = true;
                findings.push(("panic".into(), T_BYTES, format!("thread {} panicked: {}", ti + 1, m)));
            }
            Ok((log, fails, cc)) => {
                c.lookups += cc.lookups;
                c.lookups_published += cc.lookups_published;
                c.ord_pairs += cc.ord_pairs;
                c.serde_roundtrips += cc.serde_roundtrips;
                c.serde_backrefs += cc.serde_backrefs;
                c.serde_bytes += cc.serde_bytes;
                for (rule, t, d) in fails {
                    findings.push((rule.to_string(), *t, format!("thread {}: {}", ti + 1, d)));
                }
                // program order: own intern, then own get_interned -> None
                let mut mine: BTreeSet<(u8, u32)> = BTreeSet::new();
                for e in log {
                    events += 1;
                    let k = (e.table, e.val);
                    if e.is_get {
                        gets.entry(k).or_default().push((ti as u32 + 1, e.res, e.t0, e.t1));
                        if e.res == NONE && mine.contains(&k) {
                            findings.push(("get-none-after-intern".into(), e.table, format!(
                                "thread {} interned value #{} and its own later get_interned returned None", ti + 1, e.val)));
                        }
                    } else {
                        mine.insert(k);
                        interns.entry(k).or_default().push((ti as u32 + 1, e.res, e.t0, e.t1));
                    }
                }
            }
        }
    }

    tm.mark("logs merged");
    // ---- epilogue on the main thread: resolve every interned value through get_interned
    let mut ids: BTreeMap<(u8, u32), BTreeSet<u32>> = BTreeMap::new();
    for (k, evs) in interns.iter().chain(gets.iter()) {
        for e in evs {
            if e.1 < UNKNOWN {
                ids.entry(*k).or_default().insert(e.1);
            }
        }
    }
    let first_id = |ids: &BTreeMap<(u8, u32), BTreeSet<u32>>, t: u8, i: u32| ids.get(&(t, i)).and_then(|s| s.iter().next().copied());
    let keys_of_interned: Vec<(u8, u32)> = interns.keys().copied().collect();
    if !panicked {
        for (t, i) in keys_of_interned {
            let r: Option<Option<u32>> = match t {
                T_BYTES => Some(BytesId::get_interned(&v.bytes[i as usize]).map(|x| x.index())),
                T_PAIR => Some(PairId::get_interned(&Pair(v.pairs[i as usize].0, v.pairs[i as usize].1)).map(|x| x.index())),
                T_PATH => first_id(&ids, t, i).and_then(PathId::from_index_checked).map(|id| PathId::get_interned(&*id.get()).map(|x| x.index())),
                T_NODE => {
                    let nv = &v.nodes[i as usize];
                    let label = first_id(&ids, T_BYTES, nv.label).and_then(StringId::from_index_checked);
                    let kids: Option<Vec<NodeId>> = nv.kids.iter().map(|k| first_id(&ids, T_NODE, *k).and_then(NodeId::from_index_checked)).collect();
                    match (label, kids) {
                        (Some(label), Some(kids)) => Some(NodeId::get_interned(&Node { label, kids }).map(|x| x.index())),
                        _ => None,
                    }
                }
                _ => Some((keys.get)(&v.keys[i as usize])),
            };
            match r {
                Some(Some(idx)) => {
                    ids.entry((t, i)).or_default().insert(idx);
                }
                Some(None) => findings.push(("get-none-after-intern".into(), t, format!(
                    "after join: get_interned(value #{i}) -> None although {} intern call(s) of it returned", interns[&(t, i)].len()))),
                None => {}
            }
            c.lookups += 1;
        }
    }

    tm.mark("epilogue lookups done");
    // ---- bijection
    let mut by_id: BTreeMap<(u8, u32), BTreeSet<Vec<u8>>> = BTreeMap::new();
    for ((t, i), s) in &ids {
        if s.len() > 1 {
            findings.push(("eq-values-distinct-ids".into(), *t, format!(
                "value #{} ({} bytes key) got ids {:?}; intern calls: {:?}", i, value_key(v, *t, *i).len(), s,
                interns.get(&(*t, *i)).map(|e| e.iter().take(6).map(|x| (x.0, x.1)).collect::<Vec<_>>()))));
        }
        for id in s {
            by_id.entry((*t, *id)).or_default().insert(value_key(v, *t, *i));
        }
    }
    for ((t, id), vals) in &by_id {
        if vals.len() > 1 {
            findings.push(("distinct-values-same-id".into(), *t, format!("id {} stands for {} different values", id, vals.len())));
        }
    }

    // ---- per-value linearizability of get_interned
    let (mut gets_none, mut gets_some) = (0u64, 0u64);
    for ((t, i), gs) in &gets {
        let key = (*t, value_key(v, *t, *i));
        let was_known = proc_.known.contains_key(&key);
        let its = interns.get(&(*t, *i));
        let min_t1 = its.map(|x| x.iter().map(|e| e.3).min().unwrap()).unwrap_or(u64::MAX);
        let min_t0 = its.map(|x| x.iter().map(|e| e.2).min().unwrap()).unwrap_or(u64::MAX);
        for (tid, res, t0, t1) in gs {
            if *res == NONE {
                gets_none += 1;
                if was_known {
                    findings.push(("get-none-after-intern".into(), *t, format!(
                        "thread {tid}: get_interned(value #{i}) -> None; the value was interned in an earlier history")));
                } else if h.stamps && *t0 > min_t1 {
                    findings.push(("get-none-after-intern".into(), *t, format!(
                        "thread {tid}: get_interned(value #{i}) -> None started at t={t0}, an intern of it had returned at t={min_t1}")));
                }
            } else {
                gets_some += 1;
                if h.stamps && !was_known && *t1 < min_t0 {
                    findings.push(("get-some-before-intern".into(), *t, format!(
                        "thread {tid}: get_interned(value #{i}) -> Some({res}) returned at t={t1} before any intern of it started (t={min_t0})")));
                }
            }
        }
    }

    tm.mark("bijection + linearizability checked");
    // ---- new values, density, stability
    let (mut new_values, mut multi, mut overlapping, mut dense_checked) = (0u64, 0u64, 0u64, 0u64);
    for (ti, t) in tables.iter().enumerate() {
        let len_after = table_len(*t);
        let mut new_ids: BTreeSet<u32> = BTreeSet::new();
        for ((tt, i), s) in ids.iter().filter(|((tt, _), _)| tt == t) {
            let key = (*tt, value_key(v, *tt, *i));
            let Some(id) = s.iter().next().copied() else { continue };
            match proc_.known.get(&key) {
                Some(old) => {
                    if *old != id {
                        findings.push(("unstable-id".into(), *t, format!("value #{i} had id {old} in an earlier history, now {id}")));
                    }
                }
                None => {
                    new_ids.insert(id);
                    new_values += 1;
                    if let Some(evs) = interns.get(&(*tt, *i)) {
                        let threads: BTreeSet<u32> = evs.iter().map(|e| e.0).collect();
                        if threads.len() >= 2 {
                            multi += 1;
                        }
                        if h.stamps {
                            'o: for (x, a) in evs.iter().enumerate() {
                                for b in &evs[x + 1..] {
                                    if a.0 != b.0 && a.2 < b.3 && b.2 < a.3 {
                                        overlapping += 1;
                                        break 'o;
                                    }
                                }
                            }
                        }
                    }
                    if s.len() == 1 {
                        proc_.known.insert(key, id);
                    }
                }
            }
        }
        if !panicked {
            dense_checked += 1;
            let want: BTreeSet<u32> = (len_before[ti] as u32..len_after as u32).collect();
            if new_ids != want {
                let missing: Vec<u32> = want.difference(&new_ids).take(4).copied().collect();
                let extra: Vec<u32> = new_ids.difference(&want).take(4).copied().collect();
                findings.push(("not-dense".into(), *t, format!(
                    "table grew from {} to {} but the {} new values of the history got ids not equal to that range: unassigned {:?}, outside {:?}",
                    len_before[ti], len_after, new_ids.len(), missing, extra)));
            }
        }
    }
    tm.mark("density checked");
    Outcome {
        findings, events, c, hh, new_values,
        new_values_interned_by_2plus_threads: multi,
        overlapping_same_value_interns: overlapping,
        gets_none, gets_some, dense_tables_checked: dense_checked,
    }
}

// ---------------------------------------------------------------- process driver
#[derive(Serialize, Deserialize)]
struct Blob {
    bincode: Vec<u8>,
    json: String,
    plain: Plain,
    leaves: u64,
}

fn sig(rule: &str, t: u8) -> String {
    format!("C05/{}/{}", rule, TABLE_NAMES[t as usize])
}

pub fn run(a: &Args) -> Report {
    hook::install();
    let mut rep = Report::new("c05");
    let mut proc_ = Proc::default();
    proc_.known.insert((T_BYTES, Vec::new()), 0);
    proc_.known.insert((T_PAIR, format!("{:?}", (0u32, 0u32)).into_bytes()), 0);
    let mut fp_full = BTreeSet::new();
    let mut fp_cont = BTreeSet::new();
    let mut fp_nontrivial = BTreeSet::new();
    let mut by_plan: BTreeMap<String, u64> = BTreeMap::new();
    let (mut stamped, mut truncated) = (0u64, 0u64);
    let mut last: Option<(HistCfg, Values)> = None;
    for i in a.start..a.count {
        let hseed = match a.only_hseed {
            Some(s) => s,
            None => mix(a.seed, i),
        };
        crate::progress(a, i, hseed);
        // the index inside this process salts the values: every history interns fresh values
        let tm = crate::Timing::new(a);
        let (h, v) = gen_history(hseed, i - a.start, a);
        tm.mark("generated");
        let out = run_history(&h, &v, &mut proc_, &tm);
        rep.histories += 1;
        rep.events += out.events;
        *by_plan.entry(h.plan.style.to_string()).or_default() += 1;
        stamped += h.stamps as u64;
        truncated += out.hh.truncated as u64;
        rep.add_stat("lookups_checked", out.c.lookups);
        rep.add_stat("lookups_of_ids_published_by_other_threads", out.c.lookups_published);
        rep.add_stat("ord_pairs_checked", out.c.ord_pairs);
        rep.add_stat("serde_roundtrips", out.c.serde_roundtrips);
        rep.add_stat("serde_backrefs_seen_in_json", out.c.serde_backrefs);
        rep.add_stat("serde_bytes", out.c.serde_bytes);
        rep.add_stat("new_values", out.new_values);
        rep.add_stat("new_values_interned_by_2plus_threads", out.new_values_interned_by_2plus_threads);
        rep.add_stat("new_values_with_overlapping_interns_from_2_threads", out.overlapping_same_value_interns);
        rep.add_stat("get_interned_none", out.gets_none);
        rep.add_stat("get_interned_some", out.gets_some);
        rep.add_stat("dense_range_checks", out.dense_tables_checked);
        rep.add_stat("try_write_failures", out.hh.hits[4]);
        rep.add_stat("read_path_hits_under_contention", out.hh.hits[4].saturating_sub(out.hh.hits[5]));
        rep.add_stat("read_path_misses_then_blocking_write", out.hh.hits[5]);
        fp_full.insert(out.hh.fp_full);
        fp_cont.insert(out.hh.fp_contention);
        // non-trivial: a new value was interned by >= 2 threads and the shard lock was contended at least once
        let nontrivial = out.new_values_interned_by_2plus_threads >= 1 && out.hh.hits[4] >= 1;
        if nontrivial {
            rep.nontrivial += 1;
            fp_nontrivial.insert(out.hh.fp_full);
        }
        if rep.samples.len() < a.samples {
            let mut d = h.describe(&v);
            d["events"] = json!(out.events);
            d["new_values_interned_by_2plus_threads"] = json!(out.new_values_interned_by_2plus_threads);
            d["contention_hits_in_order(site<<8|thread)"] = json!(out.hh.contention_seq.iter().take(24).collect::<Vec<_>>());
            d["first_ops_thread1"] = json!(h.scripts[0].iter().take(6).map(|o| format!("{:?}", o)).collect::<Vec<_>>());
            rep.samples.push(d);
        }
        for (rule, t, detail) in out.findings {
            if rep.findings.len() < 40 {
                rep.findings.push(Finding { property: "C05".into(), signature: sig(&rule, t), rule, detail, case: h.describe(&v) });
            } else {
                rep.findings_dropped += 1;
            }
        }
        last = Some((h, v));
    }
    // blob for a fresh process: "data serialized with intern sharing deserializes to equal values"
    if let (Some(path), Some((h, v))) = (&a.blob_out, &last) {
        let path_index: HashMap<Vec<String>, u32> = v.paths.iter().enumerate().map(|(i, p)| (p.comps.clone(), i as u32)).collect();
        let bytes_index: HashMap<Vec<u8>, u32> = v.bytes.iter().enumerate().map(|(i, b)| (b.clone(), i as u32)).collect();
        let sizes = [v.bytes.len(), v.paths.len(), v.pairs.len(), v.nodes.len(), v.keys.len(), v.keys.len(), v.keys.len(), v.keys.len()];
        let board = Board { slots: std::array::from_fn(|t| (0..sizes[t]).map(|_| AtomicU32::new(0)).collect()) };
        let mut w = Worker {
            v, board: &board, h, keys: key_ops(h.key_table - T_KEY0), path_index: &path_index, bytes_index: &bytes_index,
            log: Vec::new(), fails: Vec::new(), known: Default::default(), c: Counters::default(), rng: Rng::new(a.seed),
        };
        let mut rng = Rng::new(mix(a.seed, 77));
        let mut items = Vec::new();
        let mut plains = Vec::new();
        for _ in 0..40 {
            let (t, p) = w.gen_tree(&mut rng, 4);
            items.push(t);
            plains.push(p);
        }
        let (tree, plain) = (Tree::L(items), Plain::L(plains));
        let blob = Blob {
            bincode: bincode::serialize(&WithIntern(&tree)).unwrap(),
            json: serde_json::to_string(&WithIntern(&tree)).unwrap(),
            leaves: count_leaves(&tree),
            plain,
        };
        std::fs::write(path, serde_json::to_vec(&blob).unwrap()).expect("write blob");
        rep.add_stat("blob_leaves_written", blob.leaves);
    }
    rep.finish_hooks();
    rep.fp_full = fp_full.into_iter().map(|x| format!("{:016x}", x)).collect();
    rep.fp_contention = fp_cont.into_iter().map(|x| format!("{:016x}", x)).collect();
    rep.fp_nontrivial = fp_nontrivial.into_iter().map(|x| format!("{:016x}", x)).collect();
    rep.extra = json!({"histories_by_plan": by_plan, "stamped_histories": stamped, "hook_log_truncated": truncated,
                       "table_len_at_exit": {"bytes": table_len(T_BYTES), "paths": table_len(T_PATH), "pairs": table_len(T_PAIR),
                                             "nodes": table_len(T_NODE), "keys3": table_len(T_KEY0 + 3)}});
    rep
}

/// fresh process: deserialize a blob written by another process; ids differ, values must not
pub fn serde_load(a: &Args) -> Report {
    let mut rep = Report::new("serde-load");
    let path = a.blob_in.clone().expect("--blob-in");
    let blob: Blob = serde_json::from_slice(&std::fs::read(&path).expect("read blob")).expect("blob json");
    rep.histories = 1;
    let mut check = |what: &str, r: Result<Tree, String>| match r {
        Err(e) => rep.findings.push(Finding {
            property: "C05".into(), rule: "serde-roundtrip".into(), signature: sig("serde-roundtrip", T_BYTES),
            detail: format!("fresh process, {what}: {e}"), case: json!({"blob": path}),
        }),
        Ok(t) => {
            if plain_of(&t) != blob.plain {
                rep.findings.push(Finding {
                    property: "C05".into(), rule: "serde-roundtrip".into(), signature: sig("serde-roundtrip", T_BYTES),
                    detail: format!("fresh process, {what}: deserialized values differ from the serialized ones"), case: json!({"blob": path}),
                });
            }
            rep.events += count_leaves(&t);
        }
    };
    check("bincode", WithIntern::strip(bincode::deserialize::<WithIntern<Tree>>(&blob.bincode)).map_err(|e| e.to_string()));
    check("json", WithIntern::strip(serde_json::from_str::<WithIntern<Tree>>(&blob.json)).map_err(|e| e.to_string()));
    rep.add_stat("blob_leaves_loaded", blob.leaves);
    rep.add_stat("byte_table_len_after_load", table_len(T_BYTES) as u64);
    rep
}
