//! C06: workloads + history recorder + offline checker for `AtomicArena`.
//!
//! Every element carries a unique id, so a read identifies the write it saw.
//! Threads append events to their own pre-allocated logs; stamps come from one
//! monitor-owned counter.  After `join` the merged logs are checked:
//!   ref-twice      two adds returned the same Ref
//!   get-mismatch   get(r) did not read the element added under r
//!   len-decrease   one observer saw len() go down
//!   len-bounds     len() < adds completed before the call / > adds started before the return (stamped histories)
//!   len-final      len() after join != prefill + completed adds
//!   drop-count     after drop(arena) an element was dropped 0 or >1 times
//!   garbage-drop   drop ran on memory that never held an element
//!   panic          the real code panicked
use std::sync::atomic::Ordering::{Acquire, Relaxed, Release, SeqCst};
use std::sync::atomic::{AtomicU8, AtomicU32, AtomicU64};
use std::sync::{Barrier, OnceLock};

use intern::verif::{AtomicArena, Ref, Zero};
use serde_json::{Value, json};

use crate::hook::{self, Plan};
use crate::rng::{Rng, mix};
use crate::{Args, Finding, Report};

const MAGIC: u32 = 0x5EED_C0DE;
const MAX_ELEMS: usize = if cfg!(miri) { 1 << 10 } else { 1 << 15 };
const ZERO_ID: u32 = 0x00FF_FFF0;
pub const BOUNDARIES: [u32; 7] = [0, 128, 384, 896, 1920, 3968, 8064];

static CLOCK: AtomicU64 = AtomicU64::new(0);
static DROPS: OnceLock<Vec<AtomicU8>> = OnceLock::new();
static GARBAGE_DROPS: AtomicU32 = AtomicU32::new(0);
static ZST_DROPS: AtomicU32 = AtomicU32::new(0);

fn stamp(on: bool) -> u64 {
    if on { CLOCK.fetch_add(1, SeqCst) + 1 } else { 0 }
}

fn drops() -> &'static Vec<AtomicU8> {
    DROPS.get_or_init(|| (0..MAX_ELEMS).map(|_| AtomicU8::new(0)).collect())
}

fn note_drop(intact: bool, id: u32) {
    if id == ZERO_ID && intact {
        return;
    }
    if intact && (id as usize) < MAX_ELEMS {
        let c = &drops()[id as usize];
        let v = c.load(Relaxed);
        c.store(v.saturating_add(1), Relaxed);
    } else {
        GARBAGE_DROPS.fetch_add(1, Relaxed);
    }
}

pub trait Elem: Send + Sync + 'static {
    #[allow(dead_code)]
    const KIND: &'static str;
    const READABLE: bool = true;
    fn make(id: u32) -> Self;
    /// id if the memory holds an intact element, None for garbage
    fn read(&self) -> Option<u32>;
}

pub struct Small {
    magic: u32,
    id: u32,
}
impl Elem for Small {
    const KIND: &'static str = "small8";
    fn make(id: u32) -> Self {
        Small { magic: MAGIC, id }
    }
    fn read(&self) -> Option<u32> {
        if self.magic == MAGIC { Some(self.id) } else { None }
    }
}
impl Drop for Small {
    fn drop(&mut self) {
        note_drop(self.magic == MAGIC, self.id)
    }
}

pub struct Big {
    magic: u64,
    id: u32,
    pad: [u64; 30],
    tail: u64,
}
impl Big {
    fn intact(&self) -> bool {
        self.magic == MAGIC as u64
            && self.tail == !(self.id as u64)
            && self.pad.iter().enumerate().all(|(i, p)| *p == (self.id as u64) * 31 + i as u64)
    }
}
impl Elem for Big {
    const KIND: &'static str = "big264";
    fn make(id: u32) -> Self {
        let mut pad = [0u64; 30];
        for (i, p) in pad.iter_mut().enumerate() {
            *p = (id as u64) * 31 + i as u64;
        }
        Big { magic: MAGIC as u64, id, pad, tail: !(id as u64) }
    }
    fn read(&self) -> Option<u32> {
        if self.intact() { Some(self.id) } else { None }
    }
}
impl Drop for Big {
    fn drop(&mut self) {
        note_drop(self.intact(), self.id)
    }
}

/// heap-owning element: a wrong drop / read is a real memory error (Miri, ASan, SIGSEGV)
pub struct Heap {
    b: Box<(u32, u32)>,
    s: String,
}
impl Elem for Heap {
    const KIND: &'static str = "heap";
    fn make(id: u32) -> Self {
        Heap { b: Box::new((MAGIC, id)), s: String::from("heap-element") }
    }
    fn read(&self) -> Option<u32> {
        if self.b.0 == MAGIC && self.s == "heap-element" { Some(self.b.1) } else { None }
    }
}
impl Drop for Heap {
    fn drop(&mut self) {
        note_drop(self.b.0 == MAGIC, self.b.1)
    }
}

pub struct Zst;
impl Elem for Zst {
    const KIND: &'static str = "zst";
    const READABLE: bool = false;
    fn make(_: u32) -> Self {
        Zst
    }
    fn read(&self) -> Option<u32> {
        None
    }
}
impl Drop for Zst {
    fn drop(&mut self) {
        ZST_DROPS.fetch_add(1, Relaxed);
    }
}

// static arenas with a distinguished zero element (never dropped, persist over histories)
static Z0: Zero<Small> = Zero::new(Small { magic: MAGIC, id: ZERO_ID });
static Z1: Zero<Small> = Zero::new(Small { magic: MAGIC, id: ZERO_ID });
static Z2: Zero<Small> = Zero::new(Small { magic: MAGIC, id: ZERO_ID });
static Z3: Zero<Small> = Zero::new(Small { magic: MAGIC, id: ZERO_ID });
static A0: AtomicArena<'static, Small> = AtomicArena::with_zero(&Z0);
static A1: AtomicArena<'static, Small> = AtomicArena::with_zero(&Z1);
static A2: AtomicArena<'static, Small> = AtomicArena::with_zero(&Z2);
static A3: AtomicArena<'static, Small> = AtomicArena::with_zero(&Z3);
fn static_arena(i: usize) -> &'static AtomicArena<'static, Small> {
    [&A0, &A1, &A2, &A3][i]
}

/// ref index -> element id (refs are small dense numbers; no hashing, Miri is slow at it)
#[derive(Default)]
struct RefMap(Vec<Option<u32>>);
impl RefMap {
    fn insert(&mut self, r: u32, id: u32) -> Option<u32> {
        let r = r as usize;
        if r >= (1 << 20) {
            return Some(u32::MAX); // absurd ref index: reported as a duplicate of "nothing"
        }
        if r >= self.0.len() {
            self.0.resize(r + 1, None);
        }
        self.0[r].replace(id)
    }
    fn get(&self, r: &u32) -> Option<&u32> {
        self.0.get(*r as usize).and_then(|x| x.as_ref())
    }
    fn iter(&self) -> impl Iterator<Item = (u32, u32)> + '_ {
        self.0.iter().enumerate().filter_map(|(r, id)| id.map(|id| (r as u32, id)))
    }
    fn len(&self) -> usize {
        self.iter().count()
    }
}

#[derive(Clone, Copy, Debug, PartialEq)]
enum Op {
    Add,
    GetOwn,
    GetLatest(u32),
    GetAny(u32),
    Len,
}

#[derive(Clone, Copy)]
enum Ev {
    Add { id: u32, r: u32, t0: u64, t1: u64 },
    Get { r: u32, seen: Option<u32>, how: u8 },
    Len { l: u32, t0: u64, t1: u64 },
}

struct HistCfg {
    hseed: u64,
    kind: &'static str,
    static_idx: Option<usize>,
    threads: u32,
    boundary: u32,
    prefill_to: u32,
    stamps: bool,
    plan: Plan,
    scripts: Vec<Vec<Op>>,
}

impl HistCfg {
    fn describe(&self) -> Value {
        json!({"history_seed": self.hseed.to_string(), "elem": self.kind, "static_zero_arena": self.static_idx,
               "threads": self.threads, "boundary": self.boundary, "prefill_to": self.prefill_to,
               "stamps": self.stamps, "plan": self.plan.describe(),
               "ops_per_thread": self.scripts.iter().map(|s| s.len()).collect::<Vec<_>>()})
    }
}

fn gen_history(hseed: u64, a: &Args, static_len: &[usize; 4]) -> HistCfg {
    let mut rng = Rng::new(hseed);
    let miri = a.profile == "miri";
    let mut kind = match rng.below(20) {
        0..=8 => "small8",
        9..=11 => "big264",
        12..=15 => "heap",
        16 => "zst",
        _ => "static",
    };
    let mut static_idx = None;
    if kind == "static" {
        let i = rng.below(4) as usize;
        if static_len[i] < if miri { 100 } else { 3000 } {
            static_idx = Some(i);
        } else {
            kind = "small8";
        }
    }
    let threads = if rng.chance(7, 10) { rng.range(2, 3) } else { rng.range(2, a.threads.max(2) as u64) } as u32;
    let boundary = if let Some(i) = static_idx {
        let l = static_len[i] as u32;
        *BOUNDARIES.iter().find(|b| **b > l + 3).unwrap()
    } else if miri {
        match rng.below(20) {
            0..=8 => 0,
            9..=18 => 128,
            _ => 384,
        }
    } else {
        match rng.below(20) {
            0..=4 => 0,
            5..=10 => 128,
            11..=14 => 384,
            15..=17 => 896,
            18 => 1920,
            _ => {
                if a.ops >= 200 { 3968 } else { 1920 }
            }
        }
    };
    let k = rng.below(4) as u32;
    let prefill_to = boundary.saturating_sub(k);
    let stamps = match a.stamps {
        Some(s) => s,
        None => rng.chance(if miri { 3 } else { 5 }, 10),
    };
    let plan = if a.no_delays { Plan::off() } else { Plan::generate(&mut rng, true) };
    let mut scripts = Vec::new();
    for _ in 0..threads {
        let n = rng.range(2.min(a.ops as u64), a.ops as u64) as usize;
        let mut s = vec![Op::Add];
        while s.len() < n {
            let op = match rng.below(20) {
                0..=9 => Op::Add,
                10..=13 => Op::GetLatest(rng.below(threads as u64) as u32),
                14..=16 => Op::GetAny(rng.next() as u32),
                17..=18 => Op::Len,
                _ => Op::GetOwn,
            };
            s.push(op);
        }
        scripts.push(s);
    }
    HistCfg { hseed, kind, static_idx, threads, boundary, prefill_to, stamps, plan, scripts }
}

struct Outcome {
    findings: Vec<(String, String)>, // (rule, detail)
    events: u64,
    adds: u64,
    gets: u64,
    gets_cross_thread: u64,
    lens: u64,
    buckets_crossed: u32,
    last_ref_elem: Option<u32>,
    hh: hook::HistHook,
}

fn run_history<E: Elem>(h: &HistCfg, arena: &AtomicArena<'static, E>, owned: bool) -> Outcome {
    let mut findings: Vec<(String, String)> = Vec::new();
    let start_len = arena.len() as u32; // 0, or the persistent length of a static arena
    hook::set_thread(0, 0);
    // ---- prefill from the main thread (not delayed, not logged by the hook)
    let mut next_id: u32 = 0;
    let mut by_ref = RefMap::default(); // ref index -> element id
    let mut add_events: Vec<(u32, u32, u64, u64)> = Vec::new();
    while (arena.len() as u32) < h.prefill_to {
        let r = arena.add(E::make(next_id));
        if by_ref.insert(r.index(), next_id).is_some() {
            findings.push(("ref-twice".into(), format!("prefill: ref {} returned twice", r.index())));
        }
        next_id += 1;
    }
    let prefilled = next_id;
    let bases: Vec<u32> = {
        let mut v = Vec::new();
        let mut b = prefilled;
        for s in &h.scripts {
            v.push(b);
            b += s.iter().filter(|o| **o == Op::Add).count() as u32;
        }
        v.push(b);
        v
    };
    let total_ids = *bases.last().unwrap();
    assert!((total_ids as usize) < MAX_ELEMS);
    for c in drops().iter().take(total_ids as usize) {
        c.store(0, Relaxed);
    }
    GARBAGE_DROPS.store(0, Relaxed);
    ZST_DROPS.store(0, Relaxed);
    // monitor-owned publication board: the thread-safe hand-off the doc comment of get() requires
    let slots: Vec<AtomicU32> = (0..total_ids).map(|_| AtomicU32::new(0)).collect();
    let latest: Vec<AtomicU32> = (0..h.threads).map(|_| AtomicU32::new(0)).collect();
    for (r, id) in by_ref.iter() {
        slots[id as usize].store(r + 1, Relaxed);
    }
    let barrier = Barrier::new(h.threads as usize);
    hook::begin_history(&h.plan);
    let stamps = h.stamps;
    let mut logs: Vec<Result<Vec<Ev>, String>> = Vec::new();
    std::thread::scope(|sc| {
        let mut handles = Vec::new();
        for (ti, script) in h.scripts.iter().enumerate() {
            let (slots, latest, barrier, bases) = (&slots, &latest, &barrier, &bases);
            let hseed = h.hseed;
            handles.push(sc.spawn(move || {
                let tid = ti as u32 + 1;
                hook::set_thread(tid, mix(hseed, tid as u64));
                let mut log: Vec<Ev> = Vec::with_capacity(script.len());
                let mut own: Vec<u32> = Vec::new();
                let mut k = 0u32;
                let mut rng = Rng::new(mix(hseed, 1000 + tid as u64));
                barrier.wait();
                let res = std::panic::catch_unwind(std::panic::AssertUnwindSafe(|| {
                    for op in script {
                        match *op {
                            Op::Add => {
                                let id = bases[ti] + k;
                                k += 1;
                                let e = E::make(id);
                                let t0 = stamp(stamps);
                                let r = arena.add(e);
                                let t1 = stamp(stamps);
                                log.push(Ev::Add { id, r: r.index(), t0, t1 });
                                own.push(r.index());
                                slots[id as usize].store(r.index() + 1, Release);
                                latest[ti].store(id + 1, Release);
                            }
                            Op::GetOwn => {
                                if !own.is_empty() {
                                    let ri = own[rng.below(own.len() as u64) as usize];
                                    let r: Ref<'static, E> = unsafe { Ref::from_index(ri) };
                                    log.push(Ev::Get { r: ri, seen: arena.get(r).read(), how: 0 });
                                }
                            }
                            Op::GetLatest(t) => {
                                let e = latest[t as usize].load(Acquire);
                                if e > 0 {
                                    let ri = slots[(e - 1) as usize].load(Acquire);
                                    if ri > 0 {
                                        let r: Ref<'static, E> = unsafe { Ref::from_index(ri - 1) };
                                        log.push(Ev::Get { r: ri - 1, seen: arena.get(r).read(), how: 1 });
                                    }
                                }
                            }
                            Op::GetAny(x) => {
                                let ri = slots[(x % total_ids.max(1)) as usize].load(Acquire);
                                if ri > 0 {
                                    let r: Ref<'static, E> = unsafe { Ref::from_index(ri - 1) };
                                    log.push(Ev::Get { r: ri - 1, seen: arena.get(r).read(), how: 2 });
                                }
                            }
                            Op::Len => {
                                let t0 = stamp(stamps);
                                let l = arena.len() as u32;
                                let t1 = stamp(stamps);
                                log.push(Ev::Len { l, t0, t1 });
                            }
                        }
                    }
                }));
                match res {
                    Ok(()) => Ok(log),
                    Err(p) => Err(crate::panic_text(p)),
                }
            }));
        }
        for hd in handles {
            logs.push(hd.join().unwrap_or_else(|p| Err(crate::panic_text(p))));
        }
    });
    let hh = hook::end_history();
    hook::set_thread(0, 0);

    // ---- offline checks over the merged logs
    let mut events = 0u64;
    let (mut adds, mut gets, mut gets_cross, mut lens) = (0u64, 0u64, 0u64, 0u64);
    let mut completed_adds = 0u32;
    let mut panicked = false;
    for (ti, l) in logs.iter().enumerate() {
        match l {
            Err(msg) => {
                panicked = true;
                findings.push(("panic".into(), format!("thread {} panicked: {}", ti + 1, msg)));
            }
            Ok(l) => {
                for e in l {
                    events += 1;
                    if let Ev::Add { id, r, t0, t1 } = *e {
                        adds += 1;
                        completed_adds += 1;
                        add_events.push((id, r, t0, t1));
                        if let Some(prev) = by_ref.insert(r, id) {
                            findings.push(("ref-twice".into(), format!(
                                "ref index {} returned for element {} and for element {} (thread {})", r, prev, id, ti + 1)));
                        }
                    }
                }
            }
        }
    }
    let mut t1s: Vec<u64> = add_events.iter().map(|e| e.3).collect();
    let mut t0s: Vec<u64> = add_events.iter().map(|e| e.2).collect();
    t1s.sort_unstable();
    t0s.sort_unstable();
    for (ti, l) in logs.iter().enumerate() {
        let Ok(l) = l else { continue };
        let mut last_len: Option<u32> = None;
        let mut own_adds = 0u32;
        for e in l {
            match *e {
                Ev::Add { .. } => own_adds += 1,
                Ev::Get { r, seen, how } => {
                    gets += 1;
                    if how != 0 {
                        gets_cross += 1;
                    }
                    if E::READABLE {
                        match by_ref.get(&r) {
                            Some(id) if seen == Some(*id) => {}
                            exp => findings.push(("get-mismatch".into(), format!(
                                "thread {} get(ref {}) read {:?}, element added under that ref: {:?}", ti + 1, r, seen, exp))),
                        }
                    }
                }
                Ev::Len { l, t0, t1 } => {
                    lens += 1;
                    if let Some(p) = last_len {
                        if l < p {
                            findings.push(("len-decrease".into(), format!("thread {} saw len {} after {}", ti + 1, l, p)));
                        }
                    }
                    last_len = Some(l);
                    let base = start_len.max(h.prefill_to);
                    if l < base + own_adds {
                        findings.push(("len-bounds".into(), format!(
                            "thread {} saw len {} < prefill {} + own completed adds {}", ti + 1, l, base, own_adds)));
                    }
                    if stamps {
                        let done_before = t1s.partition_point(|x| *x < t0) as u32;
                        let started_before = t0s.partition_point(|x| *x < t1) as u32;
                        if l < base + done_before || l > base + started_before {
                            findings.push(("len-bounds".into(), format!(
                                "thread {} len()={} outside [{} completed before call, {} started before return] (+{} prefilled)",
                                ti + 1, l, done_before, started_before, base)));
                        }
                    }
                }
            }
        }
    }
    let final_len = arena.len() as u32;
    let expect_len = start_len.max(h.prefill_to) + completed_adds;
    if !panicked && final_len != expect_len {
        findings.push(("len-final".into(), format!("len() after join = {}, completed adds (+prefill) = {}", final_len, expect_len)));
    }
    // every ref reads back its element from the main thread, after all buckets were allocated
    if E::READABLE && !panicked {
        let r = std::panic::catch_unwind(std::panic::AssertUnwindSafe(|| {
            let mut bad = Vec::new();
            for (ri, id) in by_ref.iter() {
                let r: Ref<'static, E> = unsafe { Ref::from_index(ri) };
                let seen = arena.get(r).read();
                if seen != Some(id) {
                    bad.push(format!("final get(ref {}) read {:?}, expected element {}", ri, seen, id));
                }
            }
            bad
        }));
        match r {
            Ok(bad) => {
                gets += by_ref.len() as u64;
                for b in bad.into_iter().take(3) {
                    findings.push(("get-mismatch".into(), b));
                }
            }
            Err(p) => findings.push(("panic".into(), format!("final read-back panicked: {}", crate::panic_text(p)))),
        }
    }
    let base = start_len.max(h.prefill_to);
    let buckets_crossed = BOUNDARIES.iter().filter(|b| **b >= base && **b < final_len).count() as u32;
    let _ = owned;
    let last_ref_elem = by_ref.iter().last().map(|(_, id)| id);
    Outcome { findings, events, adds, gets, gets_cross_thread: gets_cross, lens, buckets_crossed, last_ref_elem, hh }
}

fn check_drops(h: &HistCfg, total_ids: u32, zst: bool, out: &mut Outcome) {
    if zst {
        let d = ZST_DROPS.load(Relaxed);
        if d != total_ids {
            out.findings.push(("drop-count".into(), format!("{} zero-sized elements added, {} dropped", total_ids, d)));
        }
        return;
    }
    let mut bad = Vec::new();
    for (id, c) in drops().iter().take(total_ids as usize).enumerate() {
        let v = c.load(Relaxed);
        if v != 1 {
            bad.push((id, v));
        }
    }
    if !bad.is_empty() {
        let which = if bad.len() == 1 && Some(bad[0].0 as u32) == out.last_ref_elem { "the one under the highest ref" } else { "some" };
        out.findings.push(("drop-count".into(), format!(
            "{} element(s) ({}) not dropped exactly once after drop(arena): first (id,count)={:?} of {} elements; boundary {} prefill {}",
            bad.len(), which, &bad[..bad.len().min(4)], total_ids, h.boundary, h.prefill_to)));
    }
    let g = GARBAGE_DROPS.load(Relaxed);
    if g != 0 {
        out.findings.push(("garbage-drop".into(), format!("{} drops ran on memory that never held an element", g)));
    }
}

fn run_owned<E: Elem>(h: &HistCfg) -> Outcome {
    let arena: AtomicArena<'static, E> = AtomicArena::new();
    let mut out = run_history::<E>(h, &arena, true);
    let n = arena.len() as u32;
    let panicked = out.findings.iter().any(|f| f.0 == "panic");
    let r = std::panic::catch_unwind(std::panic::AssertUnwindSafe(move || drop(arena)));
    if let Err(p) = r {
        out.findings.push(("panic".into(), format!("drop(arena) panicked: {}", crate::panic_text(p))));
    } else if !panicked {
        check_drops(h, n, !E::READABLE, &mut out);
    }
    out
}

pub fn run(a: &Args) -> Report {
    hook::install();
    let mut rep = Report::new("c06");
    let mut static_len = [1usize; 4];
    let mut fp_full = std::collections::BTreeSet::new();
    let mut fp_cont = std::collections::BTreeSet::new();
    let mut fp_nontrivial = std::collections::BTreeSet::new();
    let mut race_hist = [0u64; 9];
    let mut by_kind: std::collections::BTreeMap<String, u64> = Default::default();
    let mut by_boundary: std::collections::BTreeMap<String, u64> = Default::default();
    let mut by_plan: std::collections::BTreeMap<String, u64> = Default::default();
    let (mut stamped, mut truncated) = (0u64, 0u64);
    for i in a.start..a.count {
        let hseed = match a.only_hseed {
            Some(s) => s,
            None => mix(a.seed, i),
        };
        crate::progress(a, i, hseed);
        let h = gen_history(hseed, a, &static_len);
        let out = match (h.kind, h.static_idx) {
            ("static", Some(ix)) => {
                let o = run_history::<Small>(&h, static_arena(ix), false);
                static_len[ix] = static_arena(ix).len();
                // the zero element stays readable
                let z = static_arena(ix).get(Zero::<Small>::zero()).read();
                let mut o = o;
                if z != Some(ZERO_ID) {
                    o.findings.push(("get-mismatch".into(), format!("zero element of static arena reads {:?}", z)));
                }
                o
            }
            ("big264", _) => run_owned::<Big>(&h),
            ("heap", _) => run_owned::<Heap>(&h),
            ("zst", _) => run_owned::<Zst>(&h),
            _ => run_owned::<Small>(&h),
        };
        rep.histories += 1;
        rep.events += out.events;
        *by_kind.entry(h.kind.to_string()).or_default() += 1;
        *by_boundary.entry(h.boundary.to_string()).or_default() += 1;
        *by_plan.entry(h.plan.style.to_string()).or_default() += 1;
        if h.stamps {
            stamped += 1;
        }
        if out.hh.truncated {
            truncated += 1;
        }
        rep.add_stat("adds", out.adds);
        rep.add_stat("gets", out.gets);
        rep.add_stat("gets_via_published_ref_of_other_thread", out.gets_cross_thread);
        rep.add_stat("len_observations", out.lens);
        rep.add_stat("bucket_boundaries_crossed_concurrently", out.buckets_crossed as u64);
        let mut max_racers = 0;
        for (_, mask) in &out.hh.null_bucket_threads {
            let n = mask.count_ones() as usize;
            race_hist[n.min(8)] += 1;
            max_racers = max_racers.max(n);
        }
        // non-trivial: >=2 worker threads found the same bucket pointer null (raced into slice_for_slot_slow)
        let nontrivial = max_racers >= 2;
        fp_full.insert(out.hh.fp_full);
        fp_cont.insert(out.hh.fp_contention);
        if nontrivial {
            rep.nontrivial += 1;
            fp_nontrivial.insert(out.hh.fp_full);
        }
        if rep.samples.len() < a.samples {
            let mut d = h.describe();
            d["events"] = json!(out.events);
            d["threads_that_found_bucket_null"] = json!(out.hh.null_bucket_threads.iter()
                .map(|(a, m)| format!("bucket{}:threads{:#b}", a, m)).collect::<Vec<_>>());
            d["contention_hits_in_order(site<<8|thread)"] = json!(out.hh.contention_seq.iter().take(24).collect::<Vec<_>>());
            rep.samples.push(d);
        }
        for (rule, detail) in out.findings {
            if rep.findings.len() < 40 {
                rep.findings.push(Finding {
                    property: "C06".into(),
                    signature: format!("C06/{}", rule),
                    rule,
                    detail,
                    case: h.describe(),
                });
            } else {
                rep.findings_dropped += 1;
            }
        }
    }
    rep.finish_hooks();
    rep.fp_full = fp_full.into_iter().map(|x| format!("{:016x}", x)).collect();
    rep.fp_contention = fp_cont.into_iter().map(|x| format!("{:016x}", x)).collect();
    rep.fp_nontrivial = fp_nontrivial.into_iter().map(|x| format!("{:016x}", x)).collect();
    rep.extra = json!({
        "same_bucket_null_seen_by_n_threads": race_hist.iter().enumerate().skip(1)
            .map(|(n, c)| (n.to_string(), json!(c))).collect::<serde_json::Map<_, _>>(),
        "histories_by_elem": by_kind, "histories_by_boundary": by_boundary, "histories_by_plan": by_plan,
        "stamped_histories": stamped, "hook_log_truncated": truncated,
    });
    rep
}
