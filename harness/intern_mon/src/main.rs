//! intern_mon - engine E2: concurrency monitor for /repo/relay-crates/intern.
//!
//! Links the real crate (hook H2 on), runs seeded concurrent workloads with
//! delay injection, records per-thread event logs and checks them offline.
//! Prints one JSON report line on stdout.
mod c05;
mod c06;
mod hook;
mod rng;

use std::collections::BTreeMap;

use serde::Serialize;
use serde_json::Value;

#[derive(Clone, Debug)]
pub struct Args {
    pub mode: String,
    pub seed: u64,
    pub count: u64,
    pub start: u64,
    pub threads: u32,
    pub ops: u32,
    pub profile: String,
    pub samples: usize,
    pub progress: Option<String>,
    pub stamps: Option<bool>,
    pub no_delays: bool,
    pub only_hseed: Option<u64>,
    pub blob_out: Option<String>,
    pub blob_in: Option<String>,
    pub timing: bool,
}

#[derive(Serialize, Clone, Debug)]
pub struct Finding {
    pub property: String,
    pub rule: String,
    pub signature: String,
    pub detail: String,
    pub case: Value,
}

#[derive(Serialize, Debug)]
pub struct Report {
    pub tool: &'static str,
    pub mode: String,
    pub histories: u64,
    pub nontrivial: u64,
    pub events: u64,
    pub stats: BTreeMap<String, u64>,
    pub hook_hits: BTreeMap<String, u64>,
    pub delays_injected: u64,
    pub rendezvous_met: u64,
    pub fp_full: Vec<String>,
    pub fp_contention: Vec<String>,
    pub fp_nontrivial: Vec<String>,
    pub findings: Vec<Finding>,
    pub findings_dropped: u64,
    pub samples: Vec<Value>,
    pub extra: Value,
}

impl Report {
    pub fn new(mode: &str) -> Report {
        Report {
            tool: "intern_mon",
            mode: mode.into(),
            histories: 0,
            nontrivial: 0,
            events: 0,
            stats: BTreeMap::new(),
            hook_hits: BTreeMap::new(),
            delays_injected: 0,
            rendezvous_met: 0,
            fp_full: vec![],
            fp_contention: vec![],
            fp_nontrivial: vec![],
            findings: vec![],
            findings_dropped: 0,
            samples: vec![],
            extra: Value::Null,
        }
    }
    pub fn add_stat(&mut self, k: &str, v: u64) {
        *self.stats.entry(k.to_string()).or_default() += v;
    }
    pub fn finish_hooks(&mut self) {
        let (h, d, r) = hook::totals();
        for (i, v) in h.iter().enumerate().skip(1) {
            self.hook_hits.insert(hook::SITE_NAMES[i].to_string(), *v);
        }
        self.delays_injected = d;
        self.rendezvous_met = r;
    }
}

/// phase timing on stderr (debugging aid; under Miri needs -Zmiri-disable-isolation)
pub struct Timing(Option<std::time::Instant>);
impl Timing {
    pub fn new(a: &Args) -> Timing {
        Timing(if a.timing { Some(std::time::Instant::now()) } else { None })
    }
    pub fn mark(&self, what: &str) {
        if let Some(t) = self.0 {
            eprintln!("T {:>10.3?} {}", t.elapsed(), what);
        }
    }
}

pub fn panic_text(p: Box<dyn std::any::Any + Send>) -> String {
    if let Some(s) = p.downcast_ref::<&str>() {
        s.to_string()
    } else if let Some(s) = p.downcast_ref::<String>() {
        s.clone()
    } else {
        "panic".to_string()
    }
}

/// progress file: one "index seed" line per history, written before it starts, so that the
/// driver knows which history killed the process.
pub fn progress(a: &Args, i: u64, hseed: u64) {
    if let Some(p) = &a.progress {
        use std::io::Write;
        if let Ok(mut f) = std::fs::OpenOptions::new().create(true).append(true).open(p) {
            let _ = writeln!(f, "{} {}", i, hseed);
        }
    }
}

fn usage() -> ! {
    eprintln!(
        "usage: intern_mon <c05|c06|serde-load|noop> [--seed N] [--count N] [--start N] [--threads N] [--ops N]\n\
         \x20      [--profile native|miri] [--samples N] [--progress FILE] [--stamps on|off] [--no-delays]\n\
         \x20      [--only-hseed N] [--blob-out FILE] [--blob-in FILE]"
    );
    std::process::exit(2)
}

fn main() {
    let argv: Vec<String> = std::env::args().collect();
    if argv.len() < 2 {
        usage();
    }
    let mut a = Args {
        mode: argv[1].clone(),
        seed: 1,
        count: 1,
        start: 0,
        threads: 4,
        ops: 40,
        profile: if cfg!(miri) { "miri".into() } else { "native".into() },
        samples: 0,
        progress: None,
        stamps: None,
        no_delays: false,
        only_hseed: None,
        blob_out: None,
        blob_in: None,
        timing: false,
    };
    let mut i = 2;
    while i < argv.len() {
        let k = argv[i].as_str();
        let v = argv.get(i + 1).cloned();
        let need = || v.clone().unwrap_or_else(|| usage());
        match k {
            "--seed" => a.seed = need().parse().unwrap_or_else(|_| usage()),
            "--count" => a.count = need().parse().unwrap_or_else(|_| usage()),
            "--start" => a.start = need().parse().unwrap_or_else(|_| usage()),
            "--threads" => a.threads = need().parse().unwrap_or_else(|_| usage()),
            "--ops" => a.ops = need().parse().unwrap_or_else(|_| usage()),
            "--profile" => a.profile = need(),
            "--samples" => a.samples = need().parse().unwrap_or_else(|_| usage()),
            "--progress" => a.progress = Some(need()),
            "--stamps" => a.stamps = Some(need() == "on"),
            "--only-hseed" => a.only_hseed = Some(need().parse().unwrap_or_else(|_| usage())),
            "--blob-out" => a.blob_out = Some(need()),
            "--blob-in" => a.blob_in = Some(need()),
            "--no-delays" => {
                a.no_delays = true;
                i += 1;
                continue;
            }
            "--timing" => {
                a.timing = true;
                i += 1;
                continue;
            }
            _ => usage(),
        }
        i += 2;
    }
    // keep the default panic message on stderr short; the text is captured by catch_unwind
    std::panic::set_hook(Box::new(|info| {
        eprintln!("PANIC {}", info);
    }));
    let rep = match a.mode.as_str() {
        "c05" => c05::run(&a),
        "c06" => c06::run(&a),
        "serde-load" => c05::serde_load(&a),
        "noop" => usage(),
        _ => usage(),
    };
    // one write call: under `-Zmiri-many-seeds` several interpreters share this stdout
    let mut line = serde_json::to_string(&rep).unwrap();
    line.push('\n');
    use std::io::Write;
    let out = std::io::stdout();
    let mut out = out.lock();
    out.write_all(line.as_bytes()).unwrap();
    out.flush().unwrap();
}
