//! SplitMix64: every random decision of the harness derives from the seed on the command line.
#[derive(Clone)]
pub struct Rng(pub u64);

pub fn mix(a: u64, b: u64) -> u64 {
    let mut r = Rng(a ^ b.wrapping_mul(0x9E37_79B9_7F4A_7C15).rotate_left(17));
    r.next()
}

impl Rng {
    pub fn new(seed: u64) -> Self {
        let mut r = Rng(seed);
        r.next();
        r
    }
    pub fn next(&mut self) -> u64 {
        self.0 = self.0.wrapping_add(0x9E37_79B9_7F4A_7C15);
        let mut z = self.0;
        z = (z ^ (z >> 30)).wrapping_mul(0xBF58_476D_1CE4_E5B9);
        z = (z ^ (z >> 27)).wrapping_mul(0x94D0_49BB_1331_11EB);
        z ^ (z >> 31)
    }
    pub fn below(&mut self, n: u64) -> u64 {
        if n == 0 { 0 } else { self.next() % n }
    }
    pub fn range(&mut self, lo: u64, hi_incl: u64) -> u64 {
        lo + self.below(hi_incl - lo + 1)
    }
    pub fn chance(&mut self, num: u64, den: u64) -> bool {
        self.below(den) < num
    }
    pub fn pick<'a, T>(&mut self, xs: &'a [T]) -> &'a T {
        &xs[self.below(xs.len() as u64) as usize]
    }
}

pub fn fnv64(data: impl Iterator<Item = u64>) -> u64 {
    let mut h: u64 = 0xcbf29ce484222325;
    for d in data {
        for b in d.to_le_bytes() {
            h ^= b as u64;
            h = h.wrapping_mul(0x100000001b3);
        }
    }
    h
}
