//! Delay injection and interleaving recorder behind hook H2 (`intern::verif`).
//!
//! The function installed here is called by the real code at points between its
//! critical sections.  It (a) appends (site, thread) to a global hit log whose
//! order is the "interleaving fingerprint" of a history, and (b) according to the
//! delay plan of the history stretches the window: yield / spin / sleep /
//! bounded rendezvous (wait until k threads stand at the same site, or give up).
//! All counters use `Relaxed` so that the monitor adds no happens-before edges.
use std::cell::Cell;
use std::sync::OnceLock;
use std::sync::atomic::{AtomicU32, AtomicU64, AtomicUsize, Ordering::Relaxed};

use crate::rng::{Rng, fnv64};

pub const NS: usize = 8;
pub const LOG_CAP: usize = if cfg!(miri) { 1 << 12 } else { 1 << 16 };
pub const SITE_NAMES: [&str; NS] = [
    "-",
    "arena_after_fetch_add",
    "arena_null_bucket_before_lock",
    "arena_after_slot_write",
    "shard_try_write_failed",
    "shard_read_miss_before_write",
    "intern_between_add_and_insert",
    "serdes_index_before_cas",
];

pub const M_OFF: u32 = 0;
pub const M_YIELD: u32 = 1;
pub const M_SPIN: u32 = 2;
pub const M_SLEEP: u32 = 3;
pub const M_RDV2: u32 = 4;
pub const M_RDV3: u32 = 5;

#[allow(clippy::declare_interior_mutable_const)]
const Z32: AtomicU32 = AtomicU32::new(0);
#[allow(clippy::declare_interior_mutable_const)]
const Z64: AtomicU64 = AtomicU64::new(0);
static PLAN: [AtomicU32; NS] = [Z32; NS];
static HITS: [AtomicU64; NS] = [Z64; NS];
static ARRIVE: [AtomicU32; NS] = [Z32; NS];
static NULL_BUCKET_BY: [AtomicU32; 32] = [Z32; 32];
static CURSOR: AtomicUsize = AtomicUsize::new(0);
static DELAYS: AtomicU64 = AtomicU64::new(0);
static RDV_MET: AtomicU64 = AtomicU64::new(0);
static LOG: OnceLock<Vec<AtomicU32>> = OnceLock::new();

thread_local! {
    static TL: Cell<(u32, u64)> = const { Cell::new((0, 0)) };
}

#[derive(Clone, Debug)]
pub struct Plan {
    pub style: &'static str,
    /// per site: (mode, probability out of 256)
    pub sites: [(u32, u32); NS],
}

impl Plan {
    pub fn off() -> Plan {
        Plan { style: "off", sites: [(M_OFF, 0); NS] }
    }

    /// `arena_only`: the workload never reaches the sharded set, so the styles that
    /// target it are replaced by arena styles.
    pub fn generate(rng: &mut Rng, arena_only: bool) -> Plan {
        let mut sites = [(M_OFF, 0u32); NS];
        let mut pick = rng.below(20);
        if arena_only && pick >= 13 {
            pick = *rng.pick(&[10, 10, 11, 17, 18, 18, 5]);
        }
        let style = match pick {
            0..=1 => "os-only",
            2..=4 => {
                for s in sites.iter_mut().skip(1) {
                    *s = (M_YIELD, 64);
                }
                "light-yield"
            }
            5..=9 => {
                for (i, s) in sites.iter_mut().enumerate().skip(1) {
                    let mode = *rng.pick(&[M_OFF, M_YIELD, M_YIELD, M_SPIN, M_SPIN, M_SLEEP]);
                    let p = *rng.pick(&[26u32, 128, 256]);
                    *s = (mode, p);
                    if i == 6 && mode == M_SLEEP {
                        *s = (M_SPIN, p);
                    }
                }
                "random"
            }
            10..=12 => {
                // many threads into slice_for_slot_slow for the same bucket
                sites[2] = (if rng.chance(1, 2) { M_RDV3 } else { M_RDV2 }, 256);
                sites[1] = (*rng.pick(&[M_OFF, M_YIELD, M_SPIN]), 128);
                sites[3] = (*rng.pick(&[M_OFF, M_YIELD]), 64);
                "bucket-rendezvous"
            }
            13..=16 => {
                // long lock hold on one side, rendezvous of the losers on the other
                sites[6] = (*rng.pick(&[M_SPIN, M_SPIN, M_YIELD]), 256);
                sites[4] = (*rng.pick(&[M_RDV2, M_RDV3, M_YIELD, M_OFF]), 256);
                sites[5] = (*rng.pick(&[M_RDV2, M_RDV3, M_RDV2, M_YIELD]), 256);
                sites[2] = (*rng.pick(&[M_OFF, M_RDV2]), 256);
                "shard-contention"
            }
            17 => {
                sites[1] = (*rng.pick(&[M_SLEEP, M_SPIN]), *rng.pick(&[64, 256]));
                "stall-after-fetch-add"
            }
            18 => {
                sites[3] = (*rng.pick(&[M_SLEEP, M_SPIN]), *rng.pick(&[64, 256]));
                sites[2] = (M_RDV2, 256);
                "stall-after-write"
            }
            _ => {
                sites[7] = (M_RDV3, 256);
                sites[5] = (M_RDV2, 256);
                sites[6] = (M_YIELD, 256);
                "serdes-index-race"
            }
        };
        Plan { style, sites }
    }

    pub fn describe(&self) -> String {
        let mut s = String::from(self.style);
        for (i, (m, p)) in self.sites.iter().enumerate() {
            if *m != M_OFF {
                let mn = ["off", "yield", "spin", "sleep", "rdv2", "rdv3"][*m as usize];
                s.push_str(&format!(" {}={}@{}", i, mn, p));
            }
        }
        s
    }
}

pub fn install() {
    LOG.get_or_init(|| (0..LOG_CAP).map(|_| AtomicU32::new(0)).collect());
    intern::verif::set_hook(Some(hook));
}

/// Called by every thread of a history before its first operation.  tid 0 (the
/// main thread: prefill, epilogue) is neither delayed nor logged.
pub fn set_thread(tid: u32, seed: u64) {
    TL.with(|c| c.set((tid, seed | 1)));
}

pub fn begin_history(plan: &Plan) {
    for (i, (m, p)) in plan.sites.iter().enumerate() {
        PLAN[i].store(m | (p << 8), Relaxed);
    }
    for a in ARRIVE.iter() {
        a.store(0, Relaxed);
    }
    for a in NULL_BUCKET_BY.iter() {
        a.store(0, Relaxed);
    }
    CURSOR.store(0, Relaxed);
}

pub struct HistHook {
    pub fp_full: u64,
    pub fp_contention: u64,
    pub hits: [u64; NS],
    pub truncated: bool,
    /// per bucket index: bit mask of the threads that found that bucket null
    pub null_bucket_threads: Vec<(u32, u32)>,
    pub contention_seq: Vec<u32>,
}

pub fn end_history() -> HistHook {
    let log = LOG.get().expect("hook installed");
    let n = CURSOR.load(Relaxed);
    let m = n.min(LOG_CAP);
    let mut hits = [0u64; NS];
    let mut cont = Vec::new();
    for e in log.iter().take(m) {
        let v = e.load(Relaxed);
        let site = (v >> 8) as usize;
        hits[site.min(NS - 1)] += 1;
        if !matches!(site, 1 | 3) {
            cont.push(v);
        }
    }
    let fp_full = fnv64(log.iter().take(m).map(|e| e.load(Relaxed) as u64));
    let fp_contention = fnv64(cont.iter().map(|v| *v as u64));
    let null_bucket_threads = NULL_BUCKET_BY
        .iter()
        .enumerate()
        .filter_map(|(a, m)| {
            let v = m.load(Relaxed);
            if v != 0 { Some((a as u32, v)) } else { None }
        })
        .collect();
    for p in PLAN.iter() {
        p.store(0, Relaxed);
    }
    HistHook { fp_full, fp_contention, hits, truncated: n > LOG_CAP, null_bucket_threads, contention_seq: cont }
}

pub fn totals() -> ([u64; NS], u64, u64) {
    let mut h = [0u64; NS];
    for (i, x) in HITS.iter().enumerate() {
        h[i] = x.load(Relaxed);
    }
    (h, DELAYS.load(Relaxed), RDV_MET.load(Relaxed))
}

fn spin_us(us: u64) {
    if cfg!(miri) {
        for _ in 0..(1 + us / 20) {
            std::thread::yield_now();
        }
        return;
    }
    let t0 = std::time::Instant::now();
    while (t0.elapsed().as_nanos() as u64) < us * 1000 {
        std::hint::spin_loop();
    }
}

fn rendezvous(site: usize, k: u32) {
    let me = ARRIVE[site].fetch_add(1, Relaxed) + 1;
    // groups of k: wait until the arrival counter reaches the end of my group
    let target = me.div_ceil(k) * k;
    if cfg!(miri) {
        for _ in 0..40 {
            if ARRIVE[site].load(Relaxed) >= target {
                RDV_MET.fetch_add(1, Relaxed);
                return;
            }
            std::thread::yield_now();
        }
        return;
    }
    let t0 = std::time::Instant::now();
    while t0.elapsed().as_micros() < 300 {
        if ARRIVE[site].load(Relaxed) >= target {
            RDV_MET.fetch_add(1, Relaxed);
            return;
        }
        std::thread::yield_now();
    }
}

fn hook(arg: u32) {
    let site = (arg & intern::verif::SITE_MASK) as usize;
    let detail = arg >> intern::verif::DETAIL_SHIFT;
    if site == 0 || site >= NS {
        return;
    }
    let (tid, mut state) = TL.with(|c| c.get());
    if tid == 0 {
        return;
    }
    HITS[site].fetch_add(1, Relaxed);
    if let Some(log) = LOG.get() {
        let c = CURSOR.fetch_add(1, Relaxed);
        if c < LOG_CAP {
            log[c].store(((site as u32) << 8) | (tid & 0xff), Relaxed);
        }
    }
    if site == 2 {
        NULL_BUCKET_BY[(detail as usize) & 31].fetch_or(1 << (tid & 31), Relaxed);
    }
    let p = PLAN[site].load(Relaxed);
    let (mode, prob) = (p & 0xff, p >> 8);
    if mode == M_OFF {
        return;
    }
    // xorshift64*: per-thread stream
    state ^= state >> 12;
    state ^= state << 25;
    state ^= state >> 27;
    TL.with(|c| c.set((tid, state)));
    let r = state.wrapping_mul(0x2545_F491_4F6C_DD1D);
    if ((r >> 32) & 0xff) as u32 >= prob {
        return;
    }
    DELAYS.fetch_add(1, Relaxed);
    match mode {
        M_YIELD => std::thread::yield_now(),
        M_SPIN => spin_us(1 + (r >> 40) % 50),
        M_SLEEP => {
            if cfg!(miri) {
                spin_us(200)
            } else {
                std::thread::sleep(std::time::Duration::from_micros(100 + (r >> 40) % 200))
            }
        }
        M_RDV2 => rendezvous(site, 2),
        M_RDV3 => rendezvous(site, 3),
        _ => {}
    }
}
