//! `watch_tools record-shapes <scratch-dir>`: records, once, which debounced
//! events the real `notify-debouncer-full` (same version, same timeout, same
//! watch set as `create_debounced_file_watcher`) delivers for each kind of
//! file-system edit. Output (stdout) is checked into
//! /verif/data/event_shapes.json; `sim` synthesises its events from these shapes.
use notify::RecursiveMode;
use notify_debouncer_full::{DebounceEventResult, new_debouncer};
use serde_json::{Value, json};
use std::{
    fs,
    path::{Path, PathBuf},
    sync::mpsc::{Receiver, channel},
    time::Duration,
};

fn rel(root: &Path, p: &Path) -> String {
    match p.strip_prefix(root) {
        Ok(r) => r.to_string_lossy().to_string(),
        Err(_) => format!("<outside>/{}", p.file_name().unwrap().to_string_lossy()),
    }
}

fn drain(root: &Path, rx: &Receiver<DebounceEventResult>, wait_ms: u64) -> Vec<Value> {
    let mut batches = vec![];
    // wait for quiescence: no batch for wait_ms
    while let Ok(res) = rx.recv_timeout(Duration::from_millis(wait_ms)) {
        match res {
            Ok(events) => {
                let evs: Vec<Value> = events
                    .iter()
                    .map(|e| {
                        json!({
                            "kind": format!("{:?}", e.event.kind),
                            "paths": e.event.paths.iter().map(|p| rel(root, p)).collect::<Vec<_>>(),
                        })
                    })
                    .collect();
                batches.push(json!(evs));
            }
            Err(errs) => batches.push(json!({"errors": errs.iter().map(|e| e.to_string()).collect::<Vec<_>>()})),
        }
    }
    batches
}

pub fn record(scratch: &Path) -> Value {
    let _ = fs::remove_dir_all(scratch);
    let root = scratch.join("proj");
    let outside = scratch.join("outside");
    fs::create_dir_all(root.join("src/a")).unwrap();
    fs::create_dir_all(root.join("src/ab")).unwrap();
    fs::create_dir_all(root.join("src/__isograph")).unwrap();
    fs::create_dir_all(&outside).unwrap();
    fs::write(root.join("isograph.config.json"), "{}").unwrap();
    fs::write(root.join("schema.graphql"), "type Query { x: Int }").unwrap();
    fs::write(root.join("schema-extension.graphql"), "extend type Query { y: Int }").unwrap();
    fs::write(root.join("src/a/x.ts"), "1").unwrap();
    fs::write(root.join("src/a/y.ts"), "1").unwrap();
    fs::write(root.join("src/ab/z.ts"), "1").unwrap();
    fs::write(root.join("src/top.ts"), "1").unwrap();
    fs::write(outside.join("in.ts"), "1").unwrap();
    fs::create_dir_all(outside.join("indir")).unwrap();
    fs::write(outside.join("indir/f.ts"), "1").unwrap();
    let root = root.canonicalize().unwrap();
    let outside = outside.canonicalize().unwrap();

    let (tx, rx) = channel();
    let mut deb = new_debouncer(Duration::from_millis(100), None, move |r: DebounceEventResult| {
        let _ = tx.send(r);
    })
    .unwrap();
    deb.watch(root.join("isograph.config.json"), RecursiveMode::NonRecursive).unwrap();
    deb.watch(root.join("src"), RecursiveMode::Recursive).unwrap();
    deb.watch(root.join("schema.graphql"), RecursiveMode::NonRecursive).unwrap();
    deb.watch(root.join("schema-extension.graphql"), RecursiveMode::NonRecursive).unwrap();
    std::thread::sleep(Duration::from_millis(300));
    drain(&root, &rx, 300);

    let mut out = serde_json::Map::new();
    let mut order: Vec<String> = vec![];
    let p = |s: &str| -> PathBuf { root.join(s) };
    let mut scenario = |name: &str, f: &dyn Fn()| {
        f();
        let batches = drain(&root, &rx, 450);
        order.push(name.to_string());
        out.insert(name.to_string(), json!(batches));
    };

    scenario("create_file", &|| fs::write(p("src/n.ts"), "hello").unwrap());
    scenario("create_empty_file", &|| fs::write(p("src/empty.ts"), "").unwrap());
    scenario("modify_file_truncate_write", &|| fs::write(p("src/n.ts"), "hello2").unwrap());
    scenario("modify_file_same_content", &|| fs::write(p("src/n.ts"), "hello2").unwrap());
    scenario("append_file", &|| {
        use std::io::Write;
        let mut f = fs::OpenOptions::new().append(true).open(p("src/n.ts")).unwrap();
        f.write_all(b"more").unwrap();
    });
    scenario("touch_file_mtime", &|| {
        let f = fs::File::options().write(true).open(p("src/n.ts")).unwrap();
        f.set_modified(std::time::SystemTime::now()).unwrap();
    });
    scenario("chmod_file", &|| {
        use std::os::unix::fs::PermissionsExt;
        fs::set_permissions(p("src/n.ts"), fs::Permissions::from_mode(0o600)).unwrap();
    });
    scenario("rename_file_same_dir", &|| fs::rename(p("src/n.ts"), p("src/m.ts")).unwrap());
    scenario("rename_file_across_dirs", &|| fs::rename(p("src/m.ts"), p("src/a/m.ts")).unwrap());
    scenario("rename_file_over_existing", &|| fs::rename(p("src/a/m.ts"), p("src/a/y.ts")).unwrap());
    scenario("atomic_save_tmp_then_rename_over", &|| {
        fs::write(p("src/a/.y.ts.tmp"), "new").unwrap();
        fs::rename(p("src/a/.y.ts.tmp"), p("src/a/y.ts")).unwrap();
    });
    scenario("rename_file_out_of_tree", &|| fs::rename(p("src/a/y.ts"), outside.join("y.ts")).unwrap());
    scenario("rename_file_into_tree", &|| fs::rename(outside.join("in.ts"), p("src/a/in.ts")).unwrap());
    scenario("delete_file", &|| fs::remove_file(p("src/a/in.ts")).unwrap());
    scenario("delete_then_recreate_file", &|| {
        fs::remove_file(p("src/top.ts")).unwrap();
        fs::write(p("src/top.ts"), "again").unwrap();
    });
    scenario("create_then_delete_file", &|| {
        fs::write(p("src/ephemeral.ts"), "x").unwrap();
        fs::remove_file(p("src/ephemeral.ts")).unwrap();
    });
    scenario("mkdir", &|| fs::create_dir(p("src/newdir")).unwrap());
    scenario("create_file_in_new_dir_later", &|| fs::write(p("src/newdir/f.ts"), "x").unwrap());
    scenario("mkdir_and_create_file_immediately", &|| {
        fs::create_dir(p("src/newdir2")).unwrap();
        fs::write(p("src/newdir2/f.ts"), "x").unwrap();
    });
    scenario("mkdir_p_nested_and_create_file_immediately", &|| {
        fs::create_dir_all(p("src/n1/n2")).unwrap();
        fs::write(p("src/n1/n2/f.ts"), "x").unwrap();
    });
    scenario("rmdir_empty", &|| {
        fs::remove_file(p("src/newdir2/f.ts")).unwrap();
        std::thread::sleep(Duration::from_millis(400));
        fs::remove_dir(p("src/newdir2")).unwrap();
    });
    scenario("rename_dir", &|| fs::rename(p("src/newdir"), p("src/renamed")).unwrap());
    scenario("modify_file_in_renamed_dir", &|| fs::write(p("src/renamed/f.ts"), "y").unwrap());
    scenario("rename_dir_into_other_dir", &|| fs::rename(p("src/renamed"), p("src/ab/renamed")).unwrap());
    scenario("remove_dir_all_with_files", &|| fs::remove_dir_all(p("src/ab")).unwrap());
    scenario("rename_dir_out_of_tree", &|| fs::rename(p("src/n1"), outside.join("n1")).unwrap());
    scenario("rename_dir_into_tree", &|| fs::rename(outside.join("indir"), p("src/indir")).unwrap());
    scenario("modify_file_in_dir_moved_into_tree", &|| fs::write(p("src/indir/f.ts"), "y").unwrap());
    scenario("replace_file_by_folder", &|| {
        fs::remove_file(p("src/top.ts")).unwrap();
        fs::create_dir(p("src/top.ts")).unwrap();
        fs::write(p("src/top.ts/inner.ts"), "x").unwrap();
    });
    scenario("replace_folder_by_file", &|| {
        fs::remove_dir_all(p("src/top.ts")).unwrap();
        fs::write(p("src/top.ts"), "x").unwrap();
    });
    scenario("create_file_in_artifact_dir", &|| fs::write(p("src/__isograph/gen.ts"), "x").unwrap());
    scenario("create_non_utf8_file", &|| fs::write(p("src/blob.bin"), [0xffu8, 0xfe, 0x00, 0x80]).unwrap());
    scenario("symlink_file", &|| std::os::unix::fs::symlink(p("src/a/x.ts"), p("src/link.ts")).unwrap());
    drop(scenario);
    drop(deb);
    // schema / extension: non-recursive watches on the files themselves. Each scenario
    // group gets a fresh watcher, because replacing the inode loses the inotify watch.
    let mut group = |names_and_ops: &[(&str, &dyn Fn())]| {
        fs::write(p("schema.graphql"), "type Query { x: Int }").unwrap();
        fs::write(p("schema-extension.graphql"), "extend type Query { y: Int }").unwrap();
        let (tx, rx) = channel();
        let mut deb = new_debouncer(Duration::from_millis(100), None, move |r: DebounceEventResult| {
            let _ = tx.send(r);
        })
        .unwrap();
        deb.watch(root.join("isograph.config.json"), RecursiveMode::NonRecursive).unwrap();
        deb.watch(root.join("src"), RecursiveMode::Recursive).unwrap();
        deb.watch(root.join("schema.graphql"), RecursiveMode::NonRecursive).unwrap();
        deb.watch(root.join("schema-extension.graphql"), RecursiveMode::NonRecursive).unwrap();
        std::thread::sleep(Duration::from_millis(300));
        drain(&root, &rx, 300);
        for (name, f) in names_and_ops {
            f();
            let batches = drain(&root, &rx, 450);
            order.push(name.to_string());
            out.insert(name.to_string(), json!(batches));
        }
    };
    group(&[
        ("schema_modify_in_place", &|| fs::write(p("schema.graphql"), "type Query { x: Int, z: Int }").unwrap()),
        ("schema_modify_in_place_again", &|| fs::write(p("schema.graphql"), "type Query { x: Int, zz: Int }").unwrap()),
    ]);
    group(&[
        ("schema_atomic_replace", &|| {
            fs::write(p("schema.graphql.tmp"), "type Query { x: Int, w: Int }").unwrap();
            fs::rename(p("schema.graphql.tmp"), p("schema.graphql")).unwrap();
        }),
        ("schema_modify_after_atomic_replace", &|| fs::write(p("schema.graphql"), "type Query { q: Int }").unwrap()),
    ]);
    group(&[
        ("schema_rename_away", &|| fs::rename(p("schema.graphql"), p("schema.graphql.bak")).unwrap()),
        ("schema_rename_back", &|| fs::rename(p("schema.graphql.bak"), p("schema.graphql")).unwrap()),
        ("schema_modify_after_rename_back", &|| fs::write(p("schema.graphql"), "type Query { r: Int }").unwrap()),
    ]);
    group(&[
        ("schema_rename_away_2", &|| fs::rename(p("schema.graphql"), p("schema.graphql.bak")).unwrap()),
        ("schema_modify_while_away", &|| fs::write(p("schema.graphql.bak"), "type Query { away: Int }").unwrap()),
        ("schema_rename_back_2", &|| fs::rename(p("schema.graphql.bak"), p("schema.graphql")).unwrap()),
    ]);
    group(&[
        ("schema_delete", &|| fs::remove_file(p("schema.graphql")).unwrap()),
        ("schema_recreate", &|| fs::write(p("schema.graphql"), "type Query { s: Int }").unwrap()),
        ("schema_modify_after_recreate", &|| fs::write(p("schema.graphql"), "type Query { t: Int }").unwrap()),
    ]);
    group(&[
        ("schema_rename_into_src", &|| fs::rename(p("schema.graphql"), p("src/schema.graphql")).unwrap()),
        ("schema_rename_back_from_src", &|| fs::rename(p("src/schema.graphql"), p("schema.graphql")).unwrap()),
    ]);
    group(&[
        ("extension_modify_in_place", &|| fs::write(p("schema-extension.graphql"), "extend type Query { yy: Int }").unwrap()),
        ("extension_atomic_replace", &|| {
            fs::write(p("ext.tmp"), "extend type Query { y2: Int }").unwrap();
            fs::rename(p("ext.tmp"), p("schema-extension.graphql")).unwrap();
        }),
    ]);
    group(&[
        ("extension_delete", &|| fs::remove_file(p("schema-extension.graphql")).unwrap()),
        ("extension_recreate", &|| fs::write(p("schema-extension.graphql"), "extend type Query { y3: Int }").unwrap()),
    ]);
    drop(group);
    let _ = fs::remove_dir_all(scratch);
    json!({
        "recorded_with": {"notify": "7.0.0", "notify-debouncer-full": "0.4.0", "backend": "inotify (linux)",
                          "debounce_ms": 100,
                          "watch_set": ["isograph.config.json (non-recursive)", "src (recursive)", "schema.graphql (non-recursive, the file itself)", "schema-extension.graphql (non-recursive, the file itself)"]},
        "note": "each scenario: list of delivered batches; each batch: list of {kind, paths}. Scenarios run in order on one tree, so later ones depend on earlier ones.",
        "order": order,
        "scenarios": Value::Object(out),
    })
}

/// `watch_tools stress-debouncer <scratch-dir> <seconds> <seed>`: hammers a recursively watched
/// tree with folder/file renames, creations and removals to see whether the notify /
/// notify-debouncer-full threads survive (their panic messages go to stderr). Diagnostic aid
/// for the real leg of C20; not used by the check.
pub fn stress(scratch: &Path, seconds: u64, seed: u64) {
    let _ = fs::remove_dir_all(scratch);
    let root = scratch.join("src");
    fs::create_dir_all(&root).unwrap();
    let root = root.canonicalize().unwrap();
    let outside = scratch.join("outside");
    fs::create_dir_all(&outside).unwrap();
    let (tx, rx) = channel();
    let mut deb = new_debouncer(Duration::from_millis(100), None, move |r: DebounceEventResult| {
        let _ = tx.send(r.map(|v| v.len()).map_err(|e| e.len()));
    })
    .unwrap();
    deb.watch(&root, RecursiveMode::Recursive).unwrap();
    let mut x = seed.wrapping_mul(0x9E3779B97F4A7C15) | 1;
    let mut rnd = move |n: u64| {
        x ^= x << 13;
        x ^= x >> 7;
        x ^= x << 17;
        x % n
    };
    let names = ["a", "ab", "a/b", "lib", "lib/deep", "moved", "ab2"];
    let t0 = std::time::Instant::now();
    let mut ops = 0u64;
    let mut batches = 0u64;
    while t0.elapsed().as_secs() < seconds {
        let d = root.join(names[rnd(names.len() as u64) as usize]);
        match rnd(7) {
            0 => {
                let _ = fs::create_dir_all(&d);
                let _ = fs::write(d.join(format!("f{}.ts", rnd(3))), "x");
            }
            1 => {
                let t = root.join(names[rnd(names.len() as u64) as usize]);
                if !t.exists() {
                    let _ = fs::rename(&d, &t);
                }
            }
            2 => {
                let _ = fs::remove_dir_all(&d);
            }
            3 => {
                let _ = fs::rename(&d, outside.join(format!("o{}", rnd(4))));
            }
            4 => {
                let o = outside.join(format!("o{}", rnd(4)));
                if !d.exists() {
                    let _ = fs::rename(&o, &d);
                }
            }
            5 => {
                let _ = fs::write(d.join("g.ts"), "y");
                let _ = fs::rename(d.join("g.ts"), d.join("h.ts"));
            }
            _ => std::thread::sleep(Duration::from_millis(rnd(120))),
        }
        ops += 1;
        while let Ok(_) = rx.try_recv() {
            batches += 1;
        }
    }
    println!("{}", json!({"ops": ops, "batches": batches}));
}
