//! `watch_tools sim <input.json>` — deterministic leg of C20.
//!
//! For every case: copy the template project to a real temp tree, create a
//! long-lived `CompilerState`, do the initial compile, then replay an edit
//! script with real file-system operations. For each step the debounced
//! `notify` events that the real debouncer delivers for such an edit (shapes
//! recorded in /verif/data/event_shapes.json) are synthesised and fed through
//! exactly what `handle_watch_command`'s loop does:
//!   categorize_and_filter_events (hook H5) -> update_sources -> compile -> gc
//! and the outcome is compared with a fresh `CompilerState` on the same tree.
//! One JSON line per case on stdout (flushed), then a summary line.
use std::{
    cell::RefCell,
    collections::{BTreeMap, BTreeSet},
    fs,
    io::Write,
    panic::{AssertUnwindSafe, catch_unwind},
    path::{Path, PathBuf},
    time::Instant,
};

use artifact_content::get_artifact_path_and_content;
use common_lang_types::{ArtifactPathAndContent, CurrentWorkingDirectory};
use graphql_network_protocol::GraphQLAndJavascriptProfile;
use intern::string_key::Intern;
use isograph_compiler::{
    CompilerState, batch_compile::compile, update_sources,
    watch::{SourceFileEvent, has_config_changes},
};
use isograph_config::{CompilerConfig, create_config};
use notify::{
    Event, EventKind,
    event::{
        AccessKind, AccessMode, CreateKind, DataChange, MetadataKind, ModifyKind, RemoveKind,
        RenameMode,
    },
};
use notify_debouncer_full::DebouncedEvent;
use serde::Deserialize;
use serde_json::{Value, json};

type Profile = GraphQLAndJavascriptProfile;
type State = CompilerState<Profile>;

// ---------------------------------------------------------------------------
// input
// ---------------------------------------------------------------------------
#[derive(Deserialize)]
pub struct Input {
    /// directory under which the tool creates its work tree (must exist)
    pub work: String,
    pub cases: Vec<Case>,
    #[serde(default = "yes")]
    pub shrink: bool,
}
fn yes() -> bool {
    true
}

#[derive(Deserialize, Clone)]
pub struct Case {
    pub id: String,
    /// project directory (isograph.config.json, schema, src/**); never modified
    pub template: String,
    pub steps: Vec<Step>,
    /// initial files (relative) deleted before the initial compile (used by the shrinker)
    #[serde(default)]
    pub pre_delete: Vec<String>,
}

#[derive(Deserialize, Clone, serde::Serialize)]
pub struct Step {
    pub ops: Vec<Op>,
    #[serde(default)]
    pub gc: bool,
    /// the watch loop is busy: the batch of this step is handled after the next step's edits
    #[serde(default)]
    pub defer: bool,
}

#[derive(Deserialize, Clone, serde::Serialize, Debug)]
#[serde(tag = "op", rename_all = "snake_case")]
pub enum Op {
    /// create or overwrite in place. `slow`: parent folders that had to be created were
    /// created long enough before the file for the recursive watch to be established.
    Write { path: String, #[serde(default)] text: Option<String>, #[serde(default)] hex: Option<String>, #[serde(default)] slow: bool },
    /// write to a temporary name in the same folder, then rename over `path`
    AtomicReplace { path: String, text: String },
    RemoveFile { path: String },
    RemoveDir { path: String },
    Rename { from: String, to: String },
    ReplaceFileByDir { path: String, inner: String, text: String, #[serde(default)] slow: bool },
    ReplaceDirByFile { path: String, text: String },
    /// unlink + create again in one debounce window
    Recreate { path: String, text: String },
    /// rewrite identical bytes
    Touch { path: String },
    Chmod { path: String },
    Mkdir { path: String },
}

impl Op {
    fn kind(&self) -> &'static str {
        match self {
            Op::Write { .. } => "write",
            Op::AtomicReplace { .. } => "atomic_replace",
            Op::RemoveFile { .. } => "remove_file",
            Op::RemoveDir { .. } => "remove_dir",
            Op::Rename { .. } => "rename",
            Op::ReplaceFileByDir { .. } => "replace_file_by_dir",
            Op::ReplaceDirByFile { .. } => "replace_dir_by_file",
            Op::Recreate { .. } => "recreate",
            Op::Touch { .. } => "touch",
            Op::Chmod { .. } => "chmod",
            Op::Mkdir { .. } => "mkdir",
        }
    }
}

// ---------------------------------------------------------------------------
// panic capture
// ---------------------------------------------------------------------------
thread_local! {
    static LAST_PANIC: RefCell<Option<String>> = const { RefCell::new(None) };
    static LOCATION_ONLY: std::cell::Cell<u64> = const { std::cell::Cell::new(0) };
    static IN_GUARD: std::cell::Cell<bool> = const { std::cell::Cell::new(false) };
}

pub fn install_panic_hook() {
    std::panic::set_hook(Box::new(|info| {
        let loc = info
            .location()
            .map(|l| format!("{}:{}", l.file(), l.line()))
            .unwrap_or_default();
        let msg = if let Some(s) = info.payload().downcast_ref::<&str>() {
            s.to_string()
        } else if let Some(s) = info.payload().downcast_ref::<String>() {
            s.clone()
        } else {
            "<non-string panic>".to_string()
        };
        if !IN_GUARD.with(|g| g.get()) {
            eprintln!("watch_tools: panic outside a guarded region: {msg} @ {loc}");
        }
        LAST_PANIC.with(|p| *p.borrow_mut() = Some(format!("{msg} @ {loc}")));
    }));
}

fn guarded<T>(f: impl FnOnce() -> T) -> Result<T, String> {
    LAST_PANIC.with(|p| *p.borrow_mut() = None);
    let was = IN_GUARD.with(|g| g.replace(true));
    let r = catch_unwind(AssertUnwindSafe(f));
    IN_GUARD.with(|g| g.set(was));
    r.map_err(|_| {
        LAST_PANIC
            .with(|p| p.borrow_mut().take())
            .unwrap_or_else(|| "<panic>".to_string())
    })
}

// ---------------------------------------------------------------------------
// outcomes
// ---------------------------------------------------------------------------
#[derive(Clone, PartialEq, Eq, Debug)]
enum Outcome {
    Artifacts(BTreeMap<String, String>),
    Diags(BTreeSet<String>),
    /// `CompilerState::new` itself failed (schema missing, unreadable source ...)
    InitError(String),
    Panic(String),
}

impl Outcome {
    fn tag(&self) -> &'static str {
        match self {
            Outcome::Artifacts(_) => "artifacts",
            Outcome::Diags(_) => "diagnostics",
            Outcome::InitError(_) => "init-error",
            Outcome::Panic(_) => "panic",
        }
    }
    fn fingerprint(&self) -> u64 {
        use std::hash::{Hash, Hasher};
        let mut h = std::collections::hash_map::DefaultHasher::new();
        match self {
            Outcome::Artifacts(m) => {
                0u8.hash(&mut h);
                m.hash(&mut h)
            }
            Outcome::Diags(s) => {
                1u8.hash(&mut h);
                s.hash(&mut h)
            }
            Outcome::InitError(s) => {
                2u8.hash(&mut h);
                s.hash(&mut h)
            }
            Outcome::Panic(s) => {
                3u8.hash(&mut h);
                s.hash(&mut h)
            }
        }
        h.finish()
    }
    fn brief(&self) -> Value {
        match self {
            Outcome::Artifacts(m) => json!({"artifacts": m.len()}),
            Outcome::Diags(s) => {
                json!({"diagnostics": s.iter().map(|d| trunc(d, 300)).collect::<Vec<_>>()})
            }
            Outcome::InitError(s) => json!({"init_error": trunc(s, 300)}),
            Outcome::Panic(s) => json!({"panic": trunc(s, 300)}),
        }
    }
}

fn trunc(s: &str, n: usize) -> String {
    if s.chars().count() <= n {
        s.to_string()
    } else {
        let t: String = s.chars().take(n).collect();
        format!("{t}…")
    }
}

fn artifact_rel_path(a: &ArtifactPathAndContent) -> String {
    match &a.artifact_path.type_and_field {
        Some(tf) => format!(
            "{}/{}/{}",
            tf.parent_entity_name, tf.selectable_name, a.artifact_path.file_name
        ),
        None => a.artifact_path.file_name.to_string(),
    }
}

fn artifacts_map(v: &[ArtifactPathAndContent]) -> BTreeMap<String, String> {
    v.iter()
        .map(|a| (artifact_rel_path(a), a.file_content.0.clone()))
        .collect()
}

/// What a state says right now (memoised for the incremental state: the same
/// call `compile` just made).
fn outcome_of(state: &State) -> Outcome {
    match guarded(|| get_artifact_path_and_content(&state.db)) {
        Err(p) => Outcome::Panic(p),
        Ok(Ok((artifacts, _))) => Outcome::Artifacts(artifacts_map(&artifacts)),
        Ok(Err(diags)) => Outcome::Diags(
            diags
                .iter()
                .map(|d| normalise_diagnostic(d.printable(state.db.print_location_fn(false)).to_string()))
                .collect(),
        ),
    }
}

/// Which of several definitions a "Multiple definitions" diagnostic points at depends on
/// the iteration order of a HashMap (differs between two fresh compiles as well), so only
/// its message is compared.
fn normalise_diagnostic(text: String) -> String {
    if text.starts_with("Multiple definitions of") {
        text.lines().next().unwrap_or("").to_string()
    } else {
        text
    }
}

fn fresh_outcome(config: &CompilerConfig, cwd: CurrentWorkingDirectory) -> Outcome {
    match guarded(|| State::new(config.clone(), cwd)) {
        Err(p) => Outcome::Panic(p),
        Ok(Err(e)) => Outcome::InitError(e.to_string()),
        Ok(Ok(st)) => outcome_of(&st),
    }
}

fn dir_snapshot(dir: &Path) -> BTreeMap<String, Vec<u8>> {
    fn walk(base: &Path, d: &Path, out: &mut BTreeMap<String, Vec<u8>>) {
        if let Ok(rd) = fs::read_dir(d) {
            for e in rd.flatten() {
                let p = e.path();
                if p.is_dir() {
                    walk(base, &p, out);
                } else if let Ok(b) = fs::read(&p) {
                    out.insert(p.strip_prefix(base).unwrap().to_string_lossy().to_string(), b);
                }
            }
        }
    }
    let mut out = BTreeMap::new();
    walk(dir, dir, &mut out);
    out
}

// ---------------------------------------------------------------------------
// event synthesis
// ---------------------------------------------------------------------------
struct Tree {
    root: PathBuf,         // case work dir (== cwd)
    project_root: PathBuf, // watched recursively
    schema: PathBuf,       // watched as a file (inode)
    extensions: Vec<PathBuf>,
    artifact_dir: PathBuf,
    /// where the inode that the non-recursive file watch is attached to currently lives
    /// (None: the watch was lost because the inode was unlinked / replaced)
    watched_inode: BTreeMap<PathBuf, Option<PathBuf>>,
    strays: BTreeSet<String>,
    stray_writes: u64,
}

fn ev(kind: EventKind, paths: &[&Path]) -> DebouncedEvent {
    let mut e = Event::new(kind);
    for p in paths {
        e = e.add_path(p.to_path_buf());
    }
    DebouncedEvent::new(e, Instant::now())
}
fn open(p: &Path) -> DebouncedEvent {
    ev(EventKind::Access(AccessKind::Open(AccessMode::Any)), &[p])
}
fn close_w(p: &Path) -> DebouncedEvent {
    ev(EventKind::Access(AccessKind::Close(AccessMode::Write)), &[p])
}
fn data(p: &Path) -> DebouncedEvent {
    ev(EventKind::Modify(ModifyKind::Data(DataChange::Any)), &[p])
}
fn create_file(p: &Path) -> DebouncedEvent {
    ev(EventKind::Create(CreateKind::File), &[p])
}
fn create_folder(p: &Path) -> DebouncedEvent {
    ev(EventKind::Create(CreateKind::Folder), &[p])
}
fn remove_file(p: &Path) -> DebouncedEvent {
    ev(EventKind::Remove(RemoveKind::File), &[p])
}
fn remove_folder(p: &Path) -> DebouncedEvent {
    ev(EventKind::Remove(RemoveKind::Folder), &[p])
}
fn name(mode: RenameMode, paths: &[&Path]) -> DebouncedEvent {
    ev(EventKind::Modify(ModifyKind::Name(mode)), paths)
}

#[derive(PartialEq, Clone, Copy)]
enum Region {
    Root,      // under the recursively watched project root
    FileWatch, // schema / extension path
    Outside,
}

impl Tree {
    fn abs(&self, rel: &str) -> PathBuf {
        self.root.join(rel)
    }
    fn region(&self, p: &Path) -> Region {
        if p.starts_with(&self.project_root) {
            Region::Root
        } else if self.watched_inode.contains_key(p) {
            Region::FileWatch
        } else {
            Region::Outside
        }
    }
    /// the file-watch key whose inode currently lives at `p`
    fn inode_watch_at(&self, p: &Path) -> Option<PathBuf> {
        self.watched_inode
            .iter()
            .find(|(_, at)| at.as_deref() == Some(p))
            .map(|(k, _)| k.clone())
    }

    /// Applies `op` with real syscalls; returns the events the debouncer delivers
    /// (None = op not applicable in the current tree, nothing was done).
    fn apply(&mut self, op: &Op) -> Option<Vec<DebouncedEvent>> {
        let mut evs = vec![];
        // Inside the artifact directory only plain writes of stray files are made (to check
        // that they are not read as sources); anything else there is "something else editing
        // the artifact directory", which the property does not cover.
        let touched: Vec<&String> = match op {
            Op::Write { .. } => vec![],
            Op::AtomicReplace { path, .. } | Op::RemoveFile { path } | Op::RemoveDir { path }
            | Op::ReplaceFileByDir { path, .. } | Op::ReplaceDirByFile { path, .. }
            | Op::Recreate { path, .. } | Op::Touch { path } | Op::Chmod { path } | Op::Mkdir { path } => vec![path],
            Op::Rename { from, to } => vec![from, to],
        };
        if touched.iter().any(|p| self.abs(p).starts_with(&self.artifact_dir)) {
            return None;
        }
        match op {
            Op::Mkdir { path } => {
                let p = self.abs(path);
                if p.exists() || !p.parent()?.is_dir() {
                    return None;
                }
                fs::create_dir(&p).ok()?;
                if self.region(&p) == Region::Root {
                    evs.push(create_folder(&p));
                    evs.push(open(&p));
                }
            }
            Op::Write { path, text, hex, slow } => {
                let p = self.abs(path);
                let bytes = content_bytes(text, hex);
                if p.is_dir() {
                    return None;
                }
                let existed = p.is_file();
                // missing ancestors
                let mut missing = vec![];
                let mut cur = p.parent()?.to_path_buf();
                while !cur.exists() {
                    missing.push(cur.clone());
                    cur = cur.parent()?.to_path_buf();
                }
                if !cur.is_dir() {
                    return None;
                }
                missing.reverse();
                for d in &missing {
                    fs::create_dir(d).ok()?;
                }
                fs::write(&p, &bytes).ok()?;
                if p.starts_with(&self.artifact_dir) {
                    self.stray_writes += 1;
                    self.strays.insert(
                        p.strip_prefix(&self.artifact_dir).unwrap().to_string_lossy().to_string(),
                    );
                }
                match self.region(&p) {
                    Region::Root => {
                        if existed {
                            evs.extend([open(&p), data(&p), close_w(&p)]);
                        } else if missing.is_empty() {
                            evs.extend([create_file(&p), open(&p), close_w(&p)]);
                        } else if *slow {
                            for d in &missing {
                                evs.extend([create_folder(d), open(d)]);
                            }
                            evs.extend([create_file(&p), open(&p), close_w(&p)]);
                        } else {
                            // recorded shape mkdir_p_nested_and_create_file_immediately: only the
                            // top-most new folder is reported, the file is missed
                            evs.extend([create_folder(&missing[0]), open(&missing[0])]);
                            for d in &missing[1..] {
                                evs.push(open(d));
                            }
                        }
                    }
                    Region::FileWatch => {
                        if existed && self.watched_inode[&p].as_deref() == Some(p.as_path()) {
                            evs.extend([open(&p), data(&p), close_w(&p)]);
                        }
                        // re-created after unlink: the watch is gone, nothing is delivered
                    }
                    Region::Outside => {
                        // a watched inode that was renamed away is still reported under its old name
                        if existed && let Some(k) = self.inode_watch_at(&p) {
                            evs.extend([open(&k), data(&k), close_w(&k)]);
                        }
                    }
                }
            }
            Op::Touch { path } => {
                let p = self.abs(path);
                if !p.is_file() {
                    return None;
                }
                let b = fs::read(&p).ok()?;
                fs::write(&p, b).ok()?;
                match self.region(&p) {
                    Region::Root => evs.extend([open(&p), data(&p), close_w(&p)]),
                    Region::FileWatch => {
                        if self.watched_inode[&p].as_deref() == Some(p.as_path()) {
                            evs.extend([open(&p), data(&p), close_w(&p)]);
                        }
                    }
                    Region::Outside => {}
                }
            }
            Op::Chmod { path } => {
                let p = self.abs(path);
                if !p.is_file() {
                    return None;
                }
                use std::os::unix::fs::PermissionsExt;
                let mode = fs::metadata(&p).ok()?.permissions().mode() & 0o777;
                let new = if mode == 0o644 { 0o664 } else { 0o644 };
                fs::set_permissions(&p, fs::Permissions::from_mode(new)).ok()?;
                let watched = match self.region(&p) {
                    Region::Root => true,
                    Region::FileWatch => self.watched_inode[&p].as_deref() == Some(p.as_path()),
                    Region::Outside => false,
                };
                if watched {
                    evs.push(ev(EventKind::Modify(ModifyKind::Metadata(MetadataKind::Any)), &[&p]));
                }
            }
            Op::AtomicReplace { path, text } => {
                let p = self.abs(path);
                if p.is_dir() || !p.parent()?.is_dir() {
                    return None;
                }
                let tmp = p.with_file_name(format!(
                    ".{}.tmp",
                    p.file_name()?.to_string_lossy()
                ));
                fs::write(&tmp, text.as_bytes()).ok()?;
                fs::rename(&tmp, &p).ok()?;
                match self.region(&p) {
                    // recorded shape atomic_save_tmp_then_rename_over
                    Region::Root => evs.extend([create_file(&p), open(&p), close_w(&p)]),
                    Region::FileWatch => {
                        // recorded shape schema_atomic_replace: the old inode is unlinked
                        if self.watched_inode[&p].as_deref() == Some(p.as_path()) {
                            evs.push(remove_file(&p));
                        }
                        self.watched_inode.insert(p.clone(), None);
                    }
                    Region::Outside => {}
                }
            }
            Op::RemoveFile { path } => {
                let p = self.abs(path);
                if !p.is_file() {
                    return None;
                }
                fs::remove_file(&p).ok()?;
                match self.region(&p) {
                    Region::Root => evs.push(remove_file(&p)),
                    Region::FileWatch => {
                        if self.watched_inode[&p].as_deref() == Some(p.as_path()) {
                            evs.push(remove_file(&p));
                            self.watched_inode.insert(p.clone(), None);
                        }
                    }
                    Region::Outside => {
                        if let Some(k) = self.inode_watch_at(&p) {
                            evs.push(remove_file(&k));
                            self.watched_inode.insert(k, None);
                        }
                    }
                }
            }
            Op::RemoveDir { path } => {
                let p = self.abs(path);
                if !p.is_dir() || p == self.project_root || self.project_root.starts_with(&p) {
                    return None;
                }
                if self.artifact_dir.starts_with(&p) {
                    return None; // never remove the artifact directory ("something else" edits are out of scope)
                }
                fs::remove_dir_all(&p).ok()?;
                if self.region(&p) == Region::Root {
                    // recorded shape remove_dir_all_with_files: one Remove(Folder)
                    evs.push(remove_folder(&p));
                }
            }
            Op::Rename { from, to } => {
                let f = self.abs(from);
                let t = self.abs(to);
                if !f.exists() || f == t || !t.parent()?.is_dir() || t.starts_with(&f) {
                    return None;
                }
                if f == self.project_root || self.project_root.starts_with(&f) {
                    return None;
                }
                if self.artifact_dir.starts_with(&f) || t.starts_with(&self.artifact_dir) || f.starts_with(&self.artifact_dir) {
                    return None;
                }
                let f_is_dir = f.is_dir();
                if t.exists() && (f_is_dir || t.is_dir()) {
                    return None;
                }
                // a file renamed over a watched file path replaces that inode
                let replaced_watch = if t.exists() { self.inode_watch_at(&t) } else { None };
                let moved_watch = self.inode_watch_at(&f);
                fs::rename(&f, &t).ok()?;
                let (rf, rt) = (self.region(&f), self.region(&t));
                // recursive watch side
                match (rf == Region::Root, rt == Region::Root) {
                    (true, true) => {
                        evs.push(name(RenameMode::Both, &[&f, &t]));
                        if f_is_dir {
                            evs.push(open(&t));
                        }
                    }
                    (true, false) => evs.push(name(RenameMode::From, &[&f])),
                    (false, true) => {
                        evs.push(name(RenameMode::To, &[&t]));
                        if f_is_dir {
                            evs.push(open(&t));
                        }
                    }
                    (false, false) => {}
                }
                // inode (file) watch side: recorded shapes schema_rename_away/back/into_src
                if let Some(k) = replaced_watch {
                    evs.push(remove_file(&k));
                    self.watched_inode.insert(k, None);
                }
                if let Some(k) = moved_watch {
                    evs.push(name(RenameMode::From, &[&k]));
                    self.watched_inode.insert(k, Some(t.clone()));
                }
            }
            Op::ReplaceFileByDir { path, inner, text, slow } => {
                let p = self.abs(path);
                if !p.is_file() || self.region(&p) != Region::Root {
                    return None;
                }
                fs::remove_file(&p).ok()?;
                fs::create_dir(&p).ok()?;
                let i = p.join(inner);
                fs::write(&i, text.as_bytes()).ok()?;
                evs.extend([remove_file(&p), create_folder(&p), open(&p)]);
                if *slow {
                    evs.extend([create_file(&i), open(&i), close_w(&i)]);
                }
            }
            Op::ReplaceDirByFile { path, text } => {
                let p = self.abs(path);
                if !p.is_dir() || self.region(&p) != Region::Root || p == self.project_root {
                    return None;
                }
                if self.artifact_dir.starts_with(&p) {
                    return None;
                }
                fs::remove_dir_all(&p).ok()?;
                fs::write(&p, text.as_bytes()).ok()?;
                evs.extend([remove_folder(&p), create_file(&p), open(&p), data(&p), close_w(&p)]);
            }
            Op::Recreate { path, text } => {
                let p = self.abs(path);
                if !p.is_file() || self.region(&p) != Region::Root {
                    return None;
                }
                fs::remove_file(&p).ok()?;
                fs::write(&p, text.as_bytes()).ok()?;
                evs.extend([remove_file(&p), create_file(&p), open(&p), data(&p), close_w(&p)]);
            }
        }
        Some(evs)
    }
}

fn content_bytes(text: &Option<String>, hex: &Option<String>) -> Vec<u8> {
    if let Some(h) = hex {
        (0..h.len() / 2)
            .map(|i| u8::from_str_radix(&h[2 * i..2 * i + 2], 16).unwrap_or(0))
            .collect()
    } else {
        text.clone().unwrap_or_default().into_bytes()
    }
}

// ---------------------------------------------------------------------------
// one run of one script
// ---------------------------------------------------------------------------
#[derive(Clone, Debug)]
struct Fired {
    rule: String,
    step: usize,
    what: String,
    detail: Value,
}

#[derive(Default)]
struct RunStats {
    steps_run: u64,
    ops_applied: BTreeMap<String, u64>,
    ops_skipped: u64,
    events_delivered: BTreeMap<String, u64>,
    batches_with_relevant_events: u64,
    batches_without_relevant_events: u64,
    recompiles_ok: u64,
    recompiles_err: u64,
    gc_runs: u64,
    deferred_batches: u64,
    fresh: BTreeMap<String, u64>,
    outcome_changes: u64,
    comparisons: u64,
    failed_recompile_dir_checks: u64,
    dir_checks: u64,
    fresh_nondeterministic_skipped: u64,
    fresh_panics: u64,
    outcome_trace: Vec<u64>,
}

fn copy_tree(from: &Path, to: &Path) {
    fs::create_dir_all(to).unwrap();
    for e in fs::read_dir(from).unwrap().flatten() {
        let p = e.path();
        let t = to.join(e.file_name());
        if p.is_dir() {
            copy_tree(&p, &t);
        } else {
            fs::copy(&p, &t).unwrap();
        }
    }
}

fn kind_name(k: &EventKind) -> String {
    format!("{k:?}")
}

struct Runner {
    work: PathBuf,
}

impl Runner {
    /// Copies the template into the work tree and describes it.
    fn setup(&self, case: &Case) -> Result<(PathBuf, CompilerConfig, CurrentWorkingDirectory, Tree), String> {
        let dir = self.work.join("proj");
        let _ = std::env::set_current_dir("/");
        let _ = fs::remove_dir_all(&dir);
        copy_tree(Path::new(&case.template), &dir);
        fs::create_dir_all(self.work.join("proj/outside")).map_err(|e| e.to_string())?;
        for rel in &case.pre_delete {
            let _ = fs::remove_file(dir.join(rel));
        }
        let dir = dir.canonicalize().map_err(|e| e.to_string())?;
        std::env::set_current_dir(&dir).map_err(|e| e.to_string())?;
        let cwd: CurrentWorkingDirectory = dir.to_str().unwrap().intern().into();
        let config_path = dir.join("isograph.config.json");
        let config = guarded(|| create_config(&config_path, cwd))
            .map_err(|p| format!("create_config panicked: {p}"))?;
        let mut tree = Tree {
            root: dir.clone(),
            project_root: config.project_root.clone(),
            schema: config.schema.absolute_path.clone(),
            extensions: config.schema_extensions.iter().map(|x| x.absolute_path.clone()).collect(),
            artifact_dir: config.artifact_directory.absolute_path.clone(),
            watched_inode: BTreeMap::new(),
            strays: BTreeSet::new(),
            stray_writes: 0,
        };
        tree.watched_inode.insert(tree.schema.clone(), Some(tree.schema.clone()));
        for e in tree.extensions.clone() {
            tree.watched_inode.insert(e.clone(), Some(e));
        }
        Ok((dir, config, cwd, tree))
    }

    fn run(&self, case: &Case, stats: &mut RunStats) -> Result<Option<Fired>, String> {
        let (dir, config, cwd, mut tree) = self.setup(case)?;
        let mut state = match guarded(|| State::new(config.clone(), cwd)) {
            Err(p) => return Err(format!("initial CompilerState::new panicked: {p}")),
            Ok(Err(e)) => return Err(format!("initial CompilerState::new failed: {e}")),
            Ok(Ok(s)) => s,
        };

        // initial compile, as handle_watch_command does
        let mut last: Outcome;
        match guarded(|| compile::<Profile>(&mut state)) {
            Err(p) => return Err(format!("initial compile panicked (C08 batch territory): {p}")),
            Ok(_) => {
                last = outcome_of(&state);
            }
        }
        let mut prev_fresh_fp = last.fingerprint();
        stats.outcome_trace.push(prev_fresh_fp);

        let mut cached_dir: Option<BTreeMap<String, Vec<u8>>> = None;
        let mut strays_at_snapshot = 0u64;
        let mut pending: Vec<Vec<SourceFileEvent>> = vec![];
        for (si, step) in case.steps.iter().enumerate() {
            stats.steps_run += 1;
            // 1. the edits of this debounce window
            let mut events: Vec<DebouncedEvent> = vec![];
            for op in &step.ops {
                match tree.apply(op) {
                    Some(evs) => {
                        *stats.ops_applied.entry(op.kind().to_string()).or_default() += 1;
                        events.extend(evs);
                    }
                    None => stats.ops_skipped += 1,
                }
            }
            for e in &events {
                *stats.events_delivered.entry(kind_name(&e.event.kind)).or_default() += 1;
            }
            // 2. what the debouncer callback does
            let changes = match guarded(|| {
                isograph_compiler::verif::categorize_and_filter_events(&events, &config)
            }) {
                Err(p) => {
                    return Ok(Some(Fired {
                        rule: "c08-watch-panic".into(),
                        step: si,
                        what: format!("event categorisation panicked: {}", trunc(&p, 200)),
                        detail: json!({"panic": p, "where": "categorize_and_filter_events"}),
                    }));
                }
                Ok(c) => c,
            };
            let mut recompiled = false;
            if changes.is_none() {
                stats.batches_without_relevant_events += 1;
            }
            let mut to_process: Vec<Vec<SourceFileEvent>> = std::mem::take(&mut pending);
            if let Some(c) = changes {
                to_process.push(c);
            }
            if step.defer && si + 1 < case.steps.len() {
                // The loop is still busy with an earlier compile: this batch (already
                // categorised against the tree as it is now) is only handled after the edits
                // of the next step have been made. No comparison at this point.
                stats.deferred_batches += 1;
                pending = to_process;
                continue;
            }
            for changes in to_process {
                stats.batches_with_relevant_events += 1;
                if has_config_changes(&changes) {
                    return Err("script touched the config file (not generated)".into());
                }
                // 3. what the loop does
                match guarded(|| update_sources(&mut state.db, &changes)) {
                    Err(p) => {
                        return Ok(Some(Fired {
                            rule: "c08-watch-panic".into(),
                            step: si,
                            what: format!("update_sources panicked: {}", trunc(&p, 200)),
                            detail: json!({"panic": p, "where": "update_sources"}),
                        }));
                    }
                    Ok(Err(errs)) => {
                        let msgs: Vec<String> = errs.iter().map(|e| e.to_string()).collect();
                        let fresh = fresh_outcome(&config, cwd);
                        return Ok(Some(Fired {
                            rule: "watcher-stops".into(),
                            step: si,
                            what: format!(
                                "update_sources returned Err, handle_watch_command returns: {}",
                                trunc(&normalise_paths(&msgs.join(" | "), &dir), 200)
                            ),
                            detail: json!({"errors": msgs, "fresh": fresh.brief(), "fresh_kind": fresh.tag()}),
                        }));
                    }
                    Ok(Ok(())) => {}
                }
                // the directory as the previous compile left it (nothing else writes there
                // except the stray files of this script, which invalidate the cached snapshot)
                let before = match (&cached_dir, tree.stray_writes == strays_at_snapshot) {
                    (Some(s), true) => s.clone(),
                    _ => dir_snapshot(&tree.artifact_dir),
                };
                let result = guarded(|| compile::<Profile>(&mut state));
                match result {
                    Err(p) => {
                        let fresh = fresh_outcome(&config, cwd);
                        if matches!(fresh, Outcome::Panic(_)) {
                            stats.fresh_panics += 1;
                            return Err(format!("both fresh and incremental compile panic (C08 batch territory): {p}"));
                        }
                        return Ok(Some(Fired {
                            rule: "c08-watch-panic".into(),
                            step: si,
                            what: format!("incremental compile panicked: {}", trunc(&p, 200)),
                            detail: json!({"panic": p, "where": "compile", "fresh": fresh.brief()}),
                        }));
                    }
                    Ok(Ok(_)) => {
                        stats.recompiles_ok += 1;
                    }
                    Ok(Err(diags)) => {
                        stats.recompiles_err += 1;
                        stats.failed_recompile_dir_checks += 1;
                        if diags.is_empty() {
                            return Ok(Some(Fired {
                                rule: "c08-watch-empty-error".into(),
                                step: si,
                                what: "incremental compile failed without any diagnostic".into(),
                                detail: json!({}),
                            }));
                        }
                        let after = dir_snapshot(&tree.artifact_dir);
                        if after != before {
                            let changed: Vec<&String> = after
                                .keys()
                                .chain(before.keys())
                                .filter(|k| after.get(*k) != before.get(*k))
                                .collect::<BTreeSet<_>>()
                                .into_iter()
                                .collect();
                            return Ok(Some(Fired {
                                rule: "c17-watch-failed-compile-touched-artifacts".into(),
                                step: si,
                                what: format!("failed incremental compile changed {} artifact file(s)", changed.len()),
                                detail: json!({"changed": changed.iter().take(10).collect::<Vec<_>>()}),
                            }));
                        }
                    }
                }
                recompiled = true;
                last = outcome_of(&state);
                if let Outcome::Artifacts(m) = &last {
                    // the directory the user sees
                    stats.dir_checks += 1;
                    let mut on_disk = dir_snapshot(&tree.artifact_dir);
                    cached_dir = Some(on_disk.clone());
                    strays_at_snapshot = tree.stray_writes;
                    for s in &tree.strays {
                        on_disk.remove(s);
                    }
                    let expect: BTreeMap<String, Vec<u8>> =
                        m.iter().map(|(k, v)| (k.clone(), v.clone().into_bytes())).collect();
                    if on_disk != expect {
                        let diff: Vec<String> = on_disk
                            .keys()
                            .chain(expect.keys())
                            .filter(|k| on_disk.get(*k) != expect.get(*k))
                            .cloned()
                            .collect::<BTreeSet<_>>()
                            .into_iter()
                            .collect();
                        return Ok(Some(Fired {
                            rule: "artifact-dir-differs".into(),
                            step: si,
                            what: format!(
                                "after a successful incremental compile {} file(s) of the artifact directory differ from the artifacts computed",
                                diff.len()
                            ),
                            detail: json!({"paths": diff.iter().take(10).collect::<Vec<_>>()}),
                        }));
                    }
                }
                // state.run_garbage_collection(): every 60 s in the loop; here when the script says so
                if step.gc {
                    stats.gc_runs += 1;
                    if let Err(p) = guarded(|| {
                        use pico::Database;
                        state.db.run_garbage_collection()
                    }) {
                        return Ok(Some(Fired {
                            rule: "c08-watch-panic".into(),
                            step: si,
                            what: format!("garbage collection panicked: {}", trunc(&p, 200)),
                            detail: json!({"panic": p, "where": "run_garbage_collection"}),
                        }));
                    }
                }
            }

            // 4. the oracle: a fresh state on the same tree
            let fresh = fresh_outcome(&config, cwd);
            *stats.fresh.entry(fresh.tag().to_string()).or_default() += 1;
            stats.comparisons += 1;
            let fp = fresh.fingerprint();
            if fp != prev_fresh_fp {
                stats.outcome_changes += 1;
            }
            prev_fresh_fp = fp;
            stats.outcome_trace.push(fp);
            if let Outcome::Panic(p) = &fresh {
                stats.fresh_panics += 1;
                return Err(format!("fresh compile panics (C08 batch territory): {p}"));
            }
            if !same(&last, &fresh) {
                // is the fresh compile itself deterministic here? (HashMap iteration order)
                let mut matched_some_fresh = false;
                let mut fresh_varies = false;
                for _ in 0..3 {
                    let again = fresh_outcome(&config, cwd);
                    if !same(&fresh, &again) {
                        fresh_varies = true;
                    }
                    if same(&last, &again) {
                        matched_some_fresh = true;
                        break;
                    }
                }
                if matched_some_fresh || fresh_varies {
                    stats.fresh_nondeterministic_skipped += 1;
                    continue;
                }
                let rule = if recompiled { "diverged" } else { "missed-change" };
                return Ok(Some(Fired {
                    rule: rule.into(),
                    step: si,
                    what: format!(
                        "{}: watch says {}, fresh compile says {}{}",
                        if recompiled { "recompile differs from a fresh compile" } else { "no recompile was triggered but a fresh compile differs" },
                        last.tag(),
                        fresh.tag(),
                        difference(&last, &fresh, &dir)
                    ),
                    detail: json!({"watch": last.brief(), "fresh": fresh.brief()}),
                }));
            }
        }
        Ok(None)
    }
}

fn normalise_paths(s: &str, dir: &Path) -> String {
    s.replace(dir.to_str().unwrap_or(""), "<proj>")
}

/// Same artifacts / same diagnostics set. A fresh compile that cannot even start
/// (init error) only has to be matched by *some* reported error.
fn same(watch: &Outcome, fresh: &Outcome) -> bool {
    match (watch, fresh) {
        (Outcome::Diags(_), Outcome::InitError(_)) => true,
        (Outcome::Diags(a), Outcome::Diags(b)) => {
            // With several definitions of one client field, which of them is validated (and
            // therefore which further diagnostics appear) depends on HashMap iteration order,
            // in a fresh compile as well. Then only the duplicate reports are compared.
            let dups = |s: &BTreeSet<String>| -> BTreeSet<String> {
                s.iter().filter(|d| d.starts_with("Multiple definitions of")).cloned().collect()
            };
            let (da, db) = (dups(a), dups(b));
            if !da.is_empty() || !db.is_empty() {
                return da == db;
            }
            if a == b {
                return true;
            }
            // Which of several equivalent places a diagnostic is attached to (e.g. the same
            // entrypoint declared in two files, the target is missing) also depends on
            // iteration order / interning order, between two fresh processes as well
            // (observed: 3 different locations in 12 runs of the CLI). If only locations
            // differ, the messages decide. Counted in `location_only_differences`.
            let msgs = |s: &BTreeSet<String>| -> BTreeSet<String> {
                s.iter().map(|d| d.lines().next().unwrap_or("").to_string()).collect()
            };
            if msgs(a) == msgs(b) {
                LOCATION_ONLY.with(|c| c.set(c.get() + 1));
                return true;
            }
            false
        }
        (a, b) => a == b,
    }
}

fn difference(a: &Outcome, b: &Outcome, _dir: &Path) -> String {
    match (a, b) {
        (Outcome::Artifacts(x), Outcome::Artifacts(y)) => {
            let only_w: Vec<&String> = x.keys().filter(|k| !y.contains_key(*k)).collect();
            let only_f: Vec<&String> = y.keys().filter(|k| !x.contains_key(*k)).collect();
            let diff: Vec<&String> = x.keys().filter(|k| y.get(*k).is_some_and(|v| v != &x[*k])).collect();
            format!(
                " (only in watch: {:?}; only in fresh: {:?}; content differs: {:?})",
                only_w.iter().take(3).collect::<Vec<_>>(),
                only_f.iter().take(3).collect::<Vec<_>>(),
                diff.iter().take(3).collect::<Vec<_>>()
            )
        }
        (Outcome::Diags(x), Outcome::Diags(y)) => {
            let only_w: Vec<String> = x.difference(y).map(|s| trunc(s, 120)).collect();
            let only_f: Vec<String> = y.difference(x).map(|s| trunc(s, 120)).collect();
            format!(" (only in watch: {:?}; only in fresh: {:?})", only_w.iter().take(2).collect::<Vec<_>>(), only_f.iter().take(2).collect::<Vec<_>>())
        }
        _ => String::new(),
    }
}

// ---------------------------------------------------------------------------
// shrinking and signatures
// ---------------------------------------------------------------------------
fn shrink(runner: &Runner, case: &Case, fired: &Fired, budget: &mut u32) -> (Case, Fired) {
    let mut cur = case.clone();
    let mut cur_fired = fired.clone();
    cur.steps.truncate(cur_fired.step + 1);
    let try_case = |c: &Case, budget: &mut u32| -> Option<Fired> {
        if *budget == 0 {
            return None;
        }
        *budget -= 1;
        let mut st = RunStats::default();
        match runner.run(c, &mut st) {
            Ok(Some(f)) if f.rule == fired.rule => Some(f),
            _ => None,
        }
    };
    let mut progress = true;
    while progress && *budget > 0 {
        progress = false;
        // drop whole steps, last-but-one first
        let mut i = cur.steps.len();
        while i > 0 {
            i -= 1;
            if cur.steps.len() <= 1 {
                break;
            }
            let mut c = cur.clone();
            c.steps.remove(i);
            if let Some(f) = try_case(&c, budget) {
                c.steps.truncate(f.step + 1);
                cur = c;
                cur_fired = f;
                progress = true;
                i = i.min(cur.steps.len());
            }
        }
        // drop single ops from batched steps, gc flags
        for si in 0..cur.steps.len() {
            if si >= cur.steps.len() {
                break;
            }
            let mut oi = cur.steps[si].ops.len();
            while oi > 0 && cur.steps[si].ops.len() > 1 {
                oi -= 1;
                let mut c = cur.clone();
                c.steps[si].ops.remove(oi);
                if let Some(f) = try_case(&c, budget) {
                    c.steps.truncate(f.step + 1);
                    cur = c;
                    cur_fired = f;
                    progress = true;
                    if si >= cur.steps.len() {
                        break;
                    }
                    oi = oi.min(cur.steps[si].ops.len());
                }
            }
            if si < cur.steps.len() && cur.steps[si].defer {
                let mut c = cur.clone();
                c.steps[si].defer = false;
                if let Some(f) = try_case(&c, budget) {
                    c.steps.truncate(f.step + 1);
                    cur = c;
                    cur_fired = f;
                    progress = true;
                }
            }
            if si < cur.steps.len() && cur.steps[si].gc {
                let mut c = cur.clone();
                c.steps[si].gc = false;
                if let Some(f) = try_case(&c, budget) {
                    c.steps.truncate(f.step + 1);
                    cur = c;
                    cur_fired = f;
                    progress = true;
                }
            }
        }
        // `slow` -> fast is not a simplification; leave as is.
        // drop initial source files
        let template = PathBuf::from(&cur.template);
        let mut initial: Vec<String> = vec![];
        let src_root = template.join("src");
        for (rel, _) in dir_snapshot(&src_root) {
            let rel = format!("src/{rel}");
            if !cur.pre_delete.contains(&rel) {
                initial.push(rel);
            }
        }
        for rel in initial {
            let mut c = cur.clone();
            c.pre_delete.push(rel);
            if let Some(f) = try_case(&c, budget) {
                c.steps.truncate(f.step + 1);
                cur = c;
                cur_fired = f;
                progress = true;
            }
        }
    }
    (cur, cur_fired)
}

const SOURCE_EXTS: [&str; 4] = ["ts", "tsx", "js", "jsx"];

fn path_class(rel: &str, is_dir_hint: Option<bool>) -> &'static str {
    if rel == "schema.graphql" {
        return "schema";
    }
    if rel.starts_with("schema-extension") {
        return "extension";
    }
    if !rel.starts_with("src/") && rel != "src" {
        return "outside";
    }
    if rel.contains("__isograph") {
        return "isograph-named";
    }
    let ext = Path::new(rel).extension().and_then(|x| x.to_str());
    match ext {
        Some(e) if SOURCE_EXTS.contains(&e) => {
            if is_dir_hint == Some(true) {
                "folder"
            } else {
                "source"
            }
        }
        Some(_) => "non-source",
        None => {
            if is_dir_hint == Some(false) {
                "non-source"
            } else {
                "folder"
            }
        }
    }
}

/// Is there a source file in `files` whose path string starts with `rel` without
/// lying below `rel` component-wise?
fn shares_prefix(rel: &str, files: &BTreeSet<String>) -> bool {
    files.iter().any(|f| {
        f != rel && f.starts_with(rel) && !Path::new(f).starts_with(Path::new(rel))
    })
}

fn op_signature(op: &Op, files_before: &BTreeSet<String>, is_dir: &dyn Fn(&str) -> bool) -> String {
    let rel = |s: &str, p: &str| -> String {
        let mut v = format!("{s}:{}", path_class(p, Some(is_dir(p))));
        if shares_prefix(p, files_before) {
            v.push_str(":sibling-shares-prefix");
        }
        v
    };
    match op {
        Op::Write { path, hex, slow, .. } => {
            let mut s = rel("write", path);
            if hex.is_some() {
                s.push_str(":non-utf8");
            }
            let parent_missing = !files_before.iter().any(|f| Path::new(f).parent() == Path::new(path).parent())
                && !is_dir(Path::new(path).parent().and_then(|p| p.to_str()).unwrap_or(""));
            if parent_missing {
                s.push_str(if *slow { ":new-folder-slow" } else { ":new-folder-fast" });
            }
            s
        }
        Op::AtomicReplace { path, .. } => rel("atomic-replace", path),
        Op::RemoveFile { path } => rel("remove-file", path),
        Op::RemoveDir { path } => rel("remove-folder", path),
        Op::Rename { from, to } => {
            let kind = if is_dir(from) { "rename-folder" } else { "rename-file" };
            let mut s = format!(
                "{kind}:{}-to-{}",
                path_class(from, Some(is_dir(from))),
                path_class(to, Some(is_dir(from)))
            );
            if shares_prefix(from, files_before) {
                s.push_str(":sibling-shares-prefix");
            }
            s
        }
        Op::ReplaceFileByDir { path, slow, .. } => {
            let mut s = rel("replace-file-by-folder", path);
            s.push_str(if *slow { ":slow" } else { ":fast" });
            s
        }
        Op::ReplaceDirByFile { path, .. } => rel("replace-folder-by-file", path),
        Op::Recreate { path, .. } => rel("recreate", path),
        Op::Touch { path } => rel("touch", path),
        Op::Chmod { path } => rel("chmod", path),
        Op::Mkdir { path } => rel("mkdir", path),
    }
}

/// Causes that are recognised by what was observed rather than by the shape of the script.
fn special_cause(case: &Case, fired: &Fired) -> Option<String> {
    if fired.rule == "watcher-stops" {
        let msg = fired.detail["errors"].to_string();
        if msg.contains("Schema not found") {
            return Some("schema-removed-or-replaced".into());
        }
        if msg.contains("convert file to utf8") {
            return Some("non-utf8-source-file".into());
        }
        if msg.contains("convert to string") || msg.contains("canonicalize schema path") || msg.contains("that is not a file") {
            // the schema / an extension file is not there (any more) when the loop reads it:
            // same family as the removed-or-replaced findings
            if msg.contains("schema-extension") {
                return Some("extension-removed-or-replaced".into());
            }
            if msg.contains("schema.graphql") {
                return Some("schema-removed-or-replaced".into());
            }
            return Some("schema-or-extension-unreadable".into());
        }
        if msg.contains("traverse directory") || msg.contains("read file") {
            return Some("path-vanished-before-read".into());
        }
        return None;
    }
    // an operation after which the inotify watch on the schema / extension file is gone
    for step in &case.steps {
        for op in &step.ops {
            let lost = match op {
                Op::AtomicReplace { path, .. } | Op::RemoveFile { path } => Some(path.as_str()),
                Op::Rename { to, .. } => Some(to.as_str()),
                _ => None,
            };
            if let Some(p) = lost {
                match path_class(p, Some(false)) {
                    "extension" => return Some("extension-removed-or-replaced".into()),
                    "schema" => return Some("schema-removed-or-replaced".into()),
                    _ => {}
                }
            }
        }
    }
    None
}

/// Re-plays the shrunk script on the side (file names only) to describe each op
/// relative to the tree it was applied to.
fn cause_of(runner: &Runner, case: &Case, fired: &Fired) -> String {
    if let Some(c) = special_cause(case, fired) {
        return c;
    }
    let (dir, _config, _cwd, mut tree) = match runner.setup(case) {
        Ok(x) => x,
        Err(_) => return "setup-failed".to_string(),
    };
    let mut parts = vec![];
    let n = case.steps.len();
    for (si, step) in case.steps.iter().enumerate() {
        let mut step_parts = vec![];
        for op in &step.ops {
            let files: BTreeSet<String> = dir_snapshot(&dir.join("src"))
                .keys()
                .map(|k| format!("src/{k}"))
                .filter(|k| !tree.root.join(k).starts_with(&tree.artifact_dir))
                .collect();
            let d = dir.clone();
            let is_dir = move |p: &str| d.join(p).is_dir();
            let sig = op_signature(op, &files, &is_dir);
            if tree.apply(op).is_some() {
                step_parts.push(sig);
            }
        }
        // The comparison is made after every step, so the step on which the rule fires is
        // the cause; earlier steps only set the scene (they are in the witness).
        // (A deferred step's batch is handled together with the following one.)
        let in_tail = (si..n.saturating_sub(1)).all(|j| case.steps[j].defer);
        if in_tail && !step_parts.is_empty() {
            let joined = step_parts.join("+");
            parts.push(if si + 1 < n { format!("deferred({joined})") } else { joined });
        }
    }
    if parts.is_empty() {
        "initial-compile".to_string()
    } else {
        parts.join(">")
    }
}

// ---------------------------------------------------------------------------
// driver
// ---------------------------------------------------------------------------
pub fn main(input_path: &str) {
    install_panic_hook();
    let input: Input = serde_json::from_str(&fs::read_to_string(input_path).expect("input file")).expect("input json");
    let runner = Runner { work: PathBuf::from(&input.work) };
    fs::create_dir_all(&runner.work).unwrap();
    let stdout = std::io::stdout();
    let mut total = RunStats::default();
    let mut n_cases = 0u64;
    let mut n_skipped = 0u64;
    let mut skipped_reasons: BTreeMap<String, u64> = BTreeMap::new();
    let mut nontrivial_fps: BTreeSet<u64> = BTreeSet::new();
    let mut samples: Vec<Value> = vec![];
    let mut n_violations = 0u64;
    let mut shrunk_per_key: BTreeMap<String, u32> = BTreeMap::new();
    for case in &input.cases {
        {
            let mut o = stdout.lock();
            writeln!(o, "{}", json!({"start": case.id})).unwrap();
            o.flush().unwrap();
        }
        let mut st = RunStats::default();
        let res = runner.run(case, &mut st);
        n_cases += 1;
        let mut line = json!({"case": case.id});
        match res {
            Err(why) => {
                n_skipped += 1;
                let key = trunc(&normalise_paths(&why, &runner.work), 80);
                *skipped_reasons.entry(key).or_default() += 1;
                line["skipped"] = json!(why);
            }
            Ok(None) => {}
            Ok(Some(fired)) => {
                n_violations += 1;
                // full shrinking for the first occurrences of a rule / recognised cause in this
                // shard, a small budget afterwards (known findings repeat many times)
                let key = format!("{}/{}", fired.rule, special_cause(case, &fired).unwrap_or_default());
                let seen = shrunk_per_key.entry(key).or_insert(0u32);
                *seen += 1;
                let recognised = special_cause(case, &fired).is_some();
                let mut budget = if !input.shrink {
                    0
                } else if recognised {
                    if *seen <= 1 { 60 } else { 12 }
                } else if *seen <= 2 {
                    300
                } else {
                    60
                };
                let (small, small_fired) = shrink(&runner, case, &fired, &mut budget);
                let cause = cause_of(&runner, &small, &small_fired);
                line["violation"] = json!({
                    "rule": small_fired.rule,
                    "cause": cause,
                    "what": small_fired.what,
                    "detail": small_fired.detail,
                    "step": small_fired.step,
                    "original_step": fired.step,
                    "original_steps": case.steps.len(),
                    "shrunk": {"template": small.template, "pre_delete": small.pre_delete, "steps": small.steps},
                });
            }
        }
        // non-trivial: the fresh outcome changed at least twice along the script
        if st.outcome_changes >= 2 {
            use std::hash::{Hash, Hasher};
            let mut h = std::collections::hash_map::DefaultHasher::new();
            st.outcome_trace.hash(&mut h);
            nontrivial_fps.insert(h.finish());
        }
        if samples.len() < 3 && st.outcome_changes >= 2 {
            samples.push(json!({
                "case": case.id,
                "steps": case.steps.iter().map(|s| s.ops.iter().map(|o| trunc(&serde_json::to_string(o).unwrap(), 160)).collect::<Vec<_>>()).take(6).collect::<Vec<_>>(),
                "fresh_outcome_changes": st.outcome_changes,
            }));
        }
        merge(&mut total, st);
        let mut o = stdout.lock();
        writeln!(o, "{line}").unwrap();
        o.flush().unwrap();
    }
    let _ = std::env::set_current_dir("/");
    let _ = fs::remove_dir_all(runner.work.join("proj"));
    let summary = json!({
        "summary": {
            "cases": n_cases,
            "skipped": n_skipped,
            "skipped_reasons": skipped_reasons,
            "violations": n_violations,
            "steps": total.steps_run,
            "ops_applied": total.ops_applied,
            "ops_skipped": total.ops_skipped,
            "events_delivered": total.events_delivered,
            "batches_with_relevant_events": total.batches_with_relevant_events,
            "batches_without_relevant_events": total.batches_without_relevant_events,
            "recompiles_ok": total.recompiles_ok,
            "recompiles_err": total.recompiles_err,
            "gc_runs": total.gc_runs,
            "deferred_batches": total.deferred_batches,
            "fresh_outcomes": total.fresh,
            "fresh_outcome_changes": total.outcome_changes,
            "comparisons": total.comparisons,
            "artifact_dir_checks": total.dir_checks,
            "failed_recompile_dir_checks": total.failed_recompile_dir_checks,
            "fresh_nondeterministic_skipped": total.fresh_nondeterministic_skipped,
            "fresh_panics": total.fresh_panics,
            "location_only_differences": LOCATION_ONLY.with(|c| c.get()),
            "nontrivial_fingerprints": nontrivial_fps.iter().map(|x| format!("{x:016x}")).collect::<Vec<_>>(),
            "samples": samples,
        }
    });
    println!("{summary}");
}

fn merge(t: &mut RunStats, s: RunStats) {
    t.steps_run += s.steps_run;
    for (k, v) in s.ops_applied {
        *t.ops_applied.entry(k).or_default() += v;
    }
    t.ops_skipped += s.ops_skipped;
    for (k, v) in s.events_delivered {
        *t.events_delivered.entry(k).or_default() += v;
    }
    t.batches_with_relevant_events += s.batches_with_relevant_events;
    t.batches_without_relevant_events += s.batches_without_relevant_events;
    t.recompiles_ok += s.recompiles_ok;
    t.recompiles_err += s.recompiles_err;
    t.gc_runs += s.gc_runs;
    t.deferred_batches += s.deferred_batches;
    for (k, v) in s.fresh {
        *t.fresh.entry(k).or_default() += v;
    }
    t.outcome_changes += s.outcome_changes;
    t.comparisons += s.comparisons;
    t.dir_checks += s.dir_checks;
    t.failed_recompile_dir_checks += s.failed_recompile_dir_checks;
    t.fresh_nondeterministic_skipped += s.fresh_nondeterministic_skipped;
    t.fresh_panics += s.fresh_panics;
}


// ---------------------------------------------------------------------------
// `watch_tools batch <project-dir>`: one fresh batch compile (what compile_and_print does),
// artifacts written to the project's artifact directory; used as the reference of the real leg.
// ---------------------------------------------------------------------------
pub fn batch(dir: &str) {
    install_panic_hook();
    let dir = PathBuf::from(dir).canonicalize().expect("project dir");
    std::env::set_current_dir(&dir).unwrap();
    let cwd: CurrentWorkingDirectory = dir.to_str().unwrap().intern().into();
    let config_path = dir.join("isograph.config.json");
    let out = match guarded(|| {
        let config = create_config(&config_path, cwd);
        match State::new(config, cwd) {
            Err(e) => json!({"kind": "error", "init": true, "text": e.to_string()}),
            Ok(mut st) => match compile::<Profile>(&mut st) {
                Ok(stats) => json!({"kind": "ok", "written": stats.total_artifacts_written}),
                Err(diags) => json!({
                    "kind": "error",
                    "text": diags.iter().map(|d| d.printable(st.db.print_location_fn(false)).to_string()).collect::<Vec<_>>().join("\n\n"),
                }),
            },
        }
    }) {
        Ok(v) => v,
        Err(p) => json!({"kind": "crash", "text": p}),
    };
    println!("{out}");
}
