fn main() {}
