mod record;
mod sim;

fn main() {
    let args: Vec<String> = std::env::args().collect();
    match args.get(1).map(|s| s.as_str()) {
        Some("record-shapes") => {
            let v = record::record(std::path::Path::new(&args[2]));
            println!("{}", serde_json::to_string_pretty(&v).unwrap());
        }
        Some("sim") => sim::main(&args[2]),
        Some("batch") => sim::batch(&args[2]),
        Some("stress-debouncer") => record::stress(
            std::path::Path::new(&args[2]),
            args[3].parse().unwrap(),
            args.get(4).and_then(|s| s.parse().ok()).unwrap_or(1),
        ),
        _ => {
            eprintln!("usage: watch_tools record-shapes <scratch-dir> | sim <input.json>");
            std::process::exit(2);
        }
    }
}
