//! swc_tools — drives the real `swc_isograph_plugin` pass natively (C28).
//!
//! `swc_tools transform` reads JSON lines from stdin, one job per line, and
//! prints ONE JSON report `{"results":[...]}` on stdout.
//!
//! Job kinds
//!   transform: parse `source` (ts/tsx/js/jsx), apply the plugin pass built by
//!              `swc_isograph_plugin::compile_iso_literal_visitor`, print with
//!              swc_ecma_codegen.  Reports printed text, the diagnostics the
//!              pass emitted through swc's HANDLER (message + byte span), the
//!              imports / `require(..).default` expressions the pass created
//!              (they carry dummy spans), iso calls that survived, panics.
//!   print:     parse + print only (no pass) — used for the "substituted by
//!              hand" expected module so both sides go through the same printer.
//!   probe:     one iso call on its own: `iso(`<literal>`)(__FN__);` (or
//!              without the second call) run through the pass; the resulting
//!              AST is decoded into a classification
//!              (entrypoint / field / identity / kept / other), the specifier
//!              and the diagnostics.
//!
//! Every job is isolated: own SourceMap, own Globals, own Handler, panics
//! caught with catch_unwind.

use std::{
    io::{Read, Write},
    panic::{AssertUnwindSafe, catch_unwind},
    path::PathBuf,
    sync::{Arc, Mutex},
};

use isograph_config::IsographProjectConfig;
use serde::Deserialize;
use serde_json::{Value, json};
use swc_core::{
    common::{
        FileName, GLOBALS, Globals, Mark, SourceFile, SourceMap, Span,
        errors::{DiagnosticBuilder, Emitter, HANDLER, Handler},
        sync::Lrc,
    },
    ecma::{
        ast::*,
        codegen::{Config as CgConfig, Emitter as CgEmitter, text_writer::JsWriter},
        parser::{EsSyntax, Parser, StringInput, Syntax, TsSyntax},
        visit::{Visit, VisitWith},
    },
};
use swc_isograph_plugin::compile_iso_literal_visitor;

#[derive(Deserialize)]
struct Job {
    #[serde(default)]
    id: Value,
    kind: String,
    #[serde(default)]
    root_dir: String,
    /// relative to root_dir (or absolute)
    #[serde(default)]
    file: String,
    #[serde(default)]
    source: String,
    #[serde(default)]
    config: Value,
    /// "ts" | "tsx" | "js" | "jsx"
    #[serde(default)]
    syntax: String,
    /// pass Some(Mark::new()) as unresolved mark (as the wasm entry does)
    #[serde(default)]
    mark: bool,
    /// probe: raw template text
    #[serde(default)]
    literal: String,
    /// probe: `iso(`..`)(__FN__)` instead of `iso(`..`)`
    #[serde(default)]
    with_fn: bool,
}

type Diags = Arc<Mutex<Vec<(String, Option<Span>)>>>;

struct Collect(Diags);

impl Emitter for Collect {
    fn emit(&mut self, db: &DiagnosticBuilder<'_>) {
        let span = db.span.primary_span();
        self.0.lock().unwrap().push((db.message(), span));
    }
}

fn syntax_of(s: &str) -> Syntax {
    match s {
        "js" => Syntax::Es(EsSyntax::default()),
        "jsx" => Syntax::Es(EsSyntax {
            jsx: true,
            ..Default::default()
        }),
        "ts" => Syntax::Typescript(TsSyntax::default()),
        _ => Syntax::Typescript(TsSyntax {
            tsx: true,
            ..Default::default()
        }),
    }
}

fn parse(fm: &Lrc<SourceFile>, syntax: Syntax) -> Result<Module, String> {
    let mut parser = Parser::new(syntax, StringInput::from(&**fm), None);
    let module = parser
        .parse_module()
        .map_err(|e| format!("{:?}", e.kind().msg()))?;
    let errs = parser.take_errors();
    if let Some(e) = errs.first() {
        return Err(format!("recovered: {:?}", e.kind().msg()));
    }
    Ok(module)
}

fn print(cm: &Lrc<SourceMap>, m: &Module) -> String {
    let mut buf = vec![];
    {
        let wr = JsWriter::new(cm.clone(), "\n", &mut buf, None);
        let mut em = CgEmitter {
            cfg: CgConfig::default(),
            cm: cm.clone(),
            comments: None,
            wr,
        };
        em.emit_module(m).expect("codegen failed");
    }
    String::from_utf8(buf).expect("codegen produced invalid utf-8")
}

fn is_iso_ident(e: &Expr) -> bool {
    matches!(e, Expr::Ident(i) if i.sym == "iso")
}

/// `require("<spec>").default` → Some(spec)
fn require_default_spec(e: &Expr) -> Option<String> {
    if let Expr::Member(MemberExpr {
        obj,
        prop: MemberProp::Ident(p),
        ..
    }) = e
        && p.sym == "default"
        && let Expr::Call(CallExpr {
            callee: Callee::Expr(c),
            args,
            ..
        }) = &**obj
        && matches!(&**c, Expr::Ident(i) if i.sym == "require")
        && args.len() == 1
        && let Expr::Lit(Lit::Str(s)) = &*args[0].expr
    {
        return Some(s.value.to_string());
    }
    None
}

/// What the pass left behind / created, collected from the transformed AST.
#[derive(Default)]
struct Observe {
    base: u32,
    /// `require(..).default` with a dummy span = created by the pass
    created_requires: Vec<String>,
    /// iso(...) or iso(...)(...) calls still present: (lo, hi) of the outermost call
    surviving_iso_calls: Vec<(u32, u32)>,
}

impl Observe {
    fn rel(&self, s: Span) -> (u32, u32) {
        (
            s.lo.0.saturating_sub(self.base),
            s.hi.0.saturating_sub(self.base),
        )
    }
}

impl Visit for Observe {
    fn visit_expr(&mut self, e: &Expr) {
        if let Expr::Member(m) = e
            && m.span.is_dummy()
            && let Some(spec) = require_default_spec(e)
        {
            self.created_requires.push(spec);
        }
        if let Expr::Call(CallExpr {
            callee: Callee::Expr(c),
            span,
            ..
        }) = e
        {
            let direct = is_iso_ident(c);
            let nested = matches!(&**c, Expr::Call(CallExpr { callee: Callee::Expr(cc), .. }) if is_iso_ident(cc));
            if nested {
                let r = self.rel(*span);
                self.surviving_iso_calls.push(r);
                // do not report the inner iso(...) again, but look at the args
                if let Expr::Call(outer) = e {
                    outer.args.visit_with(self);
                    if let Callee::Expr(inner) = &outer.callee
                        && let Expr::Call(inner) = &**inner
                    {
                        inner.args.visit_with(self);
                    }
                }
                return;
            }
            if direct {
                let r = self.rel(*span);
                self.surviving_iso_calls.push(r);
            }
        }
        e.visit_children_with(self);
    }
}

fn created_imports(m: &Module) -> Vec<Value> {
    let mut out = vec![];
    for item in &m.body {
        if let ModuleItem::ModuleDecl(ModuleDecl::Import(i)) = item
            && i.span.is_dummy()
        {
            let local = i.specifiers.first().map(|s| match s {
                ImportSpecifier::Default(d) => format!("default:{}", d.local.sym),
                ImportSpecifier::Named(n) => format!("named:{}", n.local.sym),
                ImportSpecifier::Namespace(n) => format!("ns:{}", n.local.sym),
            });
            out.push(json!({
                "local": local,
                "n_specifiers": i.specifiers.len(),
                "src": i.src.value.to_string(),
                "type_only": i.type_only,
            }));
        }
    }
    out
}

fn decode_probe(m: &Module) -> Value {
    let mut imports: Vec<(String, String)> = vec![];
    let mut exprs: Vec<&Expr> = vec![];
    let mut other_items = 0;
    for item in &m.body {
        match item {
            ModuleItem::ModuleDecl(ModuleDecl::Import(i)) => {
                let local = match i.specifiers.first() {
                    Some(ImportSpecifier::Default(d)) if i.specifiers.len() == 1 => {
                        d.local.sym.to_string()
                    }
                    _ => "?".to_string(),
                };
                imports.push((local, i.src.value.to_string()));
            }
            ModuleItem::Stmt(Stmt::Expr(e)) => exprs.push(&e.expr),
            _ => other_items += 1,
        }
    }
    if exprs.len() != 1 || other_items != 0 {
        return json!({"class": "other", "why": "unexpected module shape",
            "n_imports": imports.len(), "n_exprs": exprs.len()});
    }
    let e = exprs[0];
    let n_imports = imports.len();
    match e {
        Expr::Ident(i) if i.sym == "__FN__" && n_imports == 0 => json!({"class": "field"}),
        Expr::Ident(i) => {
            if n_imports == 1 && imports[0].0 == i.sym.as_str() {
                json!({"class": "entrypoint", "how": "import", "ident": i.sym.to_string(),
                    "spec": imports[0].1})
            } else {
                json!({"class": "other", "why": "identifier without matching single import",
                    "ident": i.sym.to_string(), "n_imports": n_imports})
            }
        }
        Expr::Arrow(a) if n_imports == 0 => {
            let identity = a.params.len() == 1
                && matches!(&a.params[0], Pat::Ident(p) if p.id.sym == "x")
                && matches!(&*a.body, BlockStmtOrExpr::Expr(b) if matches!(&**b, Expr::Ident(i) if i.sym == "x"));
            if identity {
                json!({"class": "identity"})
            } else {
                json!({"class": "other", "why": "arrow that is not x => x"})
            }
        }
        Expr::Call(CallExpr {
            callee: Callee::Expr(c),
            ..
        }) if n_imports == 0 => {
            let direct = is_iso_ident(c);
            let nested = matches!(&**c, Expr::Call(CallExpr { callee: Callee::Expr(cc), .. }) if is_iso_ident(cc));
            if direct || nested {
                json!({"class": "kept"})
            } else {
                json!({"class": "other", "why": "call that is not iso"})
            }
        }
        _ => {
            if n_imports == 0
                && let Some(spec) = require_default_spec(e)
            {
                json!({"class": "entrypoint", "how": "require", "spec": spec})
            } else {
                json!({"class": "other", "why": "unrecognised expression", "n_imports": n_imports})
            }
        }
    }
}

fn run_job(job: &Job) -> Value {
    let diags: Diags = Default::default();
    let handler = Handler::with_emitter(true, false, Box::new(Collect(diags.clone())));
    let cm: Lrc<SourceMap> = Default::default();

    let abs_file: PathBuf = if job.file.is_empty() {
        PathBuf::from("unknown.tsx")
    } else {
        PathBuf::from(&job.root_dir).join(&job.file)
    };
    let source = match job.kind.as_str() {
        "probe" => {
            if job.with_fn {
                format!("iso(`{}`)(__FN__);\n", job.literal)
            } else {
                format!("iso(`{}`);\n", job.literal)
            }
        }
        _ => job.source.clone(),
    };
    let fm = cm.new_source_file(Lrc::new(FileName::Real(abs_file.clone())), source);
    let base = fm.start_pos.0;
    let syntax = syntax_of(&job.syntax);

    let module = match parse(&fm, syntax) {
        Ok(m) => m,
        Err(e) => return json!({"id": job.id, "kind": job.kind, "parse_error": e}),
    };

    if job.kind == "print" {
        let printed = catch_unwind(AssertUnwindSafe(|| print(&cm, &module)));
        return match printed {
            Ok(p) => json!({"id": job.id, "kind": "print", "output": p}),
            Err(_) => json!({"id": job.id, "kind": "print", "panic": "codegen panicked"}),
        };
    }

    let config: IsographProjectConfig = match serde_json::from_value(job.config.clone()) {
        Ok(c) => c,
        Err(e) => {
            return json!({"id": job.id, "kind": job.kind, "config_error": e.to_string()});
        }
    };
    let root_dir = PathBuf::from(&job.root_dir);

    let res = catch_unwind(AssertUnwindSafe(|| {
        GLOBALS.set(&Globals::new(), || {
            HANDLER.set(&handler, || {
                let mark = if job.mark { Some(Mark::new()) } else { None };
                let pass = compile_iso_literal_visitor(&config, &abs_file, &root_dir, mark);
                let program = Program::Module(module).apply(pass);
                match program {
                    Program::Module(m) => m,
                    Program::Script(_) => unreachable!("module in, script out"),
                }
            })
        })
    }));

    let diag_json: Vec<Value> = diags
        .lock()
        .unwrap()
        .iter()
        .map(|(msg, span)| {
            let (lo, hi) = match span {
                Some(s) if !s.is_dummy() => (
                    Some(s.lo.0.saturating_sub(base)),
                    Some(s.hi.0.saturating_sub(base)),
                ),
                _ => (None, None),
            };
            json!({"msg": msg, "lo": lo, "hi": hi})
        })
        .collect();

    let transformed = match res {
        Ok(m) => m,
        Err(p) => {
            let msg = if let Some(s) = p.downcast_ref::<&str>() {
                s.to_string()
            } else if let Some(s) = p.downcast_ref::<String>() {
                s.clone()
            } else {
                "non-string panic".to_string()
            };
            return json!({"id": job.id, "kind": job.kind, "panic": msg, "diagnostics": diag_json});
        }
    };

    let printed = match catch_unwind(AssertUnwindSafe(|| print(&cm, &transformed))) {
        Ok(p) => p,
        Err(_) => {
            return json!({"id": job.id, "kind": job.kind, "panic": "codegen panicked",
                "diagnostics": diag_json});
        }
    };

    if job.kind == "probe" {
        let mut d = decode_probe(&transformed);
        let o = d.as_object_mut().unwrap();
        o.insert("id".into(), job.id.clone());
        o.insert("kind".into(), json!("probe"));
        o.insert("diagnostics".into(), json!(diag_json));
        o.insert("output".into(), json!(printed));
        return d;
    }

    let mut obs = Observe {
        base,
        ..Default::default()
    };
    transformed.visit_with(&mut obs);
    json!({
        "id": job.id,
        "kind": "transform",
        "output": printed,
        "diagnostics": diag_json,
        "created_imports": created_imports(&transformed),
        "created_requires": obs.created_requires,
        "surviving_iso_calls": obs.surviving_iso_calls,
    })
}

fn main() {
    let args: Vec<String> = std::env::args().collect();
    if args.get(1).map(|s| s.as_str()) != Some("transform") {
        eprintln!("usage: swc_tools transform < jobs.jsonl");
        std::process::exit(2);
    }
    // keep stderr quiet: panics are caught per job and reported in the JSON
    std::panic::set_hook(Box::new(|_| {}));

    let mut input = String::new();
    std::io::stdin()
        .read_to_string(&mut input)
        .expect("read stdin");
    let mut results = vec![];
    let mut bad_lines = 0usize;
    for line in input.lines() {
        if line.trim().is_empty() {
            continue;
        }
        match serde_json::from_str::<Job>(line) {
            Ok(job) => {
                let r = catch_unwind(AssertUnwindSafe(|| run_job(&job)));
                match r {
                    Ok(v) => results.push(v),
                    Err(_) => results.push(
                        json!({"id": job.id, "kind": job.kind, "panic": "harness-level panic"}),
                    ),
                }
            }
            Err(e) => {
                bad_lines += 1;
                results.push(json!({"bad_job": e.to_string()}));
            }
        }
    }
    let out = json!({"tool": "swc_tools", "jobs": results.len(), "bad_lines": bad_lines,
        "results": results});
    let stdout = std::io::stdout();
    let mut lock = stdout.lock();
    serde_json::to_writer(&mut lock, &out).expect("write stdout");
    lock.write_all(b"\n").unwrap();
}
