//! C31: `common_lang_types::text_with_carats(text, outer, inner, false)` against an
//! independent model of "row of the span start / one caret per character under
//! exactly the span's characters on the printed lines".
use std::collections::BTreeMap;

use common_lang_types::{Span, text_with_carats};
use serde_json::json;

use crate::util::{Args, Distinct, Rng, fnv, panic_cause, take_panic, trunc};

const PIECES: &[&str] = &[
    "a", "b", "c", "x", "0", " ", " ", "\t", "\n", "\n", "\n", "\r\n", "\r", "é", "ß", "€", "日", "😀", "𝒳", "^", "^",
    "\u{feff}", "~",
];

struct Line {
    start: usize,
    /// (byte offset in text, char) without the terminating '\n'
    chars: Vec<(usize, char)>,
    content: String,
}

fn lines_of(text: &str) -> Vec<Line> {
    let mut out = vec![];
    let mut start = 0;
    for l in text.split('\n') {
        let chars = l.char_indices().map(|(i, c)| (start + i, c)).collect();
        out.push(Line { start, chars, content: l.to_string() });
        start += l.len() + 1;
    }
    out
}

#[derive(Clone, Debug)]
pub struct Issue {
    pub rule: &'static str,
    pub detail: String,
}

pub struct Verdict {
    pub issues: Vec<Issue>,
    pub caret_lines: usize,
    /// which column units agree with the reported column (bytes, chars, utf16)
    pub col_units: Option<(bool, bool, bool)>,
    pub col_units_differ: bool,
    pub empty_output: bool,
}

fn caret_cells(line: &str) -> Option<Vec<usize>> {
    let mut cells = vec![];
    for (j, c) in line.chars().enumerate() {
        match c {
            '^' => cells.push(j),
            ' ' => {}
            _ => return None,
        }
    }
    Some(cells)
}

/// Does `out` equal file lines a..=b, each followed by a caret line exactly when
/// `want[i]` is non-empty, with carets under exactly `want[i]` (cells = characters)?
fn matches_window(out: &[&str], lines: &[Line], want: &[Vec<usize>], a: usize) -> bool {
    let mut idx = 0;
    let mut i = a;
    let last_needed = want.iter().rposition(|w| !w.is_empty());
    while idx < out.len() {
        if i >= lines.len() || out[idx] != lines[i].content {
            return false;
        }
        idx += 1;
        if !want[i].is_empty() {
            if idx >= out.len() {
                return false;
            }
            match caret_cells(out[idx]) {
                Some(cells) if cells == want[i] => {}
                _ => return false,
            }
            idx += 1;
        }
        i += 1;
    }
    match last_needed {
        Some(l) => i > l,
        None => true,
    }
}

pub fn check(text: &str, outer: Option<Span>, inner: Span) -> Verdict {
    let mut v = Verdict { issues: vec![], caret_lines: 0, col_units: None, col_units_differ: false, empty_output: false };
    let r = std::panic::catch_unwind(|| text_with_carats(text, outer, inner, false));
    let (out, rowcol) = match r {
        Ok((s, rc)) => (s, rc.map(|(r, c)| (r.0.get() as usize, c.0.get() as usize))),
        Err(_) => {
            let (msg, loc) = take_panic();
            v.issues.push(Issue { rule: "panic", detail: format!("{} ({})", trunc(&msg, 160), panic_cause(&msg, &loc)) });
            return v;
        }
    };
    let off = outer.map(|s| s.start as usize).unwrap_or(0);
    let (s, e) = (off + inner.start as usize, off + inner.end as usize);
    let lines = lines_of(text);

    // row / column of the span start
    let want_row = 1 + text[..s].bytes().filter(|b| *b == b'\n').count();
    let line = &lines[want_row - 1];
    let col_b = s - line.start + 1;
    let col_c = text[line.start..s].chars().count() + 1;
    let col_u = text[line.start..s].encode_utf16().count() + 1;
    match rowcol {
        None => v.issues.push(Issue { rule: "no-row-reported", detail: "no (row, col) for a non-empty in-range span".into() }),
        Some((row, col)) => {
            if row != want_row {
                v.issues.push(Issue { rule: "row", detail: format!("reported row {row}, the span starts on line {want_row}") });
            }
            v.col_units = Some((col == col_b, col == col_c, col == col_u));
            v.col_units_differ = col_b != col_c;
        }
    }

    // carets
    let want: Vec<Vec<usize>> = lines
        .iter()
        .map(|l| l.chars.iter().enumerate().filter(|(_, (b, _))| *b >= s && *b < e).map(|(j, _)| j).collect())
        .collect();
    let first = want.iter().position(|w| !w.is_empty());
    v.empty_output = out.is_empty();
    if first.is_none() {
        // the span covers only line breaks: nothing can be underlined; any excerpt without carets is fine
        if !out.is_empty() {
            let o: Vec<&str> = out.split('\n').collect();
            let ok = (0..lines.len()).any(|a| matches_window(&o, &lines, &want, a));
            if !ok {
                v.issues.push(Issue { rule: "caret-cells", detail: format!("span covers only line breaks but output is {out:?}") });
            }
        }
        return v;
    }
    let first = first.unwrap();
    let o: Vec<&str> = out.split('\n').collect();
    v.caret_lines = want.iter().filter(|w| !w.is_empty()).count();
    let ok = (0..=first).rev().take(12).any(|a| matches_window(&o, &lines, &want, a));
    if !ok {
        // diagnosis for the message (not for the verdict): would a per-byte reading explain it?
        let want_bytes: Vec<Vec<usize>> = lines
            .iter()
            .map(|l| (0..l.content.len()).filter(|k| l.start + k >= s && l.start + k < e).collect())
            .collect();
        let per_byte = (0..=first).rev().take(12).any(|a| matches_window(&o, &lines, &want_bytes, a));
        v.issues.push(Issue {
            rule: "caret-cells",
            detail: format!(
                "carets are not under exactly the span's characters{}: output {:?}",
                if per_byte { " (they are placed per byte)" } else { "" },
                trunc(&out, 200)
            ),
        });
    }
    v
}

/// Abstract shape of a (text, span): A ascii, M multi-byte, N '\n', R '\r', T tab, span in [].
fn pattern(text: &str, s: usize, e: usize) -> String {
    let mut p = String::new();
    for (i, c) in text.char_indices() {
        if i == s {
            p.push('[');
        }
        if i == e {
            p.push(']');
        }
        p.push(match c {
            '\n' => 'N',
            '\r' => 'R',
            '\t' => 'T',
            c if c.len_utf8() > 1 => 'M',
            _ => 'A',
        });
    }
    if e == text.len() {
        p.push(']');
    }
    p
}

/// Greedy character deletion while the same rule keeps firing (no outer span).
fn shrink(text: &str, s: usize, e: usize, rule: &str) -> (String, usize, usize) {
    let mut cur: Vec<char> = text.chars().collect();
    // positions in chars
    let mut cs = text[..s].chars().count();
    let mut ce = text[..e].chars().count();
    let fires = |cur: &[char], cs: usize, ce: usize| -> bool {
        if cs >= ce {
            return false;
        }
        let t: String = cur.iter().collect();
        let bs: usize = cur[..cs].iter().map(|c| c.len_utf8()).sum();
        let be: usize = cur[..ce].iter().map(|c| c.len_utf8()).sum();
        check(&t, None, Span::new(bs as u32, be as u32)).issues.iter().any(|i| i.rule == rule)
    };
    let mut changed = true;
    let mut budget = 3000;
    while changed && budget > 0 {
        changed = false;
        let mut i = 0;
        while i < cur.len() && budget > 0 {
            budget -= 1;
            let mut cand = cur.clone();
            cand.remove(i);
            let (ns, ne) = (if i < cs { cs - 1 } else { cs }, if i < ce { ce - 1 } else { ce });
            if fires(&cand, ns, ne) {
                cur = cand;
                cs = ns;
                ce = ne;
                changed = true;
            } else {
                i += 1;
            }
        }
    }
    let t: String = cur.iter().collect();
    let bs: usize = cur[..cs].iter().map(|c| c.len_utf8()).sum();
    let be: usize = cur[..ce].iter().map(|c| c.len_utf8()).sum();
    (t, bs, be)
}

fn gen_text(r: &mut Rng, max_pieces: usize) -> String {
    let n = r.below(max_pieces + 1);
    let ascii_only = r.chance(1, 4);
    let mut s = String::new();
    for _ in 0..n {
        let p = r.pick(PIECES);
        if ascii_only && !p.is_ascii() {
            s.push('z');
        } else {
            s.push_str(p);
        }
    }
    s
}

struct Rep {
    evaluations: u64,
    texts: u64,
    with_outer: u64,
    non_ascii_cases: u64,
    multi_line_spans: u64,
    caret_lines: u64,
    empty_outputs: u64,
    col_cases_units_differ: u64,
    col_matches: [u64; 3],
    col_matches_when_differ: [u64; 3],
    col_matches_none: u64,
    sig_counts: BTreeMap<String, u64>,
    findings: Vec<serde_json::Value>,
    samples: Vec<serde_json::Value>,
}

fn one(rep: &mut Rep, distinct: &mut Distinct, text: &str, outer: Option<Span>, inner: Span, no_shrink: bool) {
    rep.evaluations += 1;
    let v = check(text, outer, inner);
    let off = outer.map(|s| s.start as usize).unwrap_or(0);
    let (s, e) = (off + inner.start as usize, off + inner.end as usize);
    if outer.is_some() {
        rep.with_outer += 1;
    }
    let non_ascii = !text.is_ascii();
    if non_ascii {
        rep.non_ascii_cases += 1;
    }
    let multi = text[s..e].contains('\n');
    if multi {
        rep.multi_line_spans += 1;
    }
    rep.caret_lines += v.caret_lines as u64;
    if v.empty_output {
        rep.empty_outputs += 1;
    }
    if let Some((b, c, u)) = v.col_units {
        for (k, m) in [b, c, u].into_iter().enumerate() {
            if m {
                rep.col_matches[k] += 1;
                if v.col_units_differ {
                    rep.col_matches_when_differ[k] += 1;
                }
            }
        }
        if v.col_units_differ {
            rep.col_cases_units_differ += 1;
        }
        if !b && !c && !u {
            rep.col_matches_none += 1;
        }
    }
    if v.caret_lines >= 1 && (non_ascii || text.contains('\n')) {
        let mut key = text.as_bytes().to_vec();
        key.extend_from_slice(&(s as u64).to_le_bytes());
        key.extend_from_slice(&(e as u64).to_le_bytes());
        distinct.add(fnv(&key));
    }
    if rep.samples.len() < 3 && v.issues.is_empty() && v.caret_lines >= 2 && non_ascii && text.len() < 60 {
        let out = text_with_carats(text, outer, inner, false);
        rep.samples.push(json!({"text": text, "span": [s, e], "outer_start": off, "output": out.0,
            "row_col": out.1.map(|(r, c)| (r.0.get(), c.0.get()))}));
    }
    for i in &v.issues {
        let (st, ss, se) = if no_shrink || text.len() > 400 { (text.to_string(), s, e) } else { shrink(text, s, e, i.rule) };
        let pat = pattern(&st, ss, se);
        let pat: String = if pat.chars().count() > 24 { "long".into() } else { pat };
        let sig = format!("C31/{}/{}", i.rule, pat);
        let n = rep.sig_counts.entry(sig.clone()).or_default();
        *n += 1;
        if *n == 1 {
            rep.findings.push(json!({"rule": i.rule, "signature": sig, "what": i.detail,
                "text": trunc(text, 300), "span": [s, e], "outer_start": off,
                "shrunk_text": trunc(&st, 100), "shrunk_span": [ss, se]}));
        }
    }
}

fn boundaries(text: &str) -> Vec<usize> {
    let mut b: Vec<usize> = text.char_indices().map(|(i, _)| i).collect();
    b.push(text.len());
    b
}

/// `carats --seed S --count N [--mode mixed|exhaustive|random]`: N texts.
pub fn cmd(args: &Args) {
    let seed = args.u64("seed", 1);
    let start = args.u64("start", 0);
    let count = args.u64("count", 100);
    let no_shrink = args.flag("no-shrink");
    let max_short = args.usize("short", 12);
    let short_only = args.flag("short-only");
    let mut rep = Rep {
        evaluations: 0,
        texts: 0,
        with_outer: 0,
        non_ascii_cases: 0,
        multi_line_spans: 0,
        caret_lines: 0,
        empty_outputs: 0,
        col_cases_units_differ: 0,
        col_matches: [0; 3],
        col_matches_when_differ: [0; 3],
        col_matches_none: 0,
        sig_counts: BTreeMap::new(),
        findings: vec![],
        samples: vec![],
    };
    let mut distinct = Distinct::new();
    if let Some(f) = args.opt("file") {
        // replay: file text, --s --e absolute
        let text = std::fs::read_to_string(f).expect("read");
        let (s, e) = (args.usize("s", 0), args.usize("e", 1));
        one(&mut rep, &mut distinct, &text, None, Span::new(s as u32, e as u32), no_shrink);
    } else {
        for i in start..start + count {
            let mut r = Rng::for_case(seed, i);
            rep.texts += 1;
            let long = r.chance(1, 5) && !short_only;
            let inner_text = if long { gen_text(&mut r, 400) } else { gen_text(&mut r, max_short) };
            // with or without an outer span: the literal sits inside a larger file
            let (text, outer) = if r.chance(1, 3) {
                let prefix = gen_text(&mut r, 10);
                let suffix = gen_text(&mut r, 6);
                let t = format!("{prefix}{inner_text}{suffix}");
                (t, Some(Span::new(prefix.len() as u32, (prefix.len() + inner_text.len()) as u32)))
            } else {
                (inner_text.clone(), None)
            };
            let b = boundaries(&inner_text);
            if b.len() < 2 {
                continue;
            }
            if !long {
                // every non-empty span on character boundaries
                for x in 0..b.len() {
                    for y in x + 1..b.len() {
                        one(&mut rep, &mut distinct, &text, outer, Span::new(b[x] as u32, b[y] as u32), no_shrink);
                    }
                }
            } else {
                for _ in 0..40 {
                    let x = r.below(b.len() - 1);
                    let y = if r.chance(1, 2) { r.range(x + 1, (x + 12).min(b.len() - 1)) } else { r.range(x + 1, b.len() - 1) };
                    one(&mut rep, &mut distinct, &text, outer, Span::new(b[x] as u32, b[y] as u32), no_shrink);
                }
            }
        }
    }
    distinct.dump(args.opt("hashes"));
    let out = json!({
        "tool": "carats",
        "evaluations": rep.evaluations,
        "texts": rep.texts,
        "nontrivial_distinct": distinct.set.len(),
        "with_outer_span": rep.with_outer,
        "non_ascii_cases": rep.non_ascii_cases,
        "multi_line_spans": rep.multi_line_spans,
        "caret_lines_checked": rep.caret_lines,
        "empty_outputs": rep.empty_outputs,
        "col_cases_where_units_differ": rep.col_cases_units_differ,
        "col_matches_bytes_chars_utf16": rep.col_matches,
        "col_matches_when_units_differ": rep.col_matches_when_differ,
        "col_matches_none": rep.col_matches_none,
        "signature_counts": rep.sig_counts,
        "findings": rep.findings,
        "samples": rep.samples,
    });
    println!("{out}");
}
