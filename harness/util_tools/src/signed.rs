//! C33: signedsource `sign_file` / `is_valid_signature`.
use std::collections::BTreeMap;

use serde_json::json;
use signedsource::{NEWTOKEN, SIGNING_TOKEN, is_valid_signature, sign_file};

use crate::util::{Args, Distinct, Rng, fnv, panic_cause, take_panic, trunc};

#[derive(Clone, Debug, PartialEq)]
enum Piece {
    Text(String),
    /// the documented signing token `@generated <<SignedSource::...>>`
    Token,
    /// the inner token without the `@generated ` prefix
    BareToken,
    /// something that looks like an existing signature
    Lookalike(String),
}

impl Piece {
    fn render(&self) -> String {
        match self {
            Piece::Text(s) => s.clone(),
            Piece::Token => SIGNING_TOKEN.to_string(),
            Piece::BareToken => NEWTOKEN.to_string(),
            Piece::Lookalike(s) => s.clone(),
        }
    }
    fn kind(&self) -> &'static str {
        match self {
            Piece::Text(_) => "text",
            Piece::Token => "token",
            Piece::BareToken => "bare-token",
            Piece::Lookalike(_) => "lookalike",
        }
    }
}

fn render(ps: &[Piece]) -> String {
    ps.iter().map(|p| p.render()).collect()
}

fn hex32(r: &mut Rng, upper: bool) -> String {
    let pool: &[u8] = if upper { b"0123456789ABCDEF" } else { b"0123456789abcdef" };
    (0..32).map(|_| r.pick(pool) as char).collect()
}

fn text_piece(r: &mut Rng) -> Piece {
    let n = r.below(12);
    let mut s = String::new();
    for _ in 0..n {
        s.push_str(r.pick(&[
            "a", "b", "// ", "/* ", " */", "\n", " ", "code();", "é", "€", "😀", "@", "@generated", "@generated ", "<<", ">>",
            "SignedSource", "SignedSource<<", "0f", "\t", "\r\n", "*", "#", "<<SignedSource::", "IsG>>", "\0",
        ]));
    }
    Piece::Text(s)
}

fn lookalike(r: &mut Rng) -> Piece {
    let s = match r.below(6) {
        0 | 1 | 2 => format!("\x40generated SignedSource<<{}>>", hex32(r, false)),
        3 => format!("\x40generated SignedSource<<{}>>", hex32(r, true)),
        4 => format!("SignedSource<<{}>>", hex32(r, false)),
        _ => format!("\x40generated SignedSource<<{}>>", &hex32(r, false)[..31]),
    };
    Piece::Lookalike(s)
}

fn gen_content(r: &mut Rng) -> Vec<Piece> {
    let mut ps = vec![];
    let tokens = match r.below(10) {
        0..=5 => 1,
        6 | 7 => 2,
        8 => 3,
        _ => 4,
    };
    let extra = r.below(5);
    for _ in 0..extra {
        ps.push(text_piece(r));
    }
    if r.chance(1, 6) {
        ps.push(lookalike(r));
    }
    if r.chance(1, 10) {
        ps.push(Piece::BareToken);
    }
    for _ in 0..tokens {
        let at = r.below(ps.len() + 1);
        ps.insert(at, Piece::Token);
    }
    // adjacency / start / end happen naturally (texts can be empty, insert positions are uniform)
    // big files: every token far from the start (long licence text before the docblock, token in a trailer), or a
    // token straddling a power-of-two offset - anything that only looks at a prefix / a window of the file shows here
    if r.chance(1, 10) {
        let boundary = r.pick(&[1024usize, 4096, 8192, 65536]);
        let target = match r.below(3) {
            0 => boundary + r.below(3000),                 // whole token behind the boundary
            1 => boundary.saturating_sub(5 + r.below(40)), // token straddles the boundary
            _ => boundary / 2 + r.below(boundary),
        };
        let mut pre = String::with_capacity(target + 8);
        while pre.len() < target {
            pre.push_str(r.pick(&["// licence text, line after line\n", "lorem ipsum ", "é€ ", "x", "\n", " * "]));
        }
        while pre.len() > target {
            pre.pop();
        }
        ps.insert(0, Piece::Text(pre));
    }
    ps
}

#[derive(Debug)]
enum Outcome {
    Ok,
    Panic(String),
    DoesNotVerify,
}

fn sign_and_verify(content: &str) -> (Outcome, Option<String>) {
    let c = content.to_string();
    let r = std::panic::catch_unwind(move || {
        let s = sign_file(&c);
        let ok = is_valid_signature(&s);
        (s, ok)
    });
    match r {
        Err(_) => {
            let (m, l) = take_panic();
            (Outcome::Panic(panic_cause(&m, &l)), None)
        }
        Ok((s, true)) => (Outcome::Ok, Some(s)),
        Ok((s, false)) => (Outcome::DoesNotVerify, Some(s)),
    }
}

/// Byte ranges of the 32 hex digits of every signature that signing put into the file.
fn signature_digit_ranges(content: &str, signed: &str) -> Vec<(usize, usize)> {
    // Independent of the crate's regex: the signature value is whatever replaced the
    // inner token; find it by aligning the first inner token of the unsigned content.
    let at = content.find(NEWTOKEN).expect("content has a token");
    let prefix = "SignedSource<<";
    let digits = &signed[at + prefix.len()..at + prefix.len() + 32];
    let needle = format!("{prefix}{digits}>>");
    let mut out = vec![];
    let mut from = 0;
    while let Some(p) = signed[from..].find(&needle) {
        let s = from + p + prefix.len();
        out.push((s, s + 32));
        from = from + p + needle.len();
    }
    out
}

fn region_of(signed: &str, ranges: &[(usize, usize)], pos: usize) -> &'static str {
    for (k, (s, e)) in ranges.iter().enumerate() {
        let later = k > 0;
        if pos >= s.saturating_sub(25) && pos < *s {
            return if later { "marker-prefix-of-later-signature" } else { "marker-prefix" };
        }
        if pos >= *s && pos <= *e {
            return if later { "edge-of-later-signature-digits" } else { "edge-of-signature-digits" };
        }
        if pos > *e && pos <= *e + 2 {
            return if later { "marker-suffix-of-later-signature" } else { "marker-suffix" };
        }
    }
    let _ = signed;
    "content"
}

struct Rep {
    contents: u64,
    by_tokens: BTreeMap<usize, u64>,
    with_lookalike: u64,
    with_bare: u64,
    non_ascii: u64,
    verified: u64,
    edits: u64,
    edits_by_kind: BTreeMap<&'static str, u64>,
    edits_by_region: BTreeMap<&'static str, u64>,
    sig_counts: BTreeMap<String, u64>,
    findings: Vec<serde_json::Value>,
    samples: Vec<serde_json::Value>,
}

fn record(rep: &mut Rep, rule: &str, cause: String, what: String, witness: serde_json::Value) {
    let sig = format!("C33/{rule}/{cause}");
    let n = rep.sig_counts.entry(sig.clone()).or_default();
    *n += 1;
    if *n == 1 {
        rep.findings.push(json!({"rule": rule, "signature": sig, "what": what, "witness": witness}));
    }
}

fn shrink_pieces(ps: &[Piece]) -> Vec<Piece> {
    // drop pieces (keeping at least one documented token) while signing still fails to verify
    let fails = |ps: &[Piece]| -> bool {
        ps.iter().any(|p| *p == Piece::Token) && matches!(sign_and_verify(&render(ps)).0, Outcome::DoesNotVerify)
    };
    let mut cur = ps.to_vec();
    let mut changed = true;
    while changed {
        changed = false;
        let mut i = 0;
        while i < cur.len() {
            let mut cand = cur.clone();
            cand.remove(i);
            if fails(&cand) {
                cur = cand;
                changed = true;
            } else {
                i += 1;
            }
        }
    }
    cur
}

fn one(rep: &mut Rep, distinct: &mut Distinct, r: &mut Rng, ps: &[Piece], exhaustive_limit: usize, sampled_edits: usize) {
    let content = render(ps);
    rep.contents += 1;
    let ntok = ps.iter().filter(|p| **p == Piece::Token).count();
    *rep.by_tokens.entry(ntok).or_default() += 1;
    let has_look = ps.iter().any(|p| matches!(p, Piece::Lookalike(_)));
    let has_bare = ps.iter().any(|p| *p == Piece::BareToken);
    if has_look {
        rep.with_lookalike += 1;
    }
    if has_bare {
        rep.with_bare += 1;
    }
    if !content.is_ascii() {
        rep.non_ascii += 1;
    }
    if ntok >= 2 || has_look || has_bare || content.len() > SIGNING_TOKEN.len() + 5 {
        distinct.add(fnv(content.as_bytes()));
    }
    let (outcome, signed) = sign_and_verify(&content);
    match outcome {
        Outcome::Panic(cause) => {
            record(rep, "panic", cause.clone(), format!("sign_file/is_valid_signature panicked: {cause}"),
                   json!({"content": trunc(&content, 400)}));
            return;
        }
        Outcome::DoesNotVerify => {
            let min = shrink_pieces(ps);
            let mut kinds: Vec<&str> = min.iter().filter(|p| !matches!(p, Piece::Text(_))).map(|p| p.kind()).collect();
            let order: Vec<&str> = kinds.clone();
            kinds.sort();
            kinds.dedup_by(|a, b| a == b && *a != "token");
            record(rep, "signed-file-does-not-verify", kinds.join("+"),
                   format!("is_valid_signature(sign_file(c)) is false for content with pieces {order:?}"),
                   json!({"content": trunc(&content, 500), "shrunk_content": trunc(&render(&min), 400),
                          "signed": trunc(signed.as_deref().unwrap_or(""), 500)}));
            return;
        }
        Outcome::Ok => {}
    }
    rep.verified += 1;
    let signed = signed.unwrap();
    let ranges = signature_digit_ranges(&content, &signed);
    if rep.samples.len() < 3 && ntok >= 2 && signed.len() < 260 {
        rep.samples.push(json!({"content": content, "signed": signed, "signature_digit_ranges": ranges}));
    }
    // single-character edits outside the signature digits
    let idx: Vec<(usize, char)> = signed.char_indices().collect();
    let in_digits = |b: usize| ranges.iter().any(|(s, e)| b >= *s && b < *e);
    let strictly_inside = |b: usize| ranges.iter().any(|(s, e)| b > *s && b < *e);
    let positions: Vec<usize> = if idx.len() <= exhaustive_limit {
        (0..=idx.len()).collect()
    } else {
        let mut v: Vec<usize> = (0..sampled_edits).map(|_| r.below(idx.len() + 1)).collect();
        // always probe around the signatures
        for (s, e) in &ranges {
            for b in [s.saturating_sub(26), s.saturating_sub(1), *s, *e, *e + 1, *e + 2] {
                if let Some(k) = idx.iter().position(|(i, _)| *i == b) {
                    v.push(k);
                }
            }
        }
        v
    };
    for k in positions {
        let byte = if k < idx.len() { idx[k].0 } else { signed.len() };
        // insertion before char k
        if !strictly_inside(byte) {
            let ins = r.pick(&['a', 'f', '0', 'F', ' ', '\n', '>', '<', '@', 'é', '😀', 'S']);
            let mut e = String::with_capacity(signed.len() + 4);
            e.push_str(&signed[..byte]);
            e.push(ins);
            e.push_str(&signed[byte..]);
            edit_check(rep, &signed, &ranges, &content, "insert", byte, &e);
        }
        if k < idx.len() && !in_digits(byte) {
            let c = idx[k].1;
            let next = byte + c.len_utf8();
            // deletion
            let mut e = String::with_capacity(signed.len());
            e.push_str(&signed[..byte]);
            e.push_str(&signed[next..]);
            edit_check(rep, &signed, &ranges, &content, "delete", byte, &e);
            // substitution by a different character
            let mut sub = r.pick(&['a', 'b', '0', ' ', '\n', '>', '<', '@', 'é', 'S', 'g', 'G']);
            if c.is_ascii_alphabetic() && r.chance(1, 2) {
                sub = if c.is_ascii_lowercase() { c.to_ascii_uppercase() } else { c.to_ascii_lowercase() };
            }
            if sub == c {
                sub = if c == 'x' { 'y' } else { 'x' };
            }
            let mut e = String::with_capacity(signed.len() + 4);
            e.push_str(&signed[..byte]);
            e.push(sub);
            e.push_str(&signed[next..]);
            edit_check(rep, &signed, &ranges, &content, "substitute", byte, &e);
        }
    }
}

fn edit_check(rep: &mut Rep, signed: &str, ranges: &[(usize, usize)], content: &str, kind: &'static str, at: usize, edited: &str) {
    debug_assert!(edited != signed);
    rep.edits += 1;
    *rep.edits_by_kind.entry(kind).or_default() += 1;
    let region = region_of(signed, ranges, at);
    *rep.edits_by_region.entry(region).or_default() += 1;
    let e = edited.to_string();
    let r = std::panic::catch_unwind(move || is_valid_signature(&e));
    match r {
        Err(_) => {
            let (m, l) = take_panic();
            let cause = panic_cause(&m, &l);
            record(rep, "panic", cause.clone(), format!("is_valid_signature panicked on an edited file: {cause}"),
                   json!({"edited": trunc(edited, 400)}));
        }
        Ok(true) => record(rep, "edited-file-still-verifies", format!("{kind}@{region}"),
                           format!("a single-character {kind} at byte {at} ({region}) leaves the signature valid"),
                           json!({"content": trunc(content, 300), "signed": trunc(signed, 400),
                                  "edited": trunc(edited, 400), "at": at})),
        Ok(false) => {}
    }
}

/// `signed --seed S --count N`
pub fn cmd(args: &Args) {
    let seed = args.u64("seed", 1);
    let start = args.u64("start", 0);
    let count = args.u64("count", 100);
    let exhaustive_limit = args.usize("exhaustive-limit", 160);
    let sampled = args.usize("sampled-edits", 24);
    let mut rep = Rep {
        contents: 0,
        by_tokens: BTreeMap::new(),
        with_lookalike: 0,
        with_bare: 0,
        non_ascii: 0,
        verified: 0,
        edits: 0,
        edits_by_kind: BTreeMap::new(),
        edits_by_region: BTreeMap::new(),
        sig_counts: BTreeMap::new(),
        findings: vec![],
        samples: vec![],
    };
    let mut distinct = Distinct::new();
    if let Some(f) = args.opt("file") {
        let content = std::fs::read_to_string(f).expect("read");
        let mut r = Rng::new(seed);
        // replay: split around the documented token so that shrinking keeps working
        let mut ps = vec![];
        let mut rest = content.as_str();
        while let Some(p) = rest.find(SIGNING_TOKEN) {
            ps.push(Piece::Text(rest[..p].to_string()));
            ps.push(Piece::Token);
            rest = &rest[p + SIGNING_TOKEN.len()..];
        }
        ps.push(Piece::Text(rest.to_string()));
        one(&mut rep, &mut distinct, &mut r, &ps, exhaustive_limit, sampled);
    } else {
        for i in start..start + count {
            let mut r = Rng::for_case(seed, i);
            let ps = gen_content(&mut r);
            one(&mut rep, &mut distinct, &mut r, &ps, exhaustive_limit, sampled);
        }
    }
    distinct.dump(args.opt("hashes"));
    let by_tokens: BTreeMap<String, u64> = rep.by_tokens.iter().map(|(k, v)| (k.to_string(), *v)).collect();
    let out = json!({
        "tool": "signed",
        "contents": rep.contents,
        "nontrivial_distinct": distinct.set.len(),
        "contents_by_token_count": by_tokens,
        "with_lookalike": rep.with_lookalike,
        "with_bare_inner_token": rep.with_bare,
        "non_ascii_contents": rep.non_ascii,
        "signed_and_verified": rep.verified,
        "edits_checked": rep.edits,
        "edits_by_kind": rep.edits_by_kind,
        "edits_by_region": rep.edits_by_region,
        "signature_counts": rep.sig_counts,
        "findings": rep.findings,
        "samples": rep.samples,
    });
    println!("{out}");
}
