//! C32: `IsoLiteralExtractionResult::resolve((), Span::new(o, o))` for every offset
//! of every parsed literal, against an independent walk over the same AST.
use std::collections::BTreeMap;

use common_lang_types::Span;
use isograph_lang_types::{
    ClientFieldDeclarationPath, ClientObjectSelectableNameWrapperParent, ClientPointerDeclarationPath,
    ClientScalarSelectableNameWrapperParent, DescriptionParent, EntityNameWrapperParent, EntrypointDeclarationPath,
    IsographResolvedNode, ObjectSelectionPath, ScalarSelectionPath, SelectionParentType, SelectionSetParentType,
    SelectionSetPath, TypeAnnotationDeclarationParentType, VariableDeclarationParentType, VariableDeclarationPath,
    VariableNameWrapperParentType,
};
use resolve_position::ResolvePosition;
use serde_json::json;

use crate::ast::Tree;
use crate::isogen;
use crate::parse::run_parser;
use crate::util::{Args, Distinct, Progress, fnv, panic_cause, take_panic, trunc};

type Chain = Vec<(&'static str, usize)>;

fn a<T>(x: &T) -> usize {
    x as *const T as usize
}

fn field<'a>(c: &mut Chain, p: &ClientFieldDeclarationPath<'a>) {
    c.push(("ClientFieldDeclaration", a(p.inner)));
}
fn pointer<'a>(c: &mut Chain, p: &ClientPointerDeclarationPath<'a>) {
    c.push(("ClientPointerDeclaration", a(p.inner)));
}
fn entry<'a>(c: &mut Chain, p: &EntrypointDeclarationPath<'a>) {
    c.push(("EntrypointDeclaration", a(p.inner)));
}
fn selection_parent<'a>(c: &mut Chain, p: &SelectionParentType<'a>) {
    match p {
        SelectionParentType::SelectionSet(s) => selection_set(c, s),
    }
}
fn object_selection<'a>(c: &mut Chain, p: &ObjectSelectionPath<'a>) {
    c.push(("ObjectSelection", a(p.inner)));
    selection_parent(c, &p.parent);
}
fn scalar_selection<'a>(c: &mut Chain, p: &ScalarSelectionPath<'a>) {
    c.push(("ScalarSelection", a(p.inner)));
    selection_parent(c, &p.parent);
}
fn selection_set<'a>(c: &mut Chain, p: &SelectionSetPath<'a>) {
    c.push(("SelectionSet", a(p.inner)));
    match &p.parent {
        SelectionSetParentType::ObjectSelection(o) => object_selection(c, o),
        SelectionSetParentType::ClientFieldDeclaration(f) => field(c, f),
        SelectionSetParentType::ClientPointerDeclaration(f) => pointer(c, f),
    }
}
fn variable_declaration<'a>(c: &mut Chain, p: &VariableDeclarationPath<'a>) {
    c.push(("VariableDeclarationInner", a(p.inner)));
    match &p.parent {
        VariableDeclarationParentType::ClientPointerDeclaration(f) => pointer(c, f),
        VariableDeclarationParentType::ClientFieldDeclaration(f) => field(c, f),
    }
}

/// (kind, address) from the returned node up to the root, as the implementation reports it.
fn chain_of(n: &IsographResolvedNode<'_>) -> Chain {
    let mut c = vec![];
    match n {
        IsographResolvedNode::EntrypointDeclaration(p) => entry(&mut c, p),
        IsographResolvedNode::ClientFieldDeclaration(p) => field(&mut c, p),
        IsographResolvedNode::ClientPointerDeclaration(p) => pointer(&mut c, p),
        IsographResolvedNode::EntityNameWrapper(p) => {
            c.push(("EntityNameWrapper", a(p.inner)));
            match &p.parent {
                EntityNameWrapperParent::EntrypointDeclaration(x) => entry(&mut c, x),
                EntityNameWrapperParent::ClientFieldDeclaration(x) => field(&mut c, x),
                EntityNameWrapperParent::ClientPointerDeclaration(x) => pointer(&mut c, x),
            }
        }
        IsographResolvedNode::Description(p) => {
            c.push(("Description", a(p.inner)));
            match &p.parent {
                DescriptionParent::ClientFieldDeclaration(x) => field(&mut c, x),
                DescriptionParent::ClientPointerDeclaration(x) => pointer(&mut c, x),
            }
        }
        IsographResolvedNode::ScalarSelection(p) => scalar_selection(&mut c, p),
        IsographResolvedNode::ObjectSelection(p) => object_selection(&mut c, p),
        IsographResolvedNode::ClientScalarSelectableNameWrapper(p) => {
            c.push(("ClientScalarSelectableNameWrapper", a(p.inner)));
            match &p.parent {
                ClientScalarSelectableNameWrapperParent::EntrypointDeclaration(x) => entry(&mut c, x),
                ClientScalarSelectableNameWrapperParent::ClientFieldDeclaration(x) => field(&mut c, x),
            }
        }
        IsographResolvedNode::ClientObjectSelectableNameWrapper(p) => {
            c.push(("ClientObjectSelectableNameWrapper", a(p.inner)));
            match &p.parent {
                ClientObjectSelectableNameWrapperParent::ClientPointerDeclaration(x) => pointer(&mut c, x),
            }
        }
        IsographResolvedNode::SelectionSet(p) => selection_set(&mut c, p),
        IsographResolvedNode::TypeAnnotation(p) => {
            c.push(("TypeAnnotation", a(p.inner)));
            match &p.parent {
                TypeAnnotationDeclarationParentType::ClientPointerDeclaration(x) => pointer(&mut c, x),
                TypeAnnotationDeclarationParentType::VariableDeclarationInner(x) => variable_declaration(&mut c, x),
            }
        }
        IsographResolvedNode::VariableNameWrapper(p) => {
            c.push(("VariableNameWrapper", a(p.inner)));
            match &p.parent {
                VariableNameWrapperParentType::VariableDeclarationInner(x) => variable_declaration(&mut c, x),
            }
        }
        IsographResolvedNode::VariableDeclarationInner(p) => variable_declaration(&mut c, p),
    }
    c
}

fn contains(s: Span, o: u32) -> bool {
    // the convention of the code under test (Span::contains of an empty span): both ends inclusive
    s.start <= o && o <= s.end
}

fn where_in(s: Span, o: u32) -> &'static str {
    if o == s.start && o == s.end {
        "empty"
    } else if o == s.start {
        "at-start"
    } else if o == s.end {
        "at-end"
    } else if s.start < o && o < s.end {
        "inside"
    } else {
        "outside"
    }
}

/// Innermost candidates: nodes reached from the root through nodes containing `o`
/// that have no child containing `o`. (The root is entered unconditionally, like the
/// language server does: it calls resolve for any offset in the literal.)
fn innermost(tree: &Tree, o: u32) -> Vec<usize> {
    let mut out = vec![];
    let mut stack = vec![0usize];
    while let Some(n) = stack.pop() {
        let kids: Vec<usize> = tree.nodes[n].children.iter().copied().filter(|c| contains(tree.nodes[*c].span, o)).collect();
        if kids.is_empty() {
            out.push(n);
        } else {
            stack.extend(kids);
        }
    }
    out
}

struct Rep {
    literals: u64,
    parsed: u64,
    offsets: u64,
    by_result_kind: BTreeMap<&'static str, u64>,
    ambiguous_offsets: u64,
    outside_root_offsets: u64,
    max_depth: usize,
    nodes_total: u64,
    sig_counts: BTreeMap<String, u64>,
    findings: Vec<serde_json::Value>,
    samples: Vec<serde_json::Value>,
}

fn check_literal(rep: &mut Rep, distinct: &mut Distinct, text: &str, index: u64) {
    rep.literals += 1;
    let p = run_parser(text, true, Some(7));
    let res = match p.result {
        Ok(Ok(r)) => r,
        _ => return,
    };
    rep.parsed += 1;
    let tree = Tree::build(&res);
    rep.nodes_total += tree.nodes.len() as u64;
    let depth = tree.nodes.iter().map(|n| n.depth).max().unwrap_or(0);
    rep.max_depth = rep.max_depth.max(depth);
    let mut kinds_here: std::collections::BTreeSet<&'static str> = Default::default();
    let issue = |rep: &mut Rep, rule: &str, cause: String, detail: String, o: u32| {
        let sig = format!("C32/{rule}/{cause}");
        let n = rep.sig_counts.entry(sig.clone()).or_default();
        *n += 1;
        if *n == 1 {
            rep.findings.push(json!({"rule": rule, "signature": sig, "what": detail, "index": index,
                "offset": o, "input": trunc(text, 600)}));
        }
    };
    for o in 0..=(text.len() as u32) {
        rep.offsets += 1;
        let r = std::panic::catch_unwind(std::panic::AssertUnwindSafe(|| {
            let node = res.resolve((), Span::new(o, o));
            chain_of(&node)
        }));
        let chain = match r {
            Ok(c) => c,
            Err(_) => {
                let (msg, loc) = take_panic();
                issue(rep, "panic", panic_cause(&msg, &loc), format!("resolve panicked at offset {o}: {}", trunc(&msg, 120)), o);
                continue;
            }
        };
        let (kind, addr) = chain[0];
        *rep.by_result_kind.entry(kind).or_default() += 1;
        kinds_here.insert(kind);
        let cands = innermost(&tree, o);
        if cands.len() > 1 {
            rep.ambiguous_offsets += 1;
        }
        if !contains(tree.nodes[0].span, o) {
            rep.outside_root_offsets += 1;
        }
        let found = tree.nodes.iter().position(|n| n.kind == kind && n.addr == addr);
        let Some(id) = found else {
            issue(rep, "unknown-node", kind.to_string(),
                  format!("offset {o}: returned a {kind} that is not a resolvable node of this AST"), o);
            continue;
        };
        // every element of the reported chain (except the unconditional root) contains o,
        // and the chain is the real ancestor chain
        let real = tree.chain(id);
        if real != chain {
            let got: Vec<&str> = chain.iter().map(|x| x.0).collect();
            let want: Vec<&str> = real.iter().map(|x| x.0).collect();
            let same_kinds = got == want;
            issue(rep, "wrong-parent-chain", format!("{kind}:{}", if same_kinds { "other-instance" } else { "other-kinds" }),
                  format!("offset {o}: parent chain of the returned {kind} is {got:?}, the AST says {want:?} (same kinds: {same_kinds})"), o);
        }
        let mut up = Some(id);
        while let Some(n) = up {
            let nd = &tree.nodes[n];
            if nd.parent.is_some() && !contains(nd.span, o) {
                let which = if n == id { "returned-node" } else { "ancestor" };
                issue(rep, "does-not-contain-offset", format!("{which}:{}", nd.kind),
                      format!("offset {o}: {which} {} spans {}..{} and does not contain the offset (returned {kind})",
                              nd.kind, nd.span.start, nd.span.end), o);
                break;
            }
            up = nd.parent;
        }
        if !cands.contains(&id) {
            // which child should have been entered?
            let child = tree.nodes[id].children.iter().copied().find(|c| contains(tree.nodes[*c].span, o));
            if let Some(c) = child {
                let cn = &tree.nodes[c];
                issue(rep, "not-innermost", format!("{kind}>{}@{}", cn.kind, where_in(cn.span, o)),
                      format!("offset {o}: returned {kind} although its child {} ({}..{}) contains the offset",
                              cn.kind, cn.span.start, cn.span.end), o);
            }
            // otherwise the node or an ancestor does not contain o: reported above
        }
    }
    if depth >= 2 && kinds_here.len() >= 3 {
        distinct.add(fnv(text.as_bytes()));
    }
    if rep.samples.len() < 3 && text.len() < 200 && depth >= 3 {
        // show the resolution of a few offsets
        let mut shown = vec![];
        let step = (text.len() / 8).max(1);
        for o in (0..=text.len()).step_by(step) {
            let node = res.resolve((), Span::new(o as u32, o as u32));
            let c: Vec<&str> = chain_of(&node).iter().map(|x| x.0).collect();
            shown.push(json!({"offset": o, "chain_leaf_to_root": c}));
        }
        rep.samples.push(json!({"text": text, "resolvable_nodes": tree.nodes.len(), "resolutions": shown}));
    }
}

/// `resolve --seed S --start A --count N`
pub fn cmd(args: &Args) {
    let seed = args.u64("seed", 1);
    let start = args.u64("start", 0);
    let count = args.u64("count", 100);
    let mut progress = Progress::open(args.opt("progress"));
    let mut rep = Rep {
        literals: 0,
        parsed: 0,
        offsets: 0,
        by_result_kind: BTreeMap::new(),
        ambiguous_offsets: 0,
        outside_root_offsets: 0,
        max_depth: 0,
        nodes_total: 0,
        sig_counts: BTreeMap::new(),
        findings: vec![],
        samples: vec![],
    };
    let mut distinct = Distinct::new();
    if let Some(f) = args.opt("file") {
        let text = std::fs::read_to_string(f).expect("read input");
        check_literal(&mut rep, &mut distinct, &text, 0);
    } else {
        for i in start..start + count {
            progress.set(i);
            let case = isogen::grammar_case(seed, i);
            check_literal(&mut rep, &mut distinct, &case.text, i);
        }
    }
    progress.set(u64::MAX);
    distinct.dump(args.opt("hashes"));
    let out = json!({
        "tool": "resolve",
        "literals": rep.literals,
        "parsed": rep.parsed,
        "offsets": rep.offsets,
        "nontrivial_distinct": distinct.set.len(),
        "by_result_kind": rep.by_result_kind,
        "ambiguous_offsets": rep.ambiguous_offsets,
        "outside_root_offsets": rep.outside_root_offsets,
        "max_depth": rep.max_depth,
        "resolvable_nodes": rep.nodes_total,
        "signature_counts": rep.sig_counts,
        "findings": rep.findings,
        "samples": rep.samples,
    });
    println!("{out}");
}
