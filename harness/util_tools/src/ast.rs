//! Hand-written walks over the public fields of the iso literal AST
//! (isograph_lang_types / graphql_lang_types). Two products:
//!  * every span found anywhere on the AST, with a label naming the field (C07);
//!  * the tree of position-resolvable nodes (the kinds that `IsographResolvedNode`
//!    and its parent enums can express) with addresses and spans (C32).
//! Nothing here uses the `ResolvePosition` derive or `#[resolve_field]`.
use common_lang_types::{EmbeddedLocation, Span, WithEmbeddedLocation};
use graphql_lang_types::NameValuePair;
use isograph_lang_parser::IsoLiteralExtractionResult;
use isograph_lang_types::{
    ClientFieldDeclaration, ClientPointerDeclaration, ConstantValue, EntrypointDeclaration,
    IsographFieldDirective, NonConstantValue, SelectionFieldArgument, SelectionSet, SelectionType,
    TypeAnnotationDeclaration, UnionVariant, VariableDeclaration,
};

pub type Spans = Vec<(&'static str, Span)>;

fn loc(out: &mut Spans, label: &'static str, l: &EmbeddedLocation) {
    out.push((label, l.span));
}

fn type_annotation(out: &mut Spans, t: &TypeAnnotationDeclaration) {
    match t {
        TypeAnnotationDeclaration::Scalar(_) => {}
        TypeAnnotationDeclaration::Union(u) => {
            for v in &u.variants {
                match v {
                    UnionVariant::Scalar(_) => {}
                    UnionVariant::Plural(inner) => {
                        loc(out, "TypeAnnotation.list-element", &inner.location);
                        type_annotation(out, &inner.item);
                    }
                }
            }
        }
        TypeAnnotationDeclaration::Plural(inner) => {
            loc(out, "TypeAnnotation.list-element", &inner.location);
            type_annotation(out, &inner.item);
        }
    }
}

fn non_constant(out: &mut Spans, v: &NonConstantValue) {
    match v {
        NonConstantValue::List(items) => {
            for i in items {
                loc(out, "Value.list-item", &i.location);
                non_constant(out, &i.item);
            }
        }
        NonConstantValue::Object(entries) => {
            for NameValuePair { name, value } in entries {
                loc(out, "Value.object-key", &name.location);
                loc(out, "Value.object-value", &value.location);
                non_constant(out, &value.item);
            }
        }
        _ => {}
    }
}

fn constant(out: &mut Spans, v: &ConstantValue) {
    match v {
        ConstantValue::List(items) => {
            for i in items {
                loc(out, "DefaultValue.list-item", &i.location);
                constant(out, &i.item);
            }
        }
        ConstantValue::Object(entries) => {
            for e in entries {
                loc(out, "DefaultValue.object-key", &e.name.location);
                loc(out, "DefaultValue.object-value", &e.value.location);
                constant(out, &e.value.item);
            }
        }
        _ => {}
    }
}

fn arguments(out: &mut Spans, args: &[WithEmbeddedLocation<SelectionFieldArgument>]) {
    for a in args {
        loc(out, "Argument", &a.location);
        loc(out, "Argument.name", &a.item.name.location);
        loc(out, "Argument.value", &a.item.value.location);
        non_constant(out, &a.item.value.item);
    }
}

fn directives(out: &mut Spans, d: &WithEmbeddedLocation<Vec<WithEmbeddedLocation<IsographFieldDirective>>>) {
    loc(out, "DirectiveSet", &d.location);
    for dir in &d.item {
        loc(out, "Directive", &dir.location);
        loc(out, "Directive.name", &dir.item.name.location);
        arguments(out, &dir.item.arguments);
    }
}

fn variable_definitions(out: &mut Spans, vs: &[WithEmbeddedLocation<VariableDeclaration>]) {
    for v in vs {
        loc(out, "VariableDeclaration", &v.location);
        loc(out, "VariableDeclaration.name", &v.item.name.location);
        loc(out, "VariableDeclaration.type", &v.item.type_.location);
        type_annotation(out, &v.item.type_.item);
        if let Some(d) = &v.item.default_value {
            loc(out, "VariableDeclaration.default_value", &d.location);
            constant(out, &d.item);
        }
    }
}

fn selection_set(out: &mut Spans, s: &WithEmbeddedLocation<SelectionSet>) {
    // explicit stack: selection sets may be nested arbitrarily deep
    let mut stack = vec![s];
    while let Some(s) = stack.pop() {
        loc(out, "SelectionSet", &s.location);
        for sel in &s.item.selections {
            loc(out, "Selection", &sel.location);
            match &sel.item {
                SelectionType::Scalar(sc) => {
                    loc(out, "ScalarSelection.name", &sc.name.location);
                    if let Some(a) = &sc.reader_alias {
                        loc(out, "ScalarSelection.alias", &a.location);
                    }
                    arguments(out, &sc.arguments);
                }
                SelectionType::Object(o) => {
                    loc(out, "ObjectSelection.name", &o.name.location);
                    if let Some(a) = &o.reader_alias {
                        loc(out, "ObjectSelection.alias", &a.location);
                    }
                    arguments(out, &o.arguments);
                    stack.push(&o.selection_set);
                }
            }
        }
    }
}

fn client_field(out: &mut Spans, d: &ClientFieldDeclaration) {
    loc(out, "ClientFieldDeclaration.parent_type", &d.parent_type.location);
    loc(out, "ClientFieldDeclaration.client_field_name", &d.client_field_name.location);
    if let Some(x) = &d.description {
        loc(out, "ClientFieldDeclaration.description", &x.location);
    }
    directives(out, &d.directive_set);
    variable_definitions(out, &d.variable_definitions);
    selection_set(out, &d.selection_set);
}

fn client_pointer(out: &mut Spans, d: &ClientPointerDeclaration) {
    loc(out, "ClientPointerDeclaration.parent_type", &d.parent_type.location);
    loc(out, "ClientPointerDeclaration.client_pointer_name", &d.client_pointer_name.location);
    loc(out, "ClientPointerDeclaration.target_type", &d.target_type.location);
    type_annotation(out, &d.target_type.item);
    if let Some(x) = &d.description {
        loc(out, "ClientPointerDeclaration.description", &x.location);
    }
    directives(out, &d.directives);
    variable_definitions(out, &d.variable_definitions);
    selection_set(out, &d.selection_set);
}

fn entrypoint(out: &mut Spans, d: &EntrypointDeclaration) {
    loc(out, "EntrypointDeclaration.parent_type", &d.parent_type.location);
    loc(out, "EntrypointDeclaration.client_field_name", &d.client_field_name.location);
    loc(out, "EntrypointDeclaration.entrypoint_keyword", &d.entrypoint_keyword.location);
    loc(out, "EntrypointDeclaration.dot", &d.dot.location);
    directives(out, &d.directive_set);
}

/// Every span on the AST (semantic tokens are handled separately).
pub fn collect_spans(r: &IsoLiteralExtractionResult) -> Spans {
    let mut out = vec![];
    match r {
        IsoLiteralExtractionResult::ClientFieldDeclaration(w) => {
            loc(&mut out, "ClientFieldDeclaration", &w.location);
            client_field(&mut out, &w.item);
        }
        IsoLiteralExtractionResult::ClientPointerDeclaration(w) => {
            loc(&mut out, "ClientPointerDeclaration", &w.location);
            client_pointer(&mut out, &w.item);
        }
        IsoLiteralExtractionResult::EntrypointDeclaration(w) => {
            loc(&mut out, "EntrypointDeclaration", &w.location);
            entrypoint(&mut out, &w.item);
        }
    }
    out
}

// ---------------------------------------------------------------------------
// tree of position-resolvable nodes
// ---------------------------------------------------------------------------

#[derive(Debug)]
pub struct Node {
    pub kind: &'static str,
    pub addr: usize,
    pub span: Span,
    pub parent: Option<usize>,
    pub children: Vec<usize>,
    pub depth: usize,
}

pub struct Tree {
    pub nodes: Vec<Node>,
}

fn addr<T>(x: &T) -> usize {
    x as *const T as usize
}

impl Tree {
    fn add(&mut self, kind: &'static str, addr: usize, span: Span, parent: Option<usize>) -> usize {
        let depth = parent.map(|p| self.nodes[p].depth + 1).unwrap_or(0);
        let id = self.nodes.len();
        self.nodes.push(Node { kind, addr, span, parent, children: vec![], depth });
        if let Some(p) = parent {
            self.nodes[p].children.push(id);
        }
        id
    }

    fn selection_set(&mut self, s: &WithEmbeddedLocation<SelectionSet>, parent: usize) {
        let mut stack = vec![(s, parent)];
        while let Some((s, parent)) = stack.pop() {
            let me = self.add("SelectionSet", addr(&s.item), s.location.span, Some(parent));
            for sel in &s.item.selections {
                match &sel.item {
                    SelectionType::Scalar(sc) => {
                        self.add("ScalarSelection", addr(sc), sel.location.span, Some(me));
                    }
                    SelectionType::Object(o) => {
                        let on = self.add("ObjectSelection", addr(o), sel.location.span, Some(me));
                        stack.push((&o.selection_set, on));
                    }
                }
            }
        }
    }

    fn variable_definitions(&mut self, vs: &[WithEmbeddedLocation<VariableDeclaration>], parent: usize) {
        for v in vs {
            let me = self.add("VariableDeclarationInner", addr(&v.item), v.location.span, Some(parent));
            self.add("VariableNameWrapper", addr(&v.item.name.item), v.item.name.location.span, Some(me));
            // A type annotation is one resolvable node: list element annotations nested in
            // it cannot be expressed by TypeAnnotationDeclarationParentType.
            self.add("TypeAnnotation", addr(&v.item.type_.item), v.item.type_.location.span, Some(me));
        }
    }

    pub fn build(r: &IsoLiteralExtractionResult) -> Tree {
        let mut t = Tree { nodes: vec![] };
        match r {
            IsoLiteralExtractionResult::ClientFieldDeclaration(w) => {
                let d = &w.item;
                let root = t.add("ClientFieldDeclaration", addr(d), w.location.span, None);
                t.add("EntityNameWrapper", addr(&d.parent_type.item), d.parent_type.location.span, Some(root));
                t.add(
                    "ClientScalarSelectableNameWrapper",
                    addr(&d.client_field_name.item),
                    d.client_field_name.location.span,
                    Some(root),
                );
                if let Some(x) = &d.description {
                    t.add("Description", addr(&x.item), x.location.span, Some(root));
                }
                t.variable_definitions(&d.variable_definitions, root);
                t.selection_set(&d.selection_set, root);
            }
            IsoLiteralExtractionResult::ClientPointerDeclaration(w) => {
                let d = &w.item;
                let root = t.add("ClientPointerDeclaration", addr(d), w.location.span, None);
                t.add("EntityNameWrapper", addr(&d.parent_type.item), d.parent_type.location.span, Some(root));
                t.add(
                    "ClientObjectSelectableNameWrapper",
                    addr(&d.client_pointer_name.item),
                    d.client_pointer_name.location.span,
                    Some(root),
                );
                t.add("TypeAnnotation", addr(&d.target_type.item), d.target_type.location.span, Some(root));
                if let Some(x) = &d.description {
                    t.add("Description", addr(&x.item), x.location.span, Some(root));
                }
                t.variable_definitions(&d.variable_definitions, root);
                t.selection_set(&d.selection_set, root);
            }
            IsoLiteralExtractionResult::EntrypointDeclaration(w) => {
                let d = &w.item;
                let root = t.add("EntrypointDeclaration", addr(d), w.location.span, None);
                t.add("EntityNameWrapper", addr(&d.parent_type.item), d.parent_type.location.span, Some(root));
                t.add(
                    "ClientScalarSelectableNameWrapper",
                    addr(&d.client_field_name.item),
                    d.client_field_name.location.span,
                    Some(root),
                );
            }
        }
        t
    }

    pub fn chain(&self, mut id: usize) -> Vec<(&'static str, usize)> {
        let mut out = vec![(self.nodes[id].kind, self.nodes[id].addr)];
        while let Some(p) = self.nodes[id].parent {
            out.push((self.nodes[p].kind, self.nodes[p].addr));
            id = p;
        }
        out
    }
}
