//! C07: the real `parse_iso_literal` under generated / mutated / extreme inputs.
//! This process is the *worker*: the driver (python) starts one per batch and
//! restarts after a fatal signal, using the progress file to find the input.
use std::collections::BTreeMap;

use common_lang_types::{DiagnosticResult, Location, Span, TextSource};
use intern::string_key::Intern;
use isograph_lang_parser::{IsoLiteralExtractionResult, parse_iso_literal};
use serde_json::json;

use crate::ast;
use crate::isogen;
use crate::util::{Args, Distinct, Progress, fnv, panic_cause, take_panic, thread_cpu_us, trunc};

/// Stack of the thread that runs the parser: what the real callers have
/// (`isograph_cli` parses on the main thread: 8 MiB).
pub const PARSE_STACK: usize = 8 << 20;
/// CPU bound for one parse of an input of at most ~1 MB.
pub const CPU_BOUND_US: u64 = 20_000_000;

pub struct Parsed {
    pub result: Result<DiagnosticResult<IsoLiteralExtractionResult>, (String, String)>,
    pub cpu_us: u64,
}

/// Runs the public parser entry point the way `isograph_schema` does
/// (text, definition path, optional export name, text source with the literal's
/// position in the file) on a thread with the caller-like stack size.
fn parse_here(text: &str, exported: bool, outer_offset: Option<u32>) -> Parsed {
    let text_owned = text.to_string();
    let job = move || {
        let path = "src/components/x.tsx".intern().into();
        let text_source = TextSource {
            relative_path_to_source_file: path,
            span: outer_offset.map(|o| Span::new(o, o + text_owned.len() as u32)),
        };
        let export = if exported { Some("exported_name".to_string()) } else { None };
        let t0 = thread_cpu_us();
        let r = std::panic::catch_unwind(std::panic::AssertUnwindSafe(|| {
            parse_iso_literal(text_owned, path, export, text_source)
        }));
        let cpu_us = thread_cpu_us().saturating_sub(t0);
        Parsed { result: r.map_err(|_| take_panic()), cpu_us }
    };
    job()
}

type Job = (String, bool, Option<u32>);

/// One long-lived parser thread with the caller-like stack (spawning a thread per
/// input costs far more than a parse). Under Miri the parser runs inline.
pub fn run_parser(text: &str, exported: bool, outer_offset: Option<u32>) -> Parsed {
    use std::sync::mpsc::{Receiver, Sender, channel};
    use std::sync::{Mutex, OnceLock};
    if cfg!(miri) {
        return parse_here(text, exported, outer_offset);
    }
    static WORKER: OnceLock<Mutex<(Sender<Job>, Receiver<Parsed>)>> = OnceLock::new();
    let w = WORKER.get_or_init(|| {
        let (tx, rx) = channel::<Job>();
        let (rtx, rrx) = channel::<Parsed>();
        std::thread::Builder::new()
            .stack_size(PARSE_STACK)
            .spawn(move || {
                while let Ok((text, exported, outer)) = rx.recv() {
                    if rtx.send(parse_here(&text, exported, outer)).is_err() {
                        break;
                    }
                }
            })
            .expect("spawn parse thread");
        Mutex::new((tx, rrx))
    });
    let g = w.lock().unwrap();
    g.0.send((text.to_string(), exported, outer_offset)).expect("parse thread alive");
    g.1.recv().expect("parse thread alive")
}

#[derive(Clone, Debug)]
pub struct Issue {
    pub rule: &'static str,
    /// minimal offending element (part of the signature)
    pub cause: String,
    pub detail: String,
}

pub struct Outcome {
    pub issues: Vec<Issue>,
    pub parsed_ok: bool,
    pub kind: &'static str,
    pub spans: usize,
    pub tokens: usize,
    pub cpu_us: u64,
    pub diag_message: Option<String>,
}

fn check_span(issues: &mut Vec<Issue>, text: &str, what: &str, label: &str, s: Span) {
    let (a, b) = (s.start as usize, s.end as usize);
    if a > b {
        issues.push(Issue {
            rule: "span-start-after-end",
            cause: format!("{what}:{label}"),
            detail: format!("{what} span {label} = {a}..{b} has start > end"),
        });
        return;
    }
    if b > text.len() {
        issues.push(Issue {
            rule: "span-outside-text",
            cause: format!("{what}:{label}"),
            detail: format!("{what} span {label} = {a}..{b} but the text has {} bytes", text.len()),
        });
        return;
    }
    if !text.is_char_boundary(a) || !text.is_char_boundary(b) {
        issues.push(Issue {
            rule: "span-not-on-char-boundary",
            cause: format!("{what}:{label}"),
            detail: format!("{what} span {label} = {a}..{b} splits a UTF-8 character"),
        });
    }
}

pub fn check(text: &str, exported: bool, outer_offset: Option<u32>) -> Outcome {
    check_parsed(text, run_parser(text, exported, outer_offset))
}

/// Same oracle with the parser running on the calling thread (libFuzzer target).
pub fn check_inline(text: &str, exported: bool, outer_offset: Option<u32>) -> Outcome {
    check_parsed(text, parse_here(text, exported, outer_offset))
}

fn check_parsed(text: &str, p: Parsed) -> Outcome {
    let mut o = Outcome {
        issues: vec![],
        parsed_ok: false,
        kind: "panic",
        spans: 0,
        tokens: 0,
        cpu_us: p.cpu_us,
        diag_message: None,
    };
    if p.cpu_us > CPU_BOUND_US {
        o.issues.push(Issue {
            rule: "cpu-bound-exceeded",
            cause: "single-parse".into(),
            detail: format!("parse of {} bytes used {} CPU-us (> {})", text.len(), p.cpu_us, CPU_BOUND_US),
        });
    }
    match p.result {
        Err((msg, loc)) => {
            o.issues.push(Issue {
                rule: "panic",
                cause: panic_cause(&msg, &loc),
                detail: format!("parse_iso_literal panicked at {loc}: {}", trunc(&msg, 160)),
            });
        }
        Ok(Err(diag)) => {
            o.kind = "diagnostic";
            o.diag_message = Some(diag.0.message.clone());
            if let Some(Location::Embedded(l)) = diag.location() {
                o.spans += 1;
                let label: String = diag.0.message.chars().take(40).collect();
                check_span(&mut o.issues, text, "diagnostic", &label, l.span);
            }
        }
        Ok(Ok(res)) => {
            o.parsed_ok = true;
            o.kind = match &res {
                IsoLiteralExtractionResult::ClientFieldDeclaration(_) => "field",
                IsoLiteralExtractionResult::ClientPointerDeclaration(_) => "pointer",
                IsoLiteralExtractionResult::EntrypointDeclaration(_) => "entrypoint",
            };
            let spans = ast::collect_spans(&res);
            o.spans += spans.len();
            for (label, s) in &spans {
                check_span(&mut o.issues, text, "ast", label, *s);
            }
            let toks = res.semantic_tokens();
            o.tokens = toks.len();
            let mut prev: Option<Span> = None;
            for (i, t) in toks.iter().enumerate() {
                let s = t.location.span;
                let n_before = o.issues.len();
                check_span(&mut o.issues, text, "semantic-token", "token", s);
                if o.issues.len() == n_before {
                    if let Some(p) = prev {
                        if s.start <= p.start {
                            o.issues.push(Issue {
                                rule: "semantic-tokens-not-increasing",
                                cause: "token-order".into(),
                                detail: format!("token #{i} starts at {} after a token starting at {}", s.start, p.start),
                            });
                        } else if s.start < p.end {
                            o.issues.push(Issue {
                                rule: "semantic-tokens-overlap",
                                cause: "token-overlap".into(),
                                detail: format!("token #{i} {}..{} overlaps previous {}..{}", s.start, s.end, p.start, p.end),
                            });
                        }
                    }
                    prev = Some(s);
                }
            }
            // Dropping a very deep AST is not the parser's business: do it here, on the big stack.
            drop(res);
        }
    }
    o
}

fn signature(i: &Issue) -> String {
    format!("C07/{}/{}", i.rule, i.cause)
}

/// Delta-debugging over characters while the same signature keeps firing.
pub fn shrink(text: &str, exported: bool, outer: Option<u32>, sig: &str) -> String {
    let mut cur: Vec<char> = text.chars().collect();
    if cur.len() > 6000 {
        return text.to_string();
    }
    let fires = |cs: &[char]| -> bool {
        let s: String = cs.iter().collect();
        check(&s, exported, outer).issues.iter().any(|i| signature(i) == sig)
    };
    let mut chunk = (cur.len() / 2).max(1);
    let mut budget = 1500usize;
    loop {
        let mut progressed = false;
        let mut i = 0;
        while i < cur.len() && budget > 0 {
            let j = (i + chunk).min(cur.len());
            let mut cand = cur[..i].to_vec();
            cand.extend_from_slice(&cur[j..]);
            budget -= 1;
            if fires(&cand) {
                cur = cand;
                progressed = true;
            } else {
                i = j;
            }
        }
        if budget == 0 {
            break;
        }
        if chunk == 1 {
            if !progressed {
                break;
            }
        } else {
            chunk = (chunk / 2).max(1);
        }
    }
    cur.into_iter().collect()
}

fn nontrivial(o: &Outcome, text: &str) -> bool {
    // The parser got past the keyword: either a declaration came back, or a
    // diagnostic other than the "must start with a keyword" one.
    let _ = text;
    o.parsed_ok
        || o.diag_message
            .as_deref()
            .map(|m| !m.starts_with("Isograph literals must start"))
            .unwrap_or(false)
        || o.kind == "panic"
}

pub struct Report {
    evaluations: u64,
    by_class: BTreeMap<String, u64>,
    by_class_outcome: BTreeMap<String, u64>,
    by_kind: BTreeMap<&'static str, u64>,
    diag_messages: BTreeMap<String, u64>,
    spans_checked: u64,
    tokens_checked: u64,
    non_ascii_inputs: u64,
    max_cpu_us: u64,
    max_cpu_len: usize,
    max_len: usize,
    findings: Vec<serde_json::Value>,
    seen_sigs: BTreeMap<String, u64>,
    samples: Vec<serde_json::Value>,
}

impl Report {
    fn new() -> Self {
        Report {
            evaluations: 0,
            by_class: BTreeMap::new(),
            by_class_outcome: BTreeMap::new(),
            by_kind: BTreeMap::new(),
            diag_messages: BTreeMap::new(),
            spans_checked: 0,
            tokens_checked: 0,
            non_ascii_inputs: 0,
            max_cpu_us: 0,
            max_cpu_len: 0,
            max_len: 0,
            findings: vec![],
            seen_sigs: BTreeMap::new(),
            samples: vec![],
        }
    }
}

fn one(rep: &mut Report, distinct: &mut Distinct, case: &isogen::Case, index: u64, exported: bool, outer: Option<u32>, no_shrink: bool) {
    let o = check(&case.text, exported, outer);
    rep.evaluations += 1;
    *rep.by_class.entry(case.class.clone()).or_default() += 1;
    *rep.by_class_outcome.entry(format!("{}/{}", case.class, o.kind)).or_default() += 1;
    if case.class == "grammar" && std::env::var("UTIL_DEBUG_GRAMMAR").is_ok() {
        if let Some(m) = &o.diag_message {
            eprintln!("GRAMMAR-DIAG {:?} :: {:?}", m.chars().take(60).collect::<String>(), case.text);
        }
    }
    *rep.by_kind.entry(o.kind).or_default() += 1;
    if let Some(m) = &o.diag_message {
        let key: String = m.chars().take(48).collect();
        *rep.diag_messages.entry(key).or_default() += 1;
    }
    rep.spans_checked += o.spans as u64;
    rep.tokens_checked += o.tokens as u64;
    if !case.text.is_ascii() {
        rep.non_ascii_inputs += 1;
    }
    if o.cpu_us > rep.max_cpu_us {
        rep.max_cpu_us = o.cpu_us;
        rep.max_cpu_len = case.text.len();
    }
    rep.max_len = rep.max_len.max(case.text.len());
    if nontrivial(&o, &case.text) {
        distinct.add(fnv(case.text.as_bytes()));
    }
    if rep.samples.len() < 3 && o.parsed_ok && case.text.len() < 300 && (index % 7 == 0 || rep.samples.is_empty()) {
        rep.samples.push(json!({"class": case.class, "outcome": o.kind, "text": case.text,
            "spans": o.spans, "semantic_tokens": o.tokens}));
    }
    for i in &o.issues {
        let sig = signature(i);
        let n = rep.seen_sigs.entry(sig.clone()).or_default();
        *n += 1;
        if *n > 1 {
            continue; // one witness per signature per shard
        }
        let shrunk = if no_shrink || case.class.starts_with("extreme:") {
            case.text.clone()
        } else {
            shrink(&case.text, exported, outer, &sig)
        };
        rep.findings.push(json!({
            "rule": i.rule, "signature": sig, "what": i.detail, "index": index, "class": case.class,
            "exported": exported, "outer_offset": outer,
            "input": trunc(&case.text, 400), "shrunk": trunc(&shrunk, 400),
        }));
    }
}

fn finish(rep: Report, distinct: Distinct, args: &Args) {
    distinct.dump(args.opt("hashes"));
    let out = json!({
        "tool": "parse",
        "evaluations": rep.evaluations,
        "nontrivial_distinct": distinct.set.len(),
        "by_class": rep.by_class,
        "by_class_and_outcome": rep.by_class_outcome,
        "by_outcome": rep.by_kind,
        "diagnostic_messages": rep.diag_messages,
        "spans_checked": rep.spans_checked,
        "semantic_tokens_checked": rep.tokens_checked,
        "non_ascii_inputs": rep.non_ascii_inputs,
        "max_cpu_us": rep.max_cpu_us,
        "max_cpu_input_len": rep.max_cpu_len,
        "max_input_len": rep.max_len,
        "signature_counts": rep.seen_sigs,
        "findings": rep.findings,
        "samples": rep.samples,
    });
    println!("{out}");
}

/// `parse --seed S --start A --count N [--progress file] [--hashes file]`
pub fn cmd_mixed(args: &Args) {
    let seed = args.u64("seed", 1);
    let start = args.u64("start", 0);
    let count = args.u64("count", 100);
    let no_shrink = args.flag("no-shrink");
    let mut progress = Progress::open(args.opt("progress"));
    let mut rep = Report::new();
    let mut distinct = Distinct::new();
    for i in start..start + count {
        progress.set(i);
        let case = isogen::mixed_case(seed, i);
        // export name / outer offset vary deterministically with the index
        let exported = i % 5 != 0;
        let outer = if i % 3 == 0 { None } else { Some(((i * 37) % 5000) as u32) };
        one(&mut rep, &mut distinct, &case, i, exported, outer, no_shrink);
    }
    progress.set(u64::MAX);
    finish(rep, distinct, args);
}

/// `parse-extreme --kind K --n N` : one extreme input.
pub fn cmd_extreme(args: &Args) {
    let kind = args.str("kind", "nest-selection-open");
    let n = args.usize("n", 100);
    let case = isogen::extreme_case(&kind, n);
    let mut rep = Report::new();
    let mut distinct = Distinct::new();
    one(&mut rep, &mut distinct, &case, 0, true, Some(10), true);
    finish(rep, distinct, args);
}

/// `parse-text --file F [--no-export]` : replay one input.
pub fn cmd_text(args: &Args) {
    let text = std::fs::read_to_string(args.str("file", "/dev/stdin")).expect("read input");
    let case = isogen::Case { text, class: "replay".into() };
    let mut rep = Report::new();
    let mut distinct = Distinct::new();
    one(&mut rep, &mut distinct, &case, 0, !args.flag("no-export"), Some(10), args.flag("no-shrink"));
    finish(rep, distinct, args);
}
