//! Grammar-directed generator of iso literal texts, plus token-/character-level
//! mutations and the "extreme" inputs (huge integers, deep nesting, 1 MB texts).
use crate::util::Rng;

#[derive(Clone, Debug)]
pub enum Tok {
    /// ordinary token text
    T(String),
    /// required separator (comma and/or line break)
    Sep,
}

pub struct Case {
    pub text: String,
    pub class: String,
}

const NAMES: &[&str] = &[
    "a", "b", "id", "name", "Query", "User", "Pet", "foo", "Bar", "x1", "_y", "to", "field", "pointer",
    "entrypoint", "true", "false", "null", "node", "asUser", "__typename", "A_b_9", "veryLongIdentifierNameThatGoesOn",
];
const TYPES: &[&str] = &["ID", "String", "Int", "Boolean", "User", "Query", "Pet", "to", "T_1"];
const BMP: &[&str] = &["é", "ß", "Ω", "ж", "€", "日", "本", "\u{2028}", "\u{fffd}", "\u{ffff}", "\u{7f}", "\u{a0}"];
const ASTRAL: &[&str] = &["😀", "𝒳", "\u{10000}", "\u{10ffff}", "🇩🇪"];
const WS: &[&str] = &[" ", " ", " ", "  ", "\t", "\n", "\n  ", "\r\n", "\r", "\u{feff}", "\u{c}"];
const INTS_EXTREME: &[&str] = &[
    "9223372036854775807",
    "9223372036854775808",
    "-9223372036854775808",
    "-9223372036854775809",
    "18446744073709551615",
    "18446744073709551616",
    "99999999999999999999999999999999999999",
    "-99999999999999999999999999999999999999",
    "-0",
    "0",
    "2147483648",
];
const JUNK_TOKENS: &[&str] = &[
    "{", "}", "(", ")", "[", "]", ":", "$", "@", "=", "!", ".", "..", "...", ",", "\"", "\"\"", "\"\"\"", "\"a", "\"\\",
    "\"\\u12\"", "007", "1.5", "1e5", ".5", "-", "--1", "1a", "#", "|", "&", "`", "\\", "field", "pointer", "entrypoint",
    "to", "on", "null", "true", "0", "-1", "9223372036854775808", "\"\"\"x", "\"\"\"\\\"\"\"", "'", "<", ">", "%", "\0",
];

pub struct Gen<'a> {
    pub r: &'a mut Rng,
    pub ints_extreme: bool,
    pub astral_ok: bool,
}

fn t(s: &str) -> Tok {
    Tok::T(s.to_string())
}

impl<'a> Gen<'a> {
    fn name(&mut self) -> Tok {
        if self.r.chance(1, 6) {
            let n = self.r.range(1, 9);
            let mut s = String::new();
            for i in 0..n {
                let pool: &[u8] = if i == 0 {
                    b"abcxyzQRS_"
                } else {
                    b"abcxyzQRS_0189"
                };
                s.push(self.r.pick(pool) as char);
            }
            Tok::T(s)
        } else {
            t(self.r.pick(NAMES))
        }
    }

    fn string_body(&mut self, block: bool) -> String {
        let n = self.r.below(7);
        let mut s = String::new();
        for _ in 0..n {
            match self.r.below(12) {
                0 | 1 | 2 | 3 => s.push_str(self.r.pick(&["a", "hello", " ", "x y", "Z9", "#", "{", "}", "'", "`"])),
                4 | 5 => s.push_str(self.r.pick(BMP)),
                6 => {
                    if self.astral_ok && self.r.chance(1, 3) {
                        s.push_str(self.r.pick(ASTRAL))
                    } else {
                        s.push_str(self.r.pick(BMP))
                    }
                }
                7 => s.push_str(self.r.pick(&["\\n", "\\\"", "\\\\", "\\/", "\\t", "\\u00e9", "\\uD83D"])),
                8 => {
                    if block {
                        s.push_str(self.r.pick(&["\n", "\n    ", "\n\t", "\r\n  ", "\"", "\"\"", "\\\"\"\"", "\n\n"]))
                    } else {
                        s.push('\t')
                    }
                }
                _ => s.push_str(self.r.pick(&["b", "word", "  ", "1", "-"])),
            }
        }
        if block && s.ends_with('"') {
            s.push(' ');
        }
        s
    }

    fn string(&mut self) -> Tok {
        Tok::T(format!("\"{}\"", self.string_body(false)))
    }

    fn description(&mut self, out: &mut Vec<Tok>) {
        match self.r.below(5) {
            0 => out.push(self.string()),
            1 => {
                let b = self.string_body(true);
                out.push(Tok::T(format!("\"\"\"{b}\"\"\"")));
            }
            _ => {}
        }
    }

    fn int(&mut self) -> Tok {
        if self.ints_extreme || self.r.chance(1, 25) {
            t(self.r.pick(INTS_EXTREME))
        } else {
            let v = self.r.below(2000) as i64 - 1000;
            Tok::T(v.to_string())
        }
    }

    fn value(&mut self, out: &mut Vec<Tok>, depth: usize, allow_var: bool) {
        let k = self.r.below(if depth > 3 { 6 } else { 8 });
        match k {
            0 | 1 if allow_var => {
                out.push(t("$"));
                out.push(self.name());
            }
            0 | 1 | 2 => out.push(self.int()),
            3 => out.push(self.string()),
            4 => out.push(t(self.r.pick(&["true", "false", "null"]))),
            5 => out.push(self.int()),
            _ => {
                out.push(t("{"));
                let n = self.r.below(4);
                for i in 0..n {
                    out.push(self.name());
                    out.push(t(":"));
                    self.value(out, depth + 1, allow_var);
                    if i + 1 < n || self.r.chance(1, 3) {
                        out.push(Tok::Sep);
                    }
                }
                out.push(t("}"));
            }
        }
    }

    fn arguments(&mut self, out: &mut Vec<Tok>, allow_var: bool) {
        out.push(t("("));
        let n = self.r.below(4);
        for i in 0..n {
            out.push(self.name());
            out.push(t(":"));
            self.value(out, 0, allow_var);
            if i + 1 < n || self.r.chance(1, 3) {
                out.push(Tok::Sep);
            }
        }
        out.push(t(")"));
    }

    fn type_annotation(&mut self, out: &mut Vec<Tok>, depth: usize) {
        if depth < 3 && self.r.chance(1, 3) {
            out.push(t("["));
            self.type_annotation(out, depth + 1);
            out.push(t("]"));
        } else {
            out.push(t(self.r.pick(TYPES)));
        }
        if self.r.chance(1, 2) {
            out.push(t("!"));
        }
    }

    fn variable_definitions(&mut self, out: &mut Vec<Tok>) {
        if !self.r.chance(2, 5) {
            return;
        }
        out.push(t("("));
        let n = self.r.below(4);
        for i in 0..n {
            out.push(t("$"));
            out.push(self.name());
            out.push(t(":"));
            self.type_annotation(out, 0);
            if self.r.chance(1, 3) {
                out.push(t("="));
                // default values must be constant; occasionally use a variable anyway
                let allow_var = self.r.chance(1, 12);
                self.value(out, 0, allow_var);
            }
            if i + 1 < n || self.r.chance(1, 3) {
                out.push(Tok::Sep);
            }
        }
        out.push(t(")"));
    }

    /// directives on declarations: any name, optional arguments
    fn free_directives(&mut self, out: &mut Vec<Tok>) {
        let n = if self.r.chance(1, 2) { 0 } else { self.r.range(1, 3) };
        for _ in 0..n {
            out.push(t("@"));
            out.push(t(self.r.pick(&["component", "lazyLoad", "foo", "a", "loadable"])));
            if self.r.chance(1, 2) {
                self.arguments(out, true);
            }
        }
    }

    /// directives on selections: only those the parser's deserializer accepts (mostly)
    fn selection_directives(&mut self, out: &mut Vec<Tok>, object: bool) {
        match self.r.below(12) {
            0 => {
                out.push(t("@"));
                out.push(t("updatable"));
            }
            1 if !object => {
                out.push(t("@"));
                out.push(t("loadable"));
                match self.r.below(3) {
                    0 => {}
                    1 => {
                        for s in ["(", "lazyLoadArtifact", ":", "true", ")"] {
                            out.push(t(s));
                        }
                    }
                    _ => {
                        out.push(t("("));
                        out.push(t(")"));
                    }
                }
            }
            2 if self.r.chance(1, 4) => {
                // usually rejected (unknown directive): diagnostic path
                out.push(t("@"));
                out.push(self.name());
                if self.r.chance(1, 2) {
                    self.arguments(out, true);
                }
            }
            _ => {}
        }
    }

    fn selection_set(&mut self, out: &mut Vec<Tok>, depth: usize) {
        out.push(t("{"));
        let n = if depth == 0 { self.r.range(0, 5) } else { self.r.range(0, 3) };
        for _ in 0..n {
            if self.r.chance(1, 5) {
                out.push(self.name());
                out.push(t(":"));
            }
            out.push(self.name());
            if self.r.chance(1, 4) {
                self.arguments(out, true);
            }
            let object = depth < 4 && self.r.chance(1, 3);
            self.selection_directives(out, object);
            if object {
                self.selection_set(out, depth + 1);
            }
            out.push(Tok::Sep);
        }
        out.push(t("}"));
    }

    pub fn literal(&mut self) -> Vec<Tok> {
        let mut out = vec![];
        match self.r.below(10) {
            0 | 1 => {
                out.push(t("entrypoint"));
                out.push(t(self.r.pick(TYPES)));
                out.push(t("."));
                out.push(self.name());
                self.free_directives(&mut out);
            }
            2 | 3 | 4 => {
                out.push(t("pointer"));
                out.push(t(self.r.pick(TYPES)));
                out.push(t("."));
                out.push(self.name());
                self.variable_definitions(&mut out);
                out.push(t("to"));
                self.type_annotation(&mut out, 0);
                self.free_directives(&mut out);
                self.description(&mut out);
                self.selection_set(&mut out, 0);
            }
            _ => {
                out.push(t("field"));
                out.push(t(self.r.pick(TYPES)));
                out.push(t("."));
                out.push(self.name());
                self.variable_definitions(&mut out);
                self.free_directives(&mut out);
                self.description(&mut out);
                self.selection_set(&mut out, 0);
            }
        }
        out
    }

    fn ws(&mut self, must: bool) -> String {
        let n = if must {
            self.r.range(1, 2)
        } else if self.r.chance(1, 2) {
            0
        } else {
            self.r.range(1, 2)
        };
        let mut s = String::new();
        for _ in 0..n {
            s.push_str(self.r.pick(WS));
        }
        s
    }

    fn sep(&mut self) -> String {
        let lead = self.ws(false).replace('\n', " ");
        let core = self.r.pick(&[",", "\n", ",\n", "\r\n", ", ", ",", "\n\n", ",\n  "]);
        format!("{lead}{core}{}", self.ws(false))
    }

    pub fn render(&mut self, toks: &[Tok]) -> String {
        let mut s = self.ws(false);
        let mut prev_wordy = false;
        let mut prev_quote = false;
        for tk in toks {
            match tk {
                Tok::Sep => {
                    s.push_str(&self.sep());
                    prev_wordy = false;
                    prev_quote = false;
                }
                Tok::T(x) => {
                    let first = x.chars().next().unwrap_or(' ');
                    let wordy_start = first.is_ascii_alphanumeric() || first == '_' || first == '-' || first == '.';
                    let must = (prev_wordy && wordy_start) || (prev_quote && first == '"');
                    s.push_str(&self.ws(must));
                    s.push_str(x);
                    let last = x.chars().last().unwrap_or(' ');
                    prev_wordy = last.is_ascii_alphanumeric() || last == '_';
                    prev_quote = last == '"';
                }
            }
        }
        s.push_str(&self.ws(false));
        s
    }
}

fn mutate_tokens(r: &mut Rng, toks: &mut Vec<Tok>) -> &'static str {
    if toks.is_empty() {
        toks.push(t("{"));
        return "insert";
    }
    let i = r.below(toks.len());
    match r.below(7) {
        0 => {
            toks.remove(i);
            "delete"
        }
        1 => {
            let x = toks[i].clone();
            toks.insert(i, x);
            "duplicate"
        }
        2 => {
            let j = r.below(toks.len());
            toks.swap(i, j);
            "swap"
        }
        3 => {
            toks[i] = t(r.pick(JUNK_TOKENS));
            "replace"
        }
        4 => {
            toks.insert(i, t(r.pick(JUNK_TOKENS)));
            "insert"
        }
        5 => {
            toks.truncate(i);
            "truncate"
        }
        _ => {
            toks[i] = t(r.pick(INTS_EXTREME));
            "int"
        }
    }
}

fn char_pool(r: &mut Rng) -> String {
    match r.below(10) {
        0 | 1 => r.pick(BMP).to_string(),
        2 | 3 => r.pick(ASTRAL).to_string(),
        4 => "\u{feff}".to_string(),
        5 => "\r".to_string(),
        6 => r.pick(&["\"", "\"\"\"", "\\", "`", "\0", "\u{1}", "\u{1b}"]).to_string(),
        7 => r.pick(&["{", "}", "(", ")", "@", "$", ":", ".", ",", "\n"]).to_string(),
        8 => ((b' ' + r.below(95) as u8) as char).to_string(),
        _ => r.pick(&["-", "9", "0", "e", ".5", "_"]).to_string(),
    }
}

fn mutate_chars(r: &mut Rng, text: &str) -> String {
    let mut chars: Vec<char> = text.chars().collect();
    let n = r.range(1, 3);
    for _ in 0..n {
        if chars.is_empty() {
            chars.extend(char_pool(r).chars());
            continue;
        }
        let i = r.below(chars.len());
        match r.below(6) {
            0 => {
                chars.remove(i);
            }
            1 => {
                let ins: Vec<char> = char_pool(r).chars().collect();
                for (k, c) in ins.into_iter().enumerate() {
                    chars.insert(i + k, c);
                }
            }
            2 => {
                let ins: Vec<char> = char_pool(r).chars().collect();
                chars[i] = ins[0];
            }
            3 => {
                chars.truncate(i);
            }
            4 => {
                let j = r.range(i, (i + 8).min(chars.len()));
                let slice: Vec<char> = chars[i..j].to_vec();
                for (k, c) in slice.into_iter().enumerate() {
                    chars.insert(j + k, c);
                }
            }
            _ => {
                let j = r.range(i, (i + 6).min(chars.len()));
                chars.drain(i..j);
            }
        }
    }
    chars.into_iter().collect()
}

fn raw(r: &mut Rng) -> String {
    let n = r.below(40);
    let mut s = String::new();
    if r.chance(1, 2) {
        s.push_str(r.pick(&["field ", "pointer ", "entrypoint ", "field Query.x", "field Query.x {", "pointer A.b to "]));
    }
    for _ in 0..n {
        match r.below(4) {
            0 => s.push_str(r.pick(JUNK_TOKENS)),
            1 => s.push_str(&char_pool(r)),
            2 => s.push_str(r.pick(NAMES)),
            _ => s.push_str(r.pick(WS)),
        }
    }
    s
}

/// The mixed workload: case `i` of shard `seed`.
pub fn mixed_case(seed: u64, i: u64) -> Case {
    let mut r = Rng::for_case(seed, i);
    let sel = r.below(100);
    if sel < 40 {
        let astral_ok = r.chance(1, 8);
        let mut g = Gen { r: &mut r, ints_extreme: false, astral_ok };
        let toks = g.literal();
        let text = g.render(&toks);
        Case { text, class: "grammar".into() }
    } else if sel < 47 {
        let mut g = Gen { r: &mut r, ints_extreme: true, astral_ok: false };
        let toks = g.literal();
        let text = g.render(&toks);
        Case { text, class: "grammar+extreme-ints".into() }
    } else if sel < 68 {
        let mut toks = {
            let mut g = Gen { r: &mut r, ints_extreme: false, astral_ok: true };
            g.literal()
        };
        let n = r.range(1, 3);
        let mut kinds = vec![];
        for _ in 0..n {
            kinds.push(mutate_tokens(&mut r, &mut toks));
        }
        if r.chance(1, 6) {
            // splice with a second literal
            let mut g = Gen { r: &mut r, ints_extreme: false, astral_ok: true };
            let other = g.literal();
            let cut = g.r.below(other.len().max(1));
            toks.extend_from_slice(&other[cut.min(other.len())..]);
            kinds.push("splice");
        }
        let mut g = Gen { r: &mut r, ints_extreme: false, astral_ok: true };
        let text = g.render(&toks);
        Case { text, class: "grammar+token-mutation".into() }
    } else if sel < 90 {
        let text = {
            let mut g = Gen { r: &mut r, ints_extreme: false, astral_ok: true };
            let toks = g.literal();
            g.render(&toks)
        };
        let text = mutate_chars(&mut r, &text);
        Case { text, class: "grammar+char-mutation".into() }
    } else {
        Case { text: raw(&mut r), class: "raw".into() }
    }
}

/// Only grammar-valid literals (C32 workload, a quarter of them lightly mutated).
pub fn grammar_case(seed: u64, i: u64) -> Case {
    let mut r = Rng::for_case(seed, i);
    let mut g = Gen { r: &mut r, ints_extreme: false, astral_ok: false };
    let toks = g.literal();
    let text = g.render(&toks);
    if r.chance(1, 8) {
        let text = mutate_chars(&mut r, &text);
        return Case { text, class: "grammar+char-mutation".into() };
    }
    Case { text, class: "grammar".into() }
}

pub const EXTREME_KINDS: &[&str] = &[
    "nest-selection-open",      // field Q.f { a { a { ...            (unclosed)
    "nest-selection-closed",    // ... with matching closers
    "nest-object-value",        // f(a: {a: {a: ...
    "nest-object-value-closed", // ... closed
    "nest-list-type",           // ($v: [[[[ ...
    "nest-list-type-closed",    // ($v: [[[[ID]]]] )
    "nest-paren",               // ((((((
    "nest-default-object",      // ($v: T = {a: {a: ...
    "many-selections",          // a\n a\n ... (size bytes)
    "many-directives",          // @a@a@a...
    "many-arguments",           // f(a:1,a:1,...)
    "long-string",              // one string literal of `size` bytes
    "long-block-string",        // description """...""" of `size` bytes
    "long-identifier",
    "long-whitespace",
    "long-integer",             // 1 followed by size digits
    "many-quotes",              // """"""""...
    "many-open-braces-raw",     // {{{{{{ without a header
    "long-nonascii",            // multi-byte soup
    "many-variables",
];

/// Extreme input `kind` with nesting depth / byte size `n`.
pub fn extreme_case(kind: &str, n: usize) -> Case {
    let text = match kind {
        "nest-selection-open" => format!("field Query.f {{{}", " a {".repeat(n)),
        "nest-selection-closed" => {
            format!("field Query.f {{{} b\n{}}}", " a {".repeat(n), "}\n".repeat(n))
        }
        "nest-object-value" => format!("field Query.f {{ g(x: {}", "{a: ".repeat(n)),
        "nest-object-value-closed" => {
            format!("field Query.f {{ g(x: {}1{})\n}}", "{a: ".repeat(n), "}".repeat(n))
        }
        "nest-list-type" => format!("field Query.f($v: {}", "[".repeat(n)),
        "nest-list-type-closed" => {
            format!("field Query.f($v: {}ID{}) {{}}", "[".repeat(n), "]".repeat(n))
        }
        "nest-paren" => format!("field Query.f {}", "(".repeat(n)),
        "nest-default-object" => format!("field Query.f($v: T = {}", "{a: ".repeat(n)),
        "many-selections" => format!("field Query.f {{\n{}}}", "abc\n".repeat(n / 4)),
        "many-directives" => format!("field Query.f {} {{}}", "@a".repeat(n / 2)),
        "many-arguments" => format!("field Query.f {{ g({})\n}}", "a:1,".repeat(n / 4)),
        "long-string" => format!("field Query.f {{ g(x: \"{}\")\n}}", "s".repeat(n)),
        "long-block-string" => format!("field Query.f \"\"\"{}\"\"\" {{}}", "line é\n  ".repeat(n / 10)),
        "long-identifier" => format!("field Query.{} {{}}", "i".repeat(n)),
        "long-whitespace" => format!("field{}Query.f {{}}", " \n".repeat(n / 2)),
        "long-integer" => format!("field Query.f {{ g(x: 1{})\n}}", "0".repeat(n)),
        "many-quotes" => format!("field Query.f {}", "\"".repeat(n)),
        "many-open-braces-raw" => "{".repeat(n),
        "long-nonascii" => "é😀€".repeat(n / 9),
        "many-variables" => format!("field Query.f({}) {{}}", "$a: [ID!]! = 1, ".repeat(n / 16)),
        _ => panic!("unknown extreme kind {kind}"),
    };
    Case { text, class: format!("extreme:{kind}") }
}
