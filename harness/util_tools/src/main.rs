//! util_tools: runtime monitors for the small pure utilities and the iso literal
//! parser of /repo (properties C07, C31, C32, C33). Each subcommand runs the real
//! code on generated inputs and prints ONE JSON report line on stdout.
//!
//!   parse          --seed S --start A --count N [--progress F] [--hashes F] [--no-shrink]
//!   parse-extreme  --kind K --n N
//!   parse-text     --file F [--no-export]
//!   gen            --seed S --start A --count N          (print generated inputs, for corpora)
//!   resolve        --seed S --start A --count N [--progress F] [--hashes F] | --file F
//!   carats         --seed S --start A --count N [--hashes F] | --file F --s A --e B
//!   signed         --seed S --start A --count N [--hashes F] | --file F
//!   distinct       F1 F2 ...                               (distinct u64 over hash files)
mod ast;
mod carats;
mod isogen;
mod parse;
mod resolve;
mod signed;
mod util;

/// Everything that walks or drops ASTs runs here: the AST can be as deep as the parser allows.
const DRIVER_STACK: usize = 1 << 30;

fn main() {
    let argv: Vec<String> = std::env::args().collect();
    let sub = argv.get(1).cloned().unwrap_or_default();
    let rest: Vec<String> = argv.iter().skip(2).cloned().collect();
    if sub == "distinct" {
        util::distinct_cmd(&rest);
        return;
    }
    util::install_panic_hook();
    let run = move || {
        let args = util::Args::parse(&rest);
        match sub.as_str() {
            "parse" => parse::cmd_mixed(&args),
            "parse-extreme" => parse::cmd_extreme(&args),
            "parse-text" => parse::cmd_text(&args),
            "gen" => {
                let (seed, start, count) = (args.u64("seed", 1), args.u64("start", 0), args.u64("count", 10));
                for i in start..start + count {
                    let c = isogen::mixed_case(seed, i);
                    println!("{}", serde_json::json!({"index": i, "class": c.class, "text": c.text}));
                }
            }
            "extreme-kinds" => println!("{}", serde_json::json!(isogen::EXTREME_KINDS)),
            "resolve" => resolve::cmd(&args),
            "carats" => carats::cmd(&args),
            "signed" => signed::cmd(&args),
            _ => {
                eprintln!("usage: util_tools parse|parse-extreme|parse-text|gen|resolve|carats|signed|distinct ...");
                std::process::exit(2);
            }
        }
    };
    if cfg!(miri) {
        run();
    } else {
        std::thread::Builder::new()
            .stack_size(DRIVER_STACK)
            .spawn(run)
            .expect("spawn driver thread")
            .join()
            .expect("driver thread");
    }
}
