//! Shared plumbing: deterministic RNG, argv parsing, hashing, panic capture,
//! CPU clock, hash-file output.
use std::cell::RefCell;
use std::collections::HashMap;
use std::io::Write;

#[derive(Clone)]
pub struct Rng(pub u64);

impl Rng {
    pub fn new(seed: u64) -> Self {
        Rng(seed ^ 0x1234_5678_9abc_def1)
    }
    /// Independent stream for case `i` of a shard seed.
    pub fn for_case(seed: u64, i: u64) -> Self {
        let mut r = Rng(seed ^ i.wrapping_mul(0xD6E8_FEB8_6659_FD93));
        r.next();
        r.next();
        r
    }
    pub fn next(&mut self) -> u64 {
        self.0 = self.0.wrapping_add(0x9E37_79B9_7F4A_7C15);
        let mut z = self.0;
        z = (z ^ (z >> 30)).wrapping_mul(0xBF58_476D_1CE4_E5B9);
        z = (z ^ (z >> 27)).wrapping_mul(0x94D0_49BB_1331_11EB);
        z ^ (z >> 31)
    }
    /// uniform in 0..n (n > 0)
    pub fn below(&mut self, n: usize) -> usize {
        (self.next() % (n as u64)) as usize
    }
    pub fn range(&mut self, lo: usize, hi_incl: usize) -> usize {
        lo + self.below(hi_incl - lo + 1)
    }
    /// true with probability num/den
    pub fn chance(&mut self, num: usize, den: usize) -> bool {
        self.below(den) < num
    }
    pub fn pick<T: Copy>(&mut self, xs: &[T]) -> T {
        xs[self.below(xs.len())]
    }
}

pub fn fnv(bytes: &[u8]) -> u64 {
    let mut h: u64 = 0xcbf2_9ce4_8422_2325;
    for b in bytes {
        h ^= *b as u64;
        h = h.wrapping_mul(0x0000_0100_0000_01b3);
    }
    // final avalanche
    h ^= h >> 32;
    h = h.wrapping_mul(0x9E37_79B9_7F4A_7C15);
    h ^ (h >> 29)
}

pub struct Args {
    pub map: HashMap<String, String>,
}

impl Args {
    pub fn parse(argv: &[String]) -> Args {
        let mut map = HashMap::new();
        let mut i = 0;
        while i < argv.len() {
            let a = &argv[i];
            if let Some(k) = a.strip_prefix("--") {
                if i + 1 < argv.len() && !argv[i + 1].starts_with("--") {
                    map.insert(k.to_string(), argv[i + 1].clone());
                    i += 2;
                } else {
                    map.insert(k.to_string(), "1".to_string());
                    i += 1;
                }
            } else {
                i += 1;
            }
        }
        Args { map }
    }
    pub fn u64(&self, k: &str, d: u64) -> u64 {
        self.map.get(k).map(|v| v.parse().expect("numeric arg")).unwrap_or(d)
    }
    pub fn usize(&self, k: &str, d: usize) -> usize {
        self.u64(k, d as u64) as usize
    }
    pub fn str(&self, k: &str, d: &str) -> String {
        self.map.get(k).cloned().unwrap_or_else(|| d.to_string())
    }
    pub fn opt(&self, k: &str) -> Option<&String> {
        self.map.get(k)
    }
    pub fn flag(&self, k: &str) -> bool {
        self.map.contains_key(k)
    }
}

thread_local! {
    static LAST_PANIC: RefCell<Option<(String, String)>> = const { RefCell::new(None) };
}

/// Silent panic hook that remembers (message, file:line) of the last panic.
pub fn install_panic_hook() {
    std::panic::set_hook(Box::new(|info| {
        let msg = if let Some(s) = info.payload().downcast_ref::<&str>() {
            s.to_string()
        } else if let Some(s) = info.payload().downcast_ref::<String>() {
            s.clone()
        } else {
            "<non-string panic payload>".to_string()
        };
        let loc = info
            .location()
            .map(|l| format!("{}:{}", l.file(), l.line()))
            .unwrap_or_default();
        LAST_PANIC.with(|p| *p.borrow_mut() = Some((msg, loc)));
    }));
}

pub fn take_panic() -> (String, String) {
    LAST_PANIC
        .with(|p| p.borrow_mut().take())
        .unwrap_or_else(|| ("<unknown panic>".to_string(), String::new()))
}

/// Panic identity that is stable across inputs: file basename + message with
/// digits normalised, cut at the first ": " (drops e.g. the ParseIntError kind).
pub fn panic_cause(msg: &str, loc: &str) -> String {
    let file = loc.rsplit('/').next().unwrap_or("").split(':').next().unwrap_or("");
    let head = msg.split(": ").next().unwrap_or(msg);
    let mut norm = String::new();
    let mut last_digit = false;
    for c in head.chars() {
        if c.is_ascii_digit() {
            if !last_digit {
                norm.push('N');
            }
            last_digit = true;
        } else {
            last_digit = false;
            norm.push(if c == '\n' { ' ' } else { c });
        }
    }
    let norm: String = norm.chars().take(70).collect();
    format!("{file}:{norm}")
}

/// CPU time consumed by this thread, in microseconds (0 under Miri).
pub fn thread_cpu_us() -> u64 {
    #[cfg(miri)]
    {
        0
    }
    #[cfg(not(miri))]
    {
        let mut ts = libc::timespec { tv_sec: 0, tv_nsec: 0 };
        // SAFETY: plain syscall wrapper writing into a local.
        unsafe {
            libc::clock_gettime(libc::CLOCK_THREAD_CPUTIME_ID, &mut ts);
        }
        (ts.tv_sec as u64) * 1_000_000 + (ts.tv_nsec as u64) / 1000
    }
}

/// Collects hashes of non-trivial cases; exact distinct count within the shard,
/// optional dump (u64 LE) so that the driver can count distinct across shards.
pub struct Distinct {
    pub set: std::collections::HashSet<u64>,
}

impl Distinct {
    pub fn new() -> Self {
        Distinct { set: std::collections::HashSet::new() }
    }
    pub fn add(&mut self, h: u64) {
        self.set.insert(h);
    }
    pub fn dump(&self, path: Option<&String>) {
        if let Some(p) = path {
            let mut buf = Vec::with_capacity(self.set.len() * 8);
            for h in &self.set {
                buf.extend_from_slice(&h.to_le_bytes());
            }
            std::fs::File::create(p).and_then(|mut f| f.write_all(&buf)).expect("write hashes");
        }
    }
}

/// `distinct f1 f2 ...` : number of distinct u64 in the union of hash files.
pub fn distinct_cmd(files: &[String]) {
    let mut all: Vec<u64> = Vec::new();
    for f in files {
        let b = std::fs::read(f).expect("read hash file");
        for c in b.chunks_exact(8) {
            all.push(u64::from_le_bytes(c.try_into().unwrap()));
        }
    }
    all.sort_unstable();
    all.dedup();
    println!("{{\"distinct\":{}}}", all.len());
}

pub fn trunc(s: &str, n: usize) -> String {
    if s.chars().count() <= n {
        s.to_string()
    } else {
        let head: String = s.chars().take(n).collect();
        format!("{head}…(+{} bytes)", s.len() - head.len())
    }
}

/// Progress file: the index about to be processed (8 bytes LE at offset 0).
pub struct Progress(Option<std::fs::File>);

impl Progress {
    pub fn open(path: Option<&String>) -> Self {
        Progress(path.map(|p| std::fs::File::create(p).expect("progress file")))
    }
    pub fn set(&mut self, idx: u64) {
        #[cfg(not(miri))]
        if let Some(f) = &self.0 {
            use std::os::unix::fs::FileExt;
            let _ = f.write_at(&idx.to_le_bytes(), 0);
        }
        #[cfg(miri)]
        let _ = idx;
    }
}
