//! libFuzzer target on the public iso literal parser with the C07 oracle as the
//! crash condition (any oracle issue -> panic -> libFuzzer records the input).
#![no_main]
#![allow(dead_code)]
use libfuzzer_sys::fuzz_target;

#[path = "../../src/ast.rs"]
mod ast;
#[path = "../../src/isogen.rs"]
mod isogen;
#[path = "../../src/parse.rs"]
mod parse;
#[path = "../../src/util.rs"]
mod util;

fuzz_target!(|data: &[u8]| {
    if let Ok(text) = std::str::from_utf8(data) {
        let exported = data.len() % 5 != 0;
        let outer = if data.len() % 3 == 0 { None } else { Some(17) };
        let o = parse::check_inline(text, exported, outer);
        if let Some(i) = o.issues.first() {
            panic!("C07 ORACLE {} {}: {}", i.rule, i.cause, i.detail);
        }
    }
});
