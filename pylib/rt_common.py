"""Runtime legs of C10, C11 (dynamic half), C12 and C25: generate conforming responses by walking the
OPERATION TEXT against the schema, run the real isograph-react runtime on them in node 22
(node/runtime.mjs), decide on what the runtime reported.  Analyzers run inside e3 worker processes."""
import collections
import hashlib
import json
import os
import random
import re

import cli_common as cc
import e3
import e3_oracles as eo
import gqlref
import runner

ENV_RESPONSES = "VERIF_RT_RESPONSES"   # responses per entrypoint
ENV_SEED = "VERIF_RT_SEED"             # ctx.seed, for response randomness of checked-in projects


def configure(ctx, responses):
    os.environ[ENV_RESPONSES] = str(responses)
    os.environ[ENV_SEED] = str(ctx.seed)


def _rng(c, *labels):
    return random.Random(runner.subseed(int(os.environ.get(ENV_SEED, "1")), c.cid, *labels))


# ---------------------------------------------------------------------------
# schema helpers (gqlref.Schema)
# ---------------------------------------------------------------------------
def named_type(t):
    while t["kind"] != "NamedType":
        t = t["type"]
    return t["name"]


def var_name(vd):
    v = vd["variable"]
    return v["name"] if isinstance(v, dict) else v


def is_leaf(schema, name):
    t = schema.types.get(name)
    return t is None or t["kind"] in ("SCALAR", "ENUM")


WORDS = ["alpha", "beta", "gamma", "delta", "omega", "it's", "a b", "", "x_y", "été"]


class ResponseGen:
    """A response the server could return for an operation: walk the parsed operation text against the schema.
    index: response number for this operation; abstract positions rotate through their possible concrete types."""

    def __init__(self, schema, rng, index, null_w=0.2, min_list=0, max_list=3, share=0.25):
        self.s, self.r, self.index = schema, rng, index
        self.null_w, self.min_list, self.max_list, self.share = null_w, min_list, max_list, share
        self.ids = collections.defaultdict(list)
        self.abs_counter = 0
        self.n = 0
        self.stats = collections.Counter()
        self.node_type = None     # entrypoint of a field on a non-root type: `node(id: $id)` returns that object
        self.node_id = None
        self.node_link = None

    # -- variables -------------------------------------------------------
    def value_for_type(self, t, depth=0):
        r = self.r
        if t["kind"] == "NonNullType":
            inner = t["type"]
            return self._nn_value(inner, depth)
        if r.random() < 0.15:
            return None
        return self._nn_value(t, depth)

    def _nn_value(self, t, depth):
        r = self.r
        if t["kind"] == "ListType":
            return [self.value_for_type(t["type"], depth + 1) for _ in range(r.randint(0, 2))]
        n = t["name"]
        self.n += 1
        if n == "Int":
            return r.randint(100, 9999) * r.choice([1, 1, -1])
        if n == "Float":
            return r.choice([0.5, 12.25, -3.5, 1e21])
        if n == "String":
            return r.choice(["v%d" % self.n, "var val", "l_5", "null", ""])
        if n == "Boolean":
            return r.random() < 0.5
        if n == "ID":
            return "idv%d" % self.n
        td = self.s.types.get(n)
        if td is None:
            return "unknown%d" % self.n
        if td["kind"] == "ENUM":
            return r.choice(sorted(td["values"])) if td["values"] else "X"
        if td["kind"] == "INPUT_OBJECT":
            out = {}
            if depth > 3:
                return out
            for fn, fd in td["inputFields"].items():
                if fd["type"]["kind"] == "NonNullType" or r.random() < 0.5:
                    out[fn] = self.value_for_type(fd["type"], depth + 1)
            return out
        return "scalar%d" % self.n          # custom scalar

    def variables(self, opdef):
        out = {}
        for vd in opdef["variableDefinitions"]:
            name = var_name(vd)
            t = vd["type"]
            if t["kind"] != "NonNullType" and self.r.random() < 0.15:
                self.stats["variables_omitted"] += 1
                continue
            out[name] = self.value_for_type(t)
        return out

    # -- data --------------------------------------------------------------
    # A normalized cache assumes that one entity (same type and id; for objects without id: same parent, field and index)
    # has ONE value per (field, argument values).  Ids are deliberately shared between positions, so everything generated
    # for an entity is memoised and reproduced when the entity shows up again (record merging without contradictions).
    def operation(self, opdef, variables=None):
        self.vars = variables or {}
        self.entities = {}
        self.open = set()
        self.split_types = set()
        root = self.s.root(opdef["operation"])
        return self.obj(root, [opdef["selectionSet"]], ("root", root), top=True)

    def applies(self, concrete, cond):
        if cond is None or cond == concrete:
            return True
        return concrete in self.s.possible_types(cond)

    def collect(self, concrete, selsets, out=None):
        out = collections.OrderedDict() if out is None else out
        for ss in selsets:
            for sel in ss:
                if sel["kind"] == "Field":
                    out.setdefault(sel["alias"] or sel["name"], []).append(sel)
                elif sel["kind"] == "InlineFragment":
                    if self.applies(concrete, eo.tc_name(sel)):
                        self.stats["inline_fragments_applied"] += 1
                        self.collect(concrete, [sel["selectionSet"]], out)
                    else:
                        self.stats["inline_fragments_skipped"] += 1
        return out

    def new_id(self, concrete):
        pool = self.ids[concrete]
        if pool and self.r.random() < self.share:
            # not an entity that is being generated right now (it would contain itself with a contradicting value)
            free = [x for x in pool if ("id", concrete, x) not in self.open]
            if free:
                self.stats["ids_shared"] += 1
                return self.r.choice(free)
        v = "%s-%d" % (concrete.lower(), len(pool) + 1)
        pool.append(v)
        return v

    def arg_value(self, v):
        k = v["kind"]
        if k == "Variable":
            return self.vars.get(v["name"])
        if k == "ObjectValue":
            return {f["name"]: self.arg_value(f["value"]) for f in v["fields"]}
        if k == "ListValue":
            return [self.arg_value(x) for x in v["values"]]
        if k == "NullValue":
            return None
        return v.get("value")

    def store_key(self, f):
        return f["name"] + json.dumps([[a["name"], self.arg_value(a["value"])] for a in f["arguments"]], sort_keys=True)

    def has_id(self, concrete, fields):
        for key, fs in fields.items():
            if fs[0]["name"] == "id":
                fd = self.s.field(concrete, "id")
                return fd is not None and named_type(fd["type"]) == "ID"
        return False

    def obj(self, concrete, selsets, ek, top=False):
        fields = self.collect(concrete, selsets)
        self.stats["objects"] += 1
        memo = self.entities.setdefault(ek, {})
        if memo:
            self.stats["entity_occurrences_merged"] += 1
        out = {}
        was_open = ek in self.open
        self.open.add(ek)
        try:
            self._fill(concrete, fields, ek, memo, out, top)
        finally:
            if not was_open:
                self.open.discard(ek)
        return out

    def _fill(self, concrete, fields, ek, memo, out, top):
        for key, fs in fields.items():
            name = fs[0]["name"]
            if name == "__typename":
                out[key] = concrete
                continue
            fd = self.s.field(concrete, name)
            if fd is None:
                self.stats["fields_unknown_to_schema(see C09)"] += 1
                continue
            if name == "id" and named_type(fd["type"]) == "ID" and ek[0] == "id":
                out[key] = ek[2]
                continue
            sk = self.store_key(fs[0])
            subs = [f["selectionSet"] for f in fs if f["selectionSet"]]
            if top and name == "node" and self.node_type is not None and sk not in memo:
                poss = sorted(self.s.possible_types(self.node_type))
                if poss:
                    ct = poss[self.index % len(poss)]
                    self.ids[ct].append(self.node_id)
                    self.node_link = {"__link": self.node_id, "__typename": ct}
                    memo[sk] = {"t": ct, "id": self.node_id}
                    self.stats["node_roots"] += 1
            if sk in memo:
                self.stats["entity_fields_reproduced"] += 1
                out[key] = self.reproduce(memo[sk], subs, (ek, sk))
            else:
                val, skel = self.complete(fd["type"], subs, (ek, sk))
                memo[sk] = skel
                out[key] = val
        return out

    def child(self, concrete, subs, pk, skel=None):
        """Object of concrete type at parent position pk -> (value, skeleton). skel: the object as it was generated at
        another position of the same entity."""
        fields = self.collect(concrete, subs)
        forced_id = skel["id"] if skel is not None else None
        if self.has_id(concrete, fields):
            cid = forced_id if forced_id is not None else self.new_id(concrete)
            if skel is not None and forced_id is None:
                # the other position did not select id (abstract parent type): there the object is keyed by its path,
                # here by its id -- the store will hold two records for it
                self.split_types.add(concrete)
                self.stats["objects_keyed_by_path_at_one_position_and_by_id_at_another"] += 1
                skel["id"] = cid
            return self.obj(concrete, subs, ("id", concrete, cid)), {"t": concrete, "id": cid}
        if forced_id is not None:
            self.split_types.add(concrete)
            self.stats["objects_keyed_by_path_at_one_position_and_by_id_at_another"] += 1
        return self.obj(concrete, subs, ("path", concrete) + tuple(pk)), {"t": concrete, "id": None}

    def reproduce(self, skel, subs, pk):
        if skel is None:
            return None
        if isinstance(skel, list):
            return [self.reproduce(x, subs, pk + (i,)) for i, x in enumerate(skel)]
        if isinstance(skel, dict) and "t" in skel:
            return self.child(skel["t"], subs, pk, skel=skel)[0]
        return skel["v"]

    def complete(self, t, subs, pk, nonnull=False):
        r = self.r
        if t["kind"] == "NonNullType":
            return self.complete(t["type"], subs, pk, True)
        if not nonnull and r.random() < self.null_w:
            self.stats["nulls"] += 1
            return None, None
        if t["kind"] == "ListType":
            n = r.randint(self.min_list, self.max_list)
            self.stats["lists"] += 1
            self.stats["list_len_%d" % n] += 1
            pairs = [self.complete(t["type"], subs, pk + (i,)) for i in range(n)]
            return [p[0] for p in pairs], [p[1] for p in pairs]
        n = t["name"]
        if is_leaf(self.s, n):
            v = self.leaf(n)
            return v, {"v": v}
        poss = sorted(self.s.possible_types(n))
        if not poss:
            self.stats["abstract_without_possible_types"] += 1
            return None, None
        if len(poss) > 1 or self.s.types[n]["kind"] != "OBJECT":
            concrete = poss[(self.index + self.abs_counter) % len(poss)]
            self.abs_counter += 1
            self.stats["abstract_positions"] += 1
            self.stats["typename:" + concrete] += 1
        else:
            concrete = poss[0]
        return self.child(concrete, subs, pk)

    def leaf(self, n):
        r = self.r
        self.n += 1
        if n == "Int":
            return r.randint(-50, 1000)
        if n == "Float":
            return r.choice([0.5, 1.25, 3.0, -7.75])
        if n == "String":
            return r.choice(WORDS) + str(self.n % 7)
        if n == "Boolean":
            return r.random() < 0.5
        if n == "ID":
            return "ref%d" % self.n
        td = self.s.types.get(n)
        if td is not None and td["kind"] == "ENUM" and td["values"]:
            return r.choice(sorted(td["values"]))
        return "scalar-%d" % self.n


# ---------------------------------------------------------------------------
# project facts the artifacts do not carry
# ---------------------------------------------------------------------------
POINTER_RE = re.compile(r"\bpointer\s+(\w+)\s*\.\s*(\w+)\s*(?:\([^)]*\))?\s*to\s+([\[\]!\sA-Za-z0-9_]+?)\s*(?:@|\"\"\"|\{)")


def pointer_decls(root):
    """{'Parent/name': {'list': bool, 'target': T}} from the iso literals in the project's sources."""
    cfg = cc.read_config(root)
    src = os.path.normpath(os.path.join(root, cfg["project_root"]))
    out = {}
    for d, dirs, files in os.walk(src):
        dirs[:] = [x for x in dirs if x not in ("__isograph", "node_modules")]
        for f in files:
            if not f.endswith((".ts", ".tsx", ".js", ".jsx")):
                continue
            try:
                with open(os.path.join(d, f), errors="replace") as fh:
                    text = fh.read()
            except OSError:
                continue
            if "pointer" not in text:
                continue
            for m in POINTER_RE.finditer(text):
                t = m.group(3)
                out["%s/%s" % (m.group(1), m.group(2))] = {"list": "[" in t, "target": re.sub(r"[\[\]!\s]", "", t)}
    return out


EXPOSE_RE = re.compile(r"extend\s+type\s+(\w+)((?:\s*(?:#[^\n]*\n\s*)*@exposeField\s*\((?:[^()]|\([^()]*\))*\))+)", re.S)
DIRECTIVE_RE = re.compile(r"@exposeField\s*\(((?:[^()]|\([^()]*\))*)\)", re.S)


def exposed_fields(schema_texts):
    """{exposed name: {'root': type extended, 'path': [...], 'field_map': [(from, to)]}} from @exposeField directives."""
    out = {}
    for text in schema_texts:
        for m in EXPOSE_RE.finditer(text):
            root = m.group(1)
            for d in DIRECTIVE_RE.finditer(m.group(2)):
                body = d.group(1)
                f = re.search(r"\bfield\s*:\s*\"([^\"]+)\"", body)
                if not f:
                    continue
                path = f.group(1).split(".")
                a = re.search(r"\bas\s*:\s*\"([^\"]+)\"", body)
                fm = re.findall(r"from\s*:\s*\"([^\"]+)\"\s*,?\s*to\s*:\s*\"([^\"]+)\"", body)
                out[a.group(1) if a else path[0]] = {"root": root, "path": path, "field_map": fm}
    return out


# ---------------------------------------------------------------------------
# one node run per compiled case
# ---------------------------------------------------------------------------
def parse_op(text):
    doc = gqlref.parse_executable(text)
    ops = [d for d in doc["definitions"] if d["kind"] == "OperationDefinition"]
    return ops[0]


def run_runtime(c, invoke=False, want_keys=True, null_w=0.2, min_list=0, max_list=3, share=0.25, label="rt"):
    """Returns {'schema','ops','cases','out','gen_stats'} or None when the case did not compile. Cached per parameters."""
    cache = getattr(c, "_rt_cache", None)
    if cache is None:
        cache = c._rt_cache = {}
    ck = (invoke, want_keys, null_w, min_list, max_list, share)
    if ck in cache:
        return cache[ck]
    if not c.result.ok() or c.model is None:
        cache[ck] = None
        return None
    if not os.path.exists(runner.NODE):
        raise runner.Inconclusive(f"node 22 not found at {runner.NODE}")
    schema = eo.build_ref_schema(c)
    k = int(os.environ.get(ENV_RESPONSES, "3"))
    ops, job_eps, cases, gen_stats = {}, {}, {}, collections.Counter()
    for key, e in sorted(c.model["entrypoints"].items()):
        text = eo.op_text(c, e["operation"])
        if text is None:
            gen_stats["entrypoints_without_operation_text"] += 1
            continue
        try:
            opdef = parse_op(text)
        except (gqlref.GraphQLSyntaxError, IndexError):
            gen_stats["unparsable_operation(see C09)"] += 1
            continue
        if schema.root(opdef["operation"]) is None:
            gen_stats["operation_without_root_type"] += 1
            continue
        ops[key] = {"text": text, "opdef": opdef}
        lst = []
        for i in range(k):
            g = ResponseGen(schema, _rng(c, label, key, i), i, null_w=null_w if i else 0.0, min_list=max(min_list, 1 if i == 0 else min_list),
                            max_list=max_list, share=share)
            variables = g.variables(opdef)
            parent_type = key.split("/")[0]
            if parent_type != schema.root(opdef["operation"]) and "id" in variables and parent_type in schema.types:
                g.node_type, g.node_id = parent_type, str(variables["id"])
            resp = g.operation(opdef, variables)
            gen_stats.update(g.stats)
            lst.append({"tag": i, "variables": variables, "response": resp, "root": g.node_link, "split_types": sorted(g.split_types)})
        cases[key] = lst
        job_eps[key] = {"cases": lst, "variableNames": op_var_names(opdef)}
    poss = {}
    for pk, info in pointer_decls(c.root).items():
        poss[pk] = {"list": info["list"], "possible": sorted(schema.possible_types(info["target"])) or None}
    refetch_args = {}
    for name, ex in exposed_fields(c.schema_texts).items():
        for _from, to in ex["field_map"]:
            parts = to.split(".")
            if len(parts) > 1:       # the mapped id goes inside an input object: the caller passes the rest of that object
                refetch_args.setdefault(name, {})[parts[0]] = {"marker": "arg:" + parts[0]}
    job = {"artifactDir": c.artifact_dir(), "allEntrypoints": sorted(c.model["entrypoints"]), "entrypoints": job_eps,
           "pointers": poss, "wantKeys": want_keys, "invoke": invoke, "loadableArgs": {}, "refetchArgs": refetch_args}
    jf, of = os.path.join(c.root, ".rt_job.json"), os.path.join(c.root, ".rt_out.json")
    with open(jf, "w") as f:
        json.dump(job, f)
    rc, out, err = runner.sh([runner.NODE, "--no-warnings", os.path.join(runner.VERIF, "node", "runtime.mjs"), jf, of], timeout=900)
    if rc != 0 or not os.path.exists(of):
        raise runner.Inconclusive("runtime.mjs failed for %s: %s" % (c.cid, (err or out)[-600:]))
    with open(of) as f:
        res = json.load(f)
    for p in (jf, of):
        try:
            os.remove(p)
        except OSError:
            pass
    r = {"schema": schema, "ops": ops, "cases": cases, "out": res, "gen_stats": gen_stats, "pointers": poss}
    cache[ck] = r
    return r


def _h(*parts):
    return hashlib.sha1(json.dumps(parts, sort_keys=True, default=str).encode()).hexdigest()[:12]


def shape(v):
    """Shape of a response (keys, list lengths, nulls, typenames) for distinctness."""
    if isinstance(v, dict):
        return {k: (v[k] if k == "__typename" else shape(v[k])) for k in sorted(v)}
    if isinstance(v, list):
        return [shape(x) for x in v]
    return None if v is None else 0


# ---------------------------------------------------------------------------
# C10
# ---------------------------------------------------------------------------
REASON_RE = re.compile(r"^(No value for|No link for|Missing data for|No record for root) ?(.*?)(?: on root (.*?))?(?:\. Link is .*)?$", re.S)


SPLIT = "object-normalized-into-an-id-keyed-and-a-path-keyed-record"


def classify_missing(ev, schema=None, split_types=()):
    """(kind, cause, key): cause names the mechanism, not the case."""
    reasons = ev.get("reasons") or []
    inner = reasons[-1] if reasons else ""
    m = REASON_RE.match(inner)
    kind = {"No value for": "no-value", "No link for": "no-link", "No record for root": "no-record"}.get(m.group(1) if m else "", "other")
    key = (m.group(2) if m else "") or ""
    fname = key.split("____")[0]
    rk = ev.get("recordKeys") or []
    link = ev.get("recordLink") or {}
    same_field = [x for x in rk if x == fname or x.startswith(fname + "____")]
    tdef = schema.types.get(link.get("__typename")) if schema is not None else None
    path_keyed = bool(re.match(r"^[A-Za-z_][A-Za-z0-9_]*:.*\.", str(link.get("__link"))))
    if kind == "no-record":
        cause = "record-absent"
    elif (path_keyed and tdef is not None and "id" in tdef.get("fields", {}) and "id" not in rk) or link.get("__typename") in split_types:
        # one object of the response was written from a position whose selection did not include id (abstract parent type
        # without id field) and from a position that did: two records, the parent's link points to the one written last
        cause = SPLIT
    elif same_field:
        if "___null" in key and not any("___null" in x for x in same_field):
            cause = "argument-read-as-null-but-stored-with-a-value"
        elif "{" in key:
            cause = "object-argument-stringified-differently"
        else:
            cause = "same-field-stored-under-other-arguments"
    else:
        cause = "field-absent-from-record"
    return kind, cause, key


def analyze_c10(c, spec):
    out = {"violations": [], "stats": {}, "nontrivial": False, "sample": None, "distinct": []}
    rt = run_runtime(c)
    if rt is None:
        return out
    stats = collections.Counter()
    stats.update({"gen:" + k: v for k, v in rt["gen_stats"].items()})
    res = rt["out"]
    for e in res.get("errors", []):
        stats["module_load_errors(see C13)"] += 1
    stats["pointer_resolver_calls"] += res["stats"]["pointerResolverCalls"]
    stats["pointer_links_returned"] += res["stats"]["pointerLinksReturned"]
    for key, er in sorted(res["entrypoints"].items()):
        if er.get("loadError"):
            stats["entrypoints_not_loaded"] += 1
            out["violations"].append({"rule": "load", "signature": "C10/entrypoint-artifact-does-not-load",
                                      "what": f"{c.cid} {key}: {er['loadError'][:200]}", "witness": {"case": c.describe(), "replay": c.replay()}})
            continue
        stats["entrypoints_read"] += 1
        for cs, given in zip(er["cases"], rt["cases"][key]):
            stats["responses_generated"] += 1
            nm, rd = cs["normalize"], cs["read"]
            wit = {"case": c.describe(), "replay": c.replay(), "entrypoint": key, "operation": rt["ops"][key]["text"][:2500],
                   "variables": given["variables"], "response": json.dumps(given["response"])[:3000]}
            if not nm["ok"]:
                stats["normalize_threw"] += 1
                msg = (nm["error"] or {}).get("message", "")
                out["violations"].append({"rule": "normalize-threw", "signature": "C10/normalize-threw/" + e3.shape_of_error(msg)[:60],
                                          "what": f"{c.cid} {key}: normalizeData threw: {msg[:200]}", "witness": wit})
                continue
            stats["responses_normalized"] += 1
            stats["records_normalized"] += nm["records"]
            stats["record_fields_written"] += nm["fields"]
            stats["response_objects"] += nm["objects"]
            if rd is None:
                continue
            stats["reads_done"] += 1
            for ev in rd["events"]:
                stats["event:%s:%s" % (ev["kind"], ev.get("response", ""))] += 1
            missing = [ev for ev in rd["events"] if ev["kind"] == "DoneReading" and ev.get("response") == "MissingData"]
            if missing:
                kind, cause, skey = classify_missing(missing[0], rt["schema"], given.get("split_types") or ())
                wit["events"] = missing[:2]
                sig = f"C10/MissingData/{cause}" if cause == SPLIT else f"C10/MissingData/{kind}/{cause}"
                out["violations"].append({"rule": "missing-data", "signature": sig,
                                          "what": f"{c.cid} {key}: reading after normalizing a conforming response reports "
                                                  f"MissingData: {' <- '.join(missing[0]['reasons'][-2:])[:300]}", "witness": wit})
                stats["reads_missing_data"] += 1
                continue
            if not rd["ok"]:
                th = rd.get("thrown") or {}
                stats["reads_threw"] += 1
                wit["thrown"] = th
                out["violations"].append({"rule": "read-threw", "signature": "C10/read-threw/" + (th.get("kind") or "?") + "/" + e3.shape_of_error(th.get("message") or "")[:60],
                                          "what": f"{c.cid} {key}: readButDoNotEvaluate threw {th.get('kind')}: {(th.get('message') or '')[:200]}", "witness": wit})
                continue
            stats["reads_success"] += 1
            cn = rd["counters"] or {}
            for k2, v in cn.items():
                stats["read:" + k2] += v
            if rd.get("walkError"):
                stats["walk_errors"] += 1
            if nm["records"] >= 2 and (cn.get("resolverNodes", 0) > 0 or cn.get("linkedRead", 0) > 0):
                out["nontrivial"] = True
                out["distinct"].append(_h(rt["ops"][key]["text"], shape(given["response"])))
                if out["sample"] is None and c.kind == "generated" and cn.get("resolverNodes", 0) > 0:
                    out["sample"] = {"case": c.describe(), "entrypoint": key, "operation": rt["ops"][key]["text"][:400],
                                     "variables": given["variables"], "response": json.dumps(given["response"])[:400],
                                     "records_normalized": nm["records"], "read_counters": cn}
    out["stats"] = dict(stats)
    return out


# ---------------------------------------------------------------------------
# C11 dynamic: the runtime normalizes every returned field and looks up nothing else
# ---------------------------------------------------------------------------
def analyze_c11_dynamic(c, spec):
    out = {"violations": [], "stats": {}, "nontrivial": False, "sample": None, "distinct": []}
    rt = run_runtime(c)
    if rt is None:
        return out
    stats = collections.Counter()
    for key, er in sorted(rt["out"]["entrypoints"].items()):
        if er.get("loadError"):
            continue
        for cs, given in zip(er["cases"], rt["cases"][key]):
            nm = cs["normalize"]
            if not nm["ok"]:
                stats["normalize_threw(see C10)"] += 1
                continue
            stats["responses_normalized"] += 1
            stats["response_objects"] += nm["objects"]
            stats["keys_present"] += nm["keysPresent"]
            stats["keys_looked_up_and_present"] += nm["keysLooked"]
            stats["intrinsic_lookups(id/__typename not requested)"] += nm["intrinsicLookups"]
            if nm["objects"] >= 2:
                out["nontrivial"] = True
                out["distinct"].append(_h(rt["ops"][key]["text"], shape(given["response"])))
            for mm in nm["mismatches"]:
                wit = {"case": c.describe(), "replay": c.replay(), "entrypoint": key, "operation": rt["ops"][key]["text"][:2500],
                       "mismatch": mm, "variables": given["variables"]}
                fn_ = lambda ks: sorted(k_.split("____")[0] for k_ in ks)
                if mm["notLooked"] and mm["notRequested"] and fn_(mm["notLooked"]) == fn_(mm["notRequested"]):
                    # same fields on both sides: operation and runtime disagree about the KEY of a field (C12's subject)
                    stats["objects_with_key_disagreement(see C12)"] += 1
                    out["violations"].append({"rule": "key-disagreement", "signature": "C11dyn/looks-up-a-field-under-another-key-than-the-operation-requests(see C12)",
                                              "what": f"{c.cid} {key}: at {mm['path'] or '<root>'} the response has {mm['notLooked'][:2]}, normalizeData looked up {mm['notRequested'][:2]}",
                                              "witness": wit})
                    continue
                if mm["notLooked"]:
                    stats["returned_keys_never_looked_up"] += len(mm["notLooked"])
                    kind = "with-arguments" if any("____" in x for x in mm["notLooked"]) else "plain"
                    out["violations"].append({"rule": "not-normalized", "signature": f"C11dyn/does-not-normalize-returned-field/{kind}",
                                              "what": f"{c.cid} {key}: normalizeData never looked up returned key(s) {mm['notLooked'][:3]} at {mm['path'] or '<root>'}",
                                              "witness": wit})
                if mm["notRequested"]:
                    stats["lookups_of_unrequested_keys"] += len(mm["notRequested"])
                    kind = "with-arguments" if any("____" in x for x in mm["notRequested"]) else "plain"
                    out["violations"].append({"rule": "unrequested-lookup", "signature": f"C11dyn/looks-for-field-the-operation-did-not-request/{kind}",
                                              "what": f"{c.cid} {key}: normalizeData looked up {mm['notRequested'][:3]} at {mm['path'] or '<root>'}, not in the response (keys {mm['present'][:6]})",
                                              "witness": wit})
    out["stats"] = dict(stats)
    return out


# ---------------------------------------------------------------------------
# C12 dynamic: the key the runtime computes for a normalization AST node == the alias in the operation
# ---------------------------------------------------------------------------
def _str_detail(args_canon):
    det = set()

    def walk(v):
        if v[0] == "str":
            s = v[1]
            if "\\" in s:
                det.add("backslash")
            elif any(ord(ch) > 0xFFFF for ch in s):
                det.add("non-bmp")
            elif any(ord(ch) > 127 for ch in s):
                det.add("non-ascii")
            elif re.search(r"[^A-Za-z0-9_]", s):
                det.add("ascii-punctuation")
            else:
                det.add("word")
        elif v[0] == "obj":
            for _k, x in v[1]:
                walk(x)
        elif v[0] == "lit":
            if re.match(r"^-?\d+$", v[1]):
                det.add("literal:int-outside-js-safe-range" if abs(int(v[1])) > 2 ** 53 - 1 else "literal:int")
            else:
                det.add("literal:" + v[1])
        else:
            det.add(v[0])
    for _n, v in args_canon:
        walk(v)
    return "+".join(sorted(det))


def _has_escape(v):
    k = v.get("kind")
    if k == "StringValue":
        return "\\" in (v.get("raw") or "")
    if k == "ObjectValue":
        return any(_has_escape(f["value"]) for f in v["fields"])
    if k == "ListValue":
        return any(_has_escape(x) for x in v["values"])
    return False


def js_int_str(n):
    """String(n) in JavaScript for an integer literal n (a double)."""
    r = repr(float(n))
    neg = r.startswith("-")
    r = r.lstrip("-")
    if "e" in r:
        mant, exp = r.split("e")
        digits = mant.replace(".", "")
        r = digits + "0" * (int(exp) - (len(mant.split(".")[0]) - 1) - (len(digits) - len(mant.split(".")[0])))
    elif r.endswith(".0"):
        r = r[:-2]
    return ("-" if neg else "") + r


def js_round(v):
    if isinstance(v, list):
        if len(v) == 2 and v[0] == "lit" and isinstance(v[1], str) and re.match(r"^-?\d+$", v[1]) and abs(int(v[1])) > 2 ** 53 - 1:
            return ["lit", js_int_str(int(v[1]))]
        return [js_round(x) for x in v]
    return v


def key_cause(canon, want, got, escapes=None):
    """Cause of a key disagreement, confirmed against the two keys (not merely present in the argument list)."""
    got1 = got[0] if isinstance(got, list) and len(got) == 1 and isinstance(got[0], str) else None
    if got1 is not None:
        def js(m):
            n = int(m.group(1).replace("n", "-"))
            return "l_" + js_int_str(n).replace("-", "n") if abs(n) > 2 ** 53 - 1 else m.group(0)
        if re.sub(r"l_(n?\d+)", js, str(want)) == got1 and str(want) != got1:
            return "literal:int-outside-js-safe-range"
    if escapes is not None and any(escapes):
        return "string-escape-sequence"
    return _str_detail(canon)


def compare_keys(c, where, op_sels, ast_nodes, out, stats, text):
    amap = {}
    for n in ast_nodes:
        if n["kind"] == "InlineFragment":
            amap.setdefault(("I", n["type"]), n)
        else:
            amap.setdefault(("F", n["fieldName"], json.dumps(eo.canon_args_ast(n.get("arguments")))), n)
    for s in op_sels:
        if s["kind"] == "InlineFragment":
            n = amap.get(("I", eo.tc_name(s)))
            if n is not None:
                compare_keys(c, where, s["selectionSet"], n["selections"], out, stats, text)
            continue
        if s["kind"] != "Field":
            continue
        canon = eo.canon_args_gql(s["arguments"])
        n = amap.get(("F", s["name"], json.dumps(canon)))
        if n is None:
            # integer literals beyond 2^53 reach us through JavaScript numbers: match the rounded form
            n = amap.get(("F", s["name"], json.dumps(js_round(canon))))
            if n is not None:
                stats["ast_nodes_matched_after_js_rounding_of_big_integers"] += 1
        if n is None:
            stats["operation_fields_without_ast_node(see C11)"] += 1
            continue
        want = s["alias"] or s["name"]
        stats["keys_compared"] += 1
        if s["arguments"]:
            stats["keys_compared_with_arguments"] += 1
            out["keys"].append(want)
        got = n.get("keys")
        if got != [want]:
            stats["keys_differ"] += 1
            out["violations"].append({"rule": "runtime-key", "signature": "C12/runtime-key-differs-from-operation-alias/" + key_cause(canon, want, got, [_has_escape(a_["value"]) for a_ in s["arguments"]]),
                                      "what": f"{c.cid} {where}: for {s['name']}({gqlref.print_value({'kind': 'ObjectValue', 'fields': [{'name': a['name'], 'value': a['value']} for a in s['arguments']]})}) "
                                              f"the operation uses key {want!r}, the runtime looks up {got!r}",
                                      "witness": {"case": c.describe(), "replay": c.replay(), "where": where, "field": s["name"],
                                                  "arguments": canon, "operation_key": want, "runtime_keys": got, "ast_arguments": n.get("arguments"),
                                                  "operation": text[:1500]}})
        if s["selectionSet"] and n.get("selections") is not None:
            compare_keys(c, where, s["selectionSet"], n["selections"], out, stats, text)


def analyze_c12_dynamic(c, spec):
    out = {"violations": [], "stats": {}, "nontrivial": False, "sample": None, "keys": []}
    rt = run_runtime(c)
    if rt is None:
        return out
    stats = collections.Counter()
    for key, er in sorted(rt["out"]["entrypoints"].items()):
        if er.get("loadError") or er.get("astKeys") is None or key not in rt["ops"]:
            continue
        compare_keys(c, key + "/entrypoint", rt["ops"][key]["opdef"]["selectionSet"], er["astKeys"], out, stats, rt["ops"][key]["text"])
        stats["operations_compared"] += 1
        nested = c.model["entrypoints"][key]["nestedRefetchQueries"]
        for i, (n, ak) in enumerate(zip(nested, er.get("refetchAstKeys") or [])):
            text = eo.op_text(c, n["operation"])
            if text is None:
                continue
            try:
                opdef = parse_op(text)
            except (gqlref.GraphQLSyntaxError, IndexError):
                continue
            compare_keys(c, f"{key}/__refetch__{i}", opdef["selectionSet"], ak, out, stats, text)
            stats["operations_compared"] += 1
            stats["refetch_operations_compared"] += 1
    out["stats"] = dict(stats)
    out["nontrivial"] = stats["keys_compared_with_arguments"] > 0
    if out["nontrivial"] and c.kind == "generated":
        out["sample"] = {"case": c.describe(), "keys_compared": stats["keys_compared"], "with_arguments": stats["keys_compared_with_arguments"],
                         "some_keys": sorted(set(out["keys"]))[:6]}
    return out


# ---------------------------------------------------------------------------
# C12 micro-workload: argument lists -> runtime key (synthetic AST node) vs compiler alias (generated program)
# ---------------------------------------------------------------------------
def ast_value(v):
    """isogen value -> the ArgumentValue the compiler puts in a normalization AST (written independently of it)."""
    k = v[0]
    if k == "var":
        return {"kind": "Variable", "name": v[1]}
    if k == "str":
        # ... and verbatim into a JavaScript string literal
        return {"kind": "String", "value": json.loads('"' + v[1].replace("\t", "\\t") + '"') if "\\" in v[1] else v[1]}
    if k == "int":
        return {"kind": "Literal", "value": v[1]}
    if k == "bool":
        return {"kind": "Literal", "value": v[1]}
    if k == "null":
        return {"kind": "Literal", "value": None}
    if k == "enum":
        return {"kind": "Enum", "value": v[1]}
    if k == "obj":
        return {"kind": "Object", "value": [[a, ast_value(b)] for a, b in v[1]]}
    raise ValueError(v)


def canon_isogen(v):
    k = v[0]
    if k == "var":
        return ["var", v[1]]
    if k == "str":
        # the compiler writes the iso string literal verbatim into the GraphQL text: the value is what GraphQL makes of it
        return ["str", gqlref._cook_string(v[1]) if "\\" in v[1] else v[1]]
    if k == "int":
        return ["lit", json.dumps(v[1])]
    if k == "bool":
        return ["lit", "true" if v[1] else "false"]
    if k == "null":
        return ["lit", "null"]
    if k == "enum":
        return ["enum", v[1]]
    return ["obj", [[a, canon_isogen(b)] for a, b in v[1]]]


def _iso_has_escape(v):
    if v[0] == "str":
        return "\\" in v[1]
    if v[0] == "obj":
        return any(_iso_has_escape(b) for _a, b in v[1])
    return False


def analyze_c12_micro(c, spec):
    """For the Probe field of an `args` program: each argument list the generator wrote -> (a) alias printed by the compiler
    in the operation, (b) key the real runtime computes for a synthetic normalization node built from the list."""
    out = {"violations": [], "stats": {}, "nontrivial": False, "sample": None, "lists": []}
    if not c.result.ok() or c.model is None or c.project is None or not getattr(c.project, "arg_lists", None):
        return out
    stats = collections.Counter()
    e = c.model["entrypoints"].get("Query/Probe")
    if e is None:
        return out
    text = eo.op_text(c, e["operation"])
    try:
        opdef = parse_op(text)
    except (gqlref.GraphQLSyntaxError, IndexError, TypeError):
        stats["unparsable_operation(see C09)"] += 1
        out["stats"] = dict(stats)
        return out
    by_args = {}

    def walk(sels):
        for s in sels:
            if s["kind"] == "Field":
                if s["name"] == "probe":
                    by_args.setdefault(json.dumps(eo.canon_args_gql(s["arguments"])), set()).add(s["alias"] or s["name"])
                if s["selectionSet"]:
                    walk(s["selectionSet"])
            elif s["kind"] == "InlineFragment":
                walk(s["selectionSet"])
    walk(opdef["selectionSet"])
    lists = c.project.arg_lists
    nodes = [{"kind": "Scalar", "fieldName": "probe", "arguments": [[a, ast_value(v)] for a, v in lst] or None} for lst in lists]
    jf, of = os.path.join(c.root, ".rt_kjob.json"), os.path.join(c.root, ".rt_kout.json")
    with open(jf, "w") as f:
        json.dump({"keyNodes": nodes}, f)
    rc, so, err = runner.sh([runner.NODE, "--no-warnings", os.path.join(runner.VERIF, "node", "runtime.mjs"), jf, of], timeout=600)
    if rc != 0:
        raise runner.Inconclusive("runtime.mjs (keys) failed: " + (err or so)[-400:])
    with open(of) as f:
        keys = json.load(f)["keys"]
    os.remove(jf)
    os.remove(of)
    for lst, k in zip(lists, keys):
        canon = [[a, canon_isogen(v)] for a, v in lst]
        stats["argument_lists"] += 1
        aliases = by_args.get(json.dumps(canon))
        if not lst:
            continue
        if aliases is None:
            stats["argument_lists_not_found_in_operation"] += 1
            continue
        out["lists"].append(_h(canon))
        stats["argument_lists_compared"] += 1
        got = k.get("keys")
        if len(aliases) != 1:
            stats["argument_lists_with_several_aliases"] += 1
        if got is None or [a for a in aliases] != got:
            cause = key_cause(canon, sorted(aliases)[0], got, [_iso_has_escape(v) for _a, v in lst])
            out["violations"].append({"rule": "runtime-key", "signature": "C12/runtime-key-differs-from-operation-alias/" + cause,
                                      "what": f"{c.cid}: probe{json.dumps(canon)[:160]}: compiler alias {sorted(aliases)}, runtime key {got}",
                                      "witness": {"case": c.describe(), "replay": c.replay(), "arguments": canon, "compiler_alias": sorted(aliases),
                                                  "runtime": k}})
    out["stats"] = dict(stats)
    out["nontrivial"] = stats["argument_lists_compared"] > 0
    out["sample"] = {"case": c.describe(), "argument_lists_compared": stats["argument_lists_compared"],
                     "example": [[a, iv] for a, iv in (lists[0] if lists else [])][:3]}
    return out


# ---------------------------------------------------------------------------
# C25
# ---------------------------------------------------------------------------
UNKNOWN = ["unknown"]


def subst(v, varmap):
    if v[0] == "var":
        if varmap is None:
            return v
        return varmap.get(v[1], ["lit", "null"])
    if v[0] == "obj":
        return ["obj", [[k, subst(x, varmap)] for k, x in v[1]]]
    return v


def subst_args(args, varmap):
    return [[n, subst(eo.canon_ast(v), varmap)] for n, v in (args or [])]


def match_value(a, b):
    if a == UNKNOWN or b == UNKNOWN:
        return True
    if a[0] == "obj" and b[0] == "obj":
        if len(a[1]) != len(b[1]):
            return False
        return all(x[0] == y[0] and match_value(x[1], y[1]) for x, y in zip(a[1], b[1]))
    return a == b


def match_args(a, b):
    return len(a) == len(b) and all(x[0] == y[0] and match_value(x[1], y[1]) for x, y in zip(a, b))


def canon_tree(sels):
    """Canonical, alias-free form of a selection set: sorted list of entries."""
    out = {}

    def add(sels, prefix):
        for s in sels:
            if s["kind"] == "Field":
                k = json.dumps(["F", s["name"], eo.canon_args_gql(s["arguments"])])
                sub = out.setdefault(prefix + k, [])
                if s["selectionSet"]:
                    sub.append(s["selectionSet"])
            elif s["kind"] == "InlineFragment":
                k = json.dumps(["I", eo.tc_name(s)])
                out.setdefault(prefix + k, []).append(s["selectionSet"])
    add(sels, "")
    res = []
    for k in sorted(out):
        subs = out[k]
        merged = [x for ss in subs for x in ss]
        res.append([json.loads(k), canon_tree(merged) if subs else None])
    return res


def strip_typename(tree):
    return [e for e in tree if not (e[0][0] == "F" and e[0][1] == "__typename")]


def locate(selection_sets, steps):
    """Follow steps [('F', name, args) | ('I', type)] from a list of selection sets. Returns list of selection sets or None."""
    cur = selection_sets
    for st in steps:
        nxt = []
        for ss in cur:
            for s in ss:
                if st[0] == "F" and s["kind"] == "Field" and s["name"] == st[1] and s["selectionSet"] \
                        and match_args(eo.canon_args_gql(s["arguments"]), st[2]):
                    nxt.append(s["selectionSet"])
                elif st[0] == "I" and s["kind"] == "InlineFragment" and eo.tc_name(s) == st[1]:
                    nxt.append(s["selectionSet"])
        if not nxt:
            return None
        cur = nxt
    return cur


class Refetchable:
    __slots__ = ("kind", "name", "path", "entry_index", "local_index", "steps", "base", "varmap", "node", "oor", "under_pointer", "index_map")


def entry_varmap(opdef):
    return {var_name(vd): ["var", var_name(vd)] for vd in opdef["variableDefinitions"]}


def unwrap_refetch(opdef, schema, kind, exposed, refined_from=None):
    """Returns (inner selection sets, description of the wrapper) or (None, why)."""
    sels = [s for s in opdef["selectionSet"] if not (s["kind"] == "Field" and s["name"] == "__typename")]
    if len(sels) != 1 or sels[0]["kind"] != "Field":
        return None, "top level is not a single field"
    top = sels[0]
    if exposed is None:
        if top["name"] != "node":
            return None, f"top-level field is {top['name']}, expected node"
        if eo.canon_args_gql(top["arguments"]) != [["id", ["var", "id"]]]:
            return None, "node is not selected with (id: $id)"
        inner = [s for s in (top["selectionSet"] or []) if not (s["kind"] == "Field" and s["name"] in ("__typename", "id"))]
        if len(inner) != 1 or inner[0]["kind"] != "InlineFragment":
            return None, "node { ... } does not consist of a single inline fragment"
        return ([inner[0]["selectionSet"]], {"type": eo.tc_name(inner[0])}), None
    path = exposed["path"]
    if top["name"] != path[0]:
        return None, f"top-level field is {top['name']}, expected {path[0]}"
    for a in top["arguments"]:
        if a["value"]["kind"] != "Variable" or a["value"]["name"] != a["name"]:
            return None, "exposed field argument is not passed as the variable of the same name"
    cur = top["selectionSet"] or []
    for part in path[1:]:
        nxt = None
        for s in cur:
            if s["kind"] == "Field" and s["name"] == part:
                nxt = s["selectionSet"] or []
            elif s["kind"] == "InlineFragment" and part.startswith("as") and eo.tc_name(s) == part[2:]:
                nxt = s["selectionSet"]
        if nxt is None:
            return None, f"exposed path segment {part} not found"
        cur = nxt
    rest = [s for s in cur if not (s["kind"] == "Field" and s["name"] in ("__typename",))]
    if len(rest) == 1 and rest[0]["kind"] == "InlineFragment" and not any(s["kind"] == "Field" and s["name"] == "id" for s in cur):
        return ([rest[0]["selectionSet"]], {"type": eo.tc_name(rest[0])}), None
    return ([cur], {"type": None}), None


def op_var_names(opdef):
    return [var_name(vd) for vd in opdef["variableDefinitions"]]


def analyze_c25(c, spec):
    out = {"violations": [], "stats": {}, "nontrivial": False, "sample": None, "distinct": []}
    if not c.result.ok() or c.model is None:
        return out
    rt = run_runtime(c, invoke=True, want_keys=False, null_w=0.05, min_list=1, max_list=2, share=0.0)
    stats = collections.Counter()
    schema = rt["schema"]
    exposed = exposed_fields(c.schema_texts)
    model = c.model

    def viol(rule, sig, what, wit):
        w = {"case": c.describe(), "replay": c.replay()}
        w.update(wit)
        out["violations"].append({"rule": rule, "signature": "C25/" + sig, "what": f"{c.cid} {what}"[:500], "witness": w})

    reuse = collections.Counter()     # (reader id of the field that holds the refetchable) -> positions
    for key, e in sorted(model["entrypoints"].items()):
        if key not in rt["ops"]:
            continue
        entry_parent = key.split("/")[0]
        opdef = rt["ops"][key]["opdef"]
        found = []
        vm = entry_varmap(opdef)
        # The variables in scope at the entrypoint are the variables its client field DECLARES; the operation declares
        # only those it uses itself. A variable used only below a client pointer is declared by the pointer's refetch
        # query, not by the entrypoint's operation (declaring it there would be an unused variable, see C09).
        if c.project is not None:
            d = c.project.decl(key.replace("/", ".", 1))
            for n, _t, _dv in (d.variables if d is not None else []):
                vm.setdefault(n, ["var", n])
        else:
            for n in e["nestedRefetchQueries"]:
                t = eo.op_text(c, n["operation"])
                try:
                    ro = parse_op(t) if t is not None else None
                except (gqlref.GraphQLSyntaxError, IndexError):
                    ro = None
                if ro is not None and n.get("kind") != "RefetchQuery":
                    pass
                for name in (op_var_names(ro) if ro is not None else []):
                    if name not in ("id", "input"):
                        vm.setdefault(name, ["var", name])
        static_walk(e, found, stats, vm)
        entry_base = [opdef["selectionSet"]]
        if entry_parent != schema.root(opdef["operation"]):
            # entrypoint of a field on a non-root type: its reader is rooted at node(id: $id) { ... on Parent { HERE } }
            un0, _why = unwrap_refetch(opdef, schema, "entry", None)
            if un0 is not None:
                entry_base = un0[0]
        nested = e["nestedRefetchQueries"]
        parsed = {}
        for i, n in enumerate(nested):
            t = eo.op_text(c, n["operation"])
            try:
                parsed[i] = (t, parse_op(t)) if t is not None else None
            except (gqlref.GraphQLSyntaxError, IndexError):
                parsed[i] = None
                stats["unparsable_refetch_operation(see C09)"] += 1
        by_path = {}

        def problems_for(r, idx, where):
            """Everything that is wrong with refetch query idx as THE query of refetchable r: [(rule, signature, what, witness)]."""
            probs = []
            pr = parsed.get(idx)
            if pr is None:
                return probs
            text, rop = pr
            want_name = f"{entry_parent}__{r.name}"
            if rop.get("name") != want_name:
                return [("operation-name", f"refetch-operation-name/{r.kind}", f"{where}: selected refetch query {idx} is named {rop.get('name')}, expected {want_name}",
                         {"entrypoint": key, "path": r.path, "operation": text[:1500]})]
            ex = exposed.get(r.name) if (r.kind == "imperative" and r.name != "__refetch") else None
            if r.kind == "imperative" and r.name != "__refetch" and ex is None:
                stats["imperative_fields_without_known_exposeField"] += 1
                return probs
            un, why = unwrap_refetch(rop, schema, r.kind, ex)
            if un is None:
                return [("wrapper", f"refetch-query-wrapper/{r.kind}/{e3.shape_of_error(why)[:50]}", f"{where}: refetch query {idx}: {why}",
                         {"entrypoint": key, "path": r.path, "operation": text[:1500]})]
            inner_sets, winfo = un
            if ex is not None:
                want_root = "mutation" if ex["root"] == schema.mutation_type else "query"
                if rop["operation"] != want_root:
                    probs.append(("wrapper", f"refetch-query-wrapper/{r.kind}/operation-type", f"{where}: exposed field {r.name} extends {ex['root']} but the refetch operation is a {rop['operation']}",
                                  {"entrypoint": key, "path": r.path, "operation": text[:800]}))
            allowed = nested[idx].get("allowedVariables") or []
            if set(allowed) != set(op_var_names(rop)):
                probs.append(("allowed-variables", f"allowed-variables-differ-from-operation-variables/{r.kind}",
                              f"{where}: refetch query {idx} declares {sorted(op_var_names(rop))}, allowedVariables is {sorted(allowed)}",
                              {"entrypoint": key, "path": r.path, "operation": text[:800]}))
            # inner selection set == the subtree of the entrypoint's operation (or of the enclosing pointer's refetch query) at this position
            base_sets = None
            if r.base[0] == "entry":
                base_sets = entry_base
            else:
                pr_ptr = parsed.get(r.base[1].entry_index) if r.base[1].entry_index is not None else None
                if pr_ptr is not None:
                    un2, _ = unwrap_refetch(pr_ptr[1], schema, "pointer", None)
                    base_sets = un2[0] if un2 else None
            if r.kind == "pointer":
                # the entrypoint's operation does not contain what is behind a pointer: compare with what the readers below it read
                req = reader_requirements(r.node.get("selections"), r.varmap, 0, stats)
                have = canon_tree([x for ss in inner_sets for x in ss])
                miss = tree_missing(req, have)
                # several selections of the pointer at the same normalized position share one refetch query
                for r2 in found:
                    if r2 is not r and r2.kind == "pointer" and not r2.oor and r2.entry_index == idx:
                        req = merge_trees(req, reader_requirements(r2.node.get("selections"), r2.varmap, 0, stats))
                if miss:
                    probs.append(("pointer-inner-selection", "pointer-refetch-query-lacks-field-read-below-the-pointer",
                                  f"{where}: refetch query {idx} for pointer {r.name} lacks {json.dumps(miss)[:200]}",
                                  {"entrypoint": key, "path": r.path, "operation": text[:1500], "missing": miss}))
                extra = tree_extra(have, req)
                if extra:
                    probs.append(("pointer-inner-selection", "pointer-refetch-query-selects-field-not-read-below-the-pointer",
                                  f"{where}: refetch query {idx} for pointer {r.name} additionally selects {json.dumps(extra)[:200]}",
                                  {"entrypoint": key, "path": r.path, "operation": text[:1500], "extra": extra}))
                return probs
            if base_sets is None:
                return probs
            pos = locate(base_sets, r.steps)
            if pos is None:
                probs.append(("position", f"refetch-position-not-in-entrypoint-operation/{r.kind}",
                              f"{where}: position {json.dumps(r.steps)[:200]} of {r.name} not found in the entrypoint's operation",
                              {"entrypoint": key, "path": r.path, "steps": r.steps, "operation": rt['ops'][key]['text'][:1500]}))
                return probs
            want_tree = strip_typename(canon_tree([x for ss in pos for x in ss]))
            have_tree = strip_typename(canon_tree([x for ss in inner_sets for x in ss]))
            if want_tree != have_tree:
                only_e = [x[0] for x in want_tree if x not in have_tree][:3]
                only_r = [x[0] for x in have_tree if x not in want_tree][:3]
                probs.append(("inner-selection", f"refetch-inner-selection-differs-from-entrypoint-subtree/{r.kind}",
                              f"{where}: refetch query {idx} ({rop.get('name')}) selects a different set than the entrypoint at that position: only in entrypoint {only_e}, only in refetch {only_r}",
                              {"entrypoint": key, "path": r.path, "steps": r.steps, "refetch_operation": text[:1500], "entrypoint_operation": rt['ops'][key]['text'][:1500]}))
            return probs

        for r in found:
            by_path[json.dumps(r.path)] = r
            where = f"{key} at {'.'.join(p[1] for p in r.path)}"
            if r.oor:
                viol("index-out-of-range", f"refetch-index-out-of-range/{r.kind}",
                     f"{where}: composing usedRefetchQueries then refetchQueryIndex {r.local_index} leaves the entrypoint's {len(nested)} refetch queries",
                     {"entrypoint": key, "path": r.path})
                continue
            if r.kind == "resolver":
                continue
            stats["static_refetchables"] += 1
            if r.kind == "loadable":
                tgt = r.node.get("entrypoint")
                stats["static_loadable_targets"] += 1
                if not isinstance(tgt, str) or tgt.split(":")[-1].replace("__", "/").split("/")[-1] != r.name:
                    viol("loadable-target", "loadable-field-entrypoint-is-for-another-field", f"{where}: @loadable {r.name} refers to entrypoint {tgt}",
                         {"entrypoint": key, "path": r.path, "target": tgt})
                continue
            if parsed.get(r.entry_index) is None:
                continue
            stats["static_refetch_queries_checked"] += 1
            if r.kind == "pointer":
                stats["static_pointer_queries_checked"] += 1
            probs = problems_for(r, r.entry_index, where)
            if not probs:
                stats["static_refetch_queries_ok"] += 1
                continue
            # is the right query among the ones the enclosing reader was given, under another index?
            alt = [j for j in (r.index_map or []) if j is not None and j != r.entry_index and parsed.get(j) is not None
                   and parsed[j][1].get("name") == f"{entry_parent}__{r.name}" and not problems_for(r, j, where)]
            if alt and len(r.path) > 1 and any(p[0] == "resolver" for p in r.path):
                stats["refetch_queries_permuted"] += 1
                viol("index-permutation", "usedRefetchQueries-are-ordered-differently-than-the-nested-reader's-refetch-indices",
                     f"{where}: refetchQueryIndex {r.local_index} composes to refetch query {r.entry_index} ({probs[0][2][-160:]}); the matching query is {alt[0]}, "
                     f"also passed to the enclosing reader but at another position of usedRefetchQueries",
                     {"entrypoint": key, "path": r.path, "composed_index": r.entry_index, "matching_index": alt[0], "first_problem": probs[0][1]})
                continue
            for rule, sig, what, wit in probs:
                viol(rule, sig, what, wit)
        # reuse: how many positions hold refetchables under the same declaring reader alias chain tail
        for r in found:
            if not r.oor and r.kind != "resolver":
                holder = [p for p in r.path if p[0] == "resolver"]
                reuse[(holder[-1][1] if holder else "<entrypoint>", r.kind, r.name)] += 1
        # ---- dynamic leg -------------------------------------------------------------------
        er = rt["out"]["entrypoints"].get(key) or {}
        if er.get("loadError"):
            stats["entrypoints_not_loaded"] += 1
            continue
        for cs, given in zip(er.get("cases", []), rt["cases"][key]):
            rd = cs.get("read")
            if not cs["normalize"]["ok"] or rd is None or not rd["ok"]:
                stats["dynamic_cases_not_read(see C10)"] += 1
                continue
            stats["dynamic_reads"] += 1
            stats["dynamic_refetchables_found"] += rd.get("refetchablesFound", 0)
            if (rd.get("counters") or {}).get("usedRefetchQueriesOutOfRange"):
                viol("index-out-of-range", "refetch-index-out-of-range/resolver(dynamic)", f"{key}: usedRefetchQueries out of range while reading", {"entrypoint": key})
            for inv in cs.get("refetch", []):
                stats["refetch_functions_invoked"] += 1
                stats["invoked:" + inv["kind"]] += 1
                path = [[p["t"], p["alias"]] for p in inv["path"]]
                where = f"{key} at {'.'.join(p[1] for p in path)}"
                st = by_path.get(json.dumps([tuple(p) for p in path])) or by_path.get(json.dumps(path))
                wit = {"entrypoint": key, "path": path, "variables": given["variables"], "observed": inv}
                if inv.get("error"):
                    viol("invoke-threw", f"invoking-refetch-function-threw/{inv['kind']}/{e3.shape_of_error(inv['error'])[:50]}", f"{where}: {inv['error'][:200]}", wit)
                    continue
                calls = inv.get("calls") or []
                stats["network_calls_recorded"] += len(calls)
                if len(calls) != 1:
                    viol("network-calls", f"refetch-function-made-{len(calls)}-network-calls/{inv['kind']}", f"{where}: {len(calls)} network calls", wit)
                    continue
                call = calls[0]
                sid = inv.get("stableId") or ""
                m = re.match(r"^([^:]+):(.*?)(?:__|/)", sid)
                rec_id = None
                if m:
                    rec_id = sid[len(m.group(1)) + 1:]
                    cut = rec_id.find("__" + inv["name"]) if inv["kind"] == "imperative" else rec_id.find("/" + inv["name"] + "/")
                    rec_id = rec_id[:cut] if cut >= 0 else None
                sent = call.get("variables") or {}
                if inv["kind"] in ("imperative", "pointer"):
                    if call.get("matchesNestedIndex") != inv.get("entryIndex"):
                        viol("artifact", f"network-operation-is-not-the-refetch-artifact-at-the-composed-index/{inv['kind']}",
                             f"{where}: composed index {inv.get('entryIndex')}, operation sent belongs to nested query {call.get('matchesNestedIndex')}", wit)
                        continue
                    stats["dynamic_operation_matches_composed_index"] += 1
                    if st is None:
                        stats["dynamic_paths_without_static_counterpart"] += 1
                    elif st.entry_index != inv.get("entryIndex"):
                        viol("index", "static-and-runtime-composition-disagree", f"{where}: static composition gives {st.entry_index}, runtime {inv.get('entryIndex')}", wit)
                    pr = parsed.get(inv.get("entryIndex"))
                    ex = exposed.get(inv["name"]) if inv["kind"] == "imperative" and inv["name"] != "__refetch" else None
                    id_path = ["id"]
                    if ex is not None:
                        fm = [t for f_, t in ex["field_map"] if f_ == "id"]
                        id_path = fm[0].split(".") if fm else None
                    if id_path is not None and rec_id is not None:
                        v = sent
                        for part in id_path:
                            v = v.get(part) if isinstance(v, dict) else None
                        stats["dynamic_id_variables_checked"] += 1
                        if v != rec_id:
                            viol("id-variable", f"refetch-variables-do-not-carry-the-record-id/{inv['kind']}",
                                 f"{where}: record {rec_id!r}, variables sent {json.dumps(sent)[:200]}", wit)
                    if pr is not None:
                        for vn in op_var_names(pr[1]):
                            top = (id_path or [None])[0]
                            if vn == top:
                                continue
                            stats["dynamic_other_variables_checked"] += 1
                            if vn not in sent or sent[vn] is None:
                                if vn in given["variables"] and given["variables"][vn] is not None:
                                    stats["dynamic_variables_not_forwarded"] += 1
                                    viol("variables", "refetch-query-variables-are-filled-from-the-nested-reader's-variables",
                                         f"{where}: refetch query declares ${vn} (entrypoint value {given['variables'][vn]!r}) but the runtime sends {json.dumps(sent)[:160]}", wit)
                            elif inv["kind"] != "imperative" or inv["name"] == "__refetch" or vn in given["variables"]:
                                if vn in given["variables"] and sent[vn] != given["variables"][vn] and not str(sent[vn]).startswith("arg:"):
                                    viol("variables", "refetch-query-variables-are-filled-from-the-nested-reader's-variables",
                                         f"{where}: ${vn} sent as {sent[vn]!r}, entrypoint value {given['variables'][vn]!r}", wit)
                else:
                    tgt = inv.get("targetEntrypoint")
                    got = call.get("entrypointKey")
                    want_key = None
                    if isinstance(tgt, str):
                        want_key = tgt[len("loader:"):].replace("__", "/", 1) if tgt.startswith("loader:") else tgt
                    stats["dynamic_loadable_calls_checked"] += 1
                    if got is None or got != want_key or (got.split("/")[-1] != inv["name"]):
                        viol("loadable-operation", "loadable-field-fetches-another-entrypoint", f"{where}: @loadable {inv['name']} sent the operation of {got}, expected {want_key}", wit)
                        continue
                    reads_id = st is not None and any(n_.get("kind") == "Scalar" and n_.get("fieldName") == "id" for n_ in (st.node.get("refetchReaderAst") or []))
                    if rec_id is not None and reads_id:
                        stats["dynamic_id_variables_checked"] += 1
                        if sent.get("id") != rec_id:
                            viol("id-variable", "refetch-variables-do-not-carry-the-record-id/loadable", f"{where}: record {rec_id!r}, variables sent {json.dumps(sent)[:200]}", wit)
                    if st is not None and st.varmap is not None:
                        for an, av in (inv.get("queryArguments") or []):
                            val = evaluate(subst(eo.canon_ast(av), st.varmap), given["variables"])
                            if val is not NOVALUE:
                                stats["dynamic_loadable_arguments_checked"] += 1
                                if drop_none(sent.get(an)) != drop_none(val):
                                    viol("variables", "loadable-field-argument-not-sent", f"{where}: argument {an} should be {val!r}, sent {json.dumps(sent)[:160]}", wit)
    # non-triviality: a field with refetchable selections reached at >= 2 positions
    multi = [k for k, v in reuse.items() if v >= 2]
    out["stats"] = dict(stats)
    out["stats"]["refetchable_selections_reused_at_several_positions"] = len(multi)
    out["nontrivial"] = stats["refetch_functions_invoked"] > 0 and stats["static_refetch_queries_checked"] + stats["static_loadable_targets"] > 0
    if out["nontrivial"]:
        out["distinct"] = [_h(c.cid, k) for k in sorted(reuse)]
        if c.kind == "generated":
            out["sample"] = {"case": c.describe(), "refetchables": sorted("%s %s x%d" % (k[1], k[2], v) for k, v in reuse.items())[:8],
                             "invoked": stats["refetch_functions_invoked"], "network_calls": stats["network_calls_recorded"]}
    return out


NOVALUE = object()


def drop_none(v):
    """undefined (dropped by JSON) and null are the same to the server."""
    if isinstance(v, dict):
        return {k: drop_none(x) for k, x in v.items() if x is not None}
    if isinstance(v, list):
        return [drop_none(x) for x in v]
    return v


def evaluate(v, variables):
    k = v[0]
    if k == "var":
        return variables.get(v[1], None) if v[1] in variables else None
    if k == "lit":
        try:
            return json.loads(v[1])
        except ValueError:
            return NOVALUE
    if k in ("str", "enum"):
        return v[1]
    if k == "obj":
        o = {}
        for a, b in v[1]:
            x = evaluate(b, variables)
            if x is NOVALUE:
                return NOVALUE
            o[a] = x
        return o
    return NOVALUE


def static_walk(e, found, stats, varmap0):
    """Walk the dumped reader tree of an entrypoint composing usedRefetchQueries as read.ts does and keeping the symbolic
    position (fields with arguments in the entrypoint's terms, refinements) of every refetchable selection. varmap0: the
    entrypoint's variables as identity map."""
    n_nested = len(e["nestedRefetchQueries"])

    def walk(ast, path, index_map, steps, base, varmap, depth):
        if depth > 40:
            return
        for n in ast or []:
            k = n["kind"]
            if k == "Resolver":
                stats["static_resolver_nodes"] += 1
                child = n.get("reader") or {}
                im = []
                bad = False
                for i in n.get("usedRefetchQueries") or []:
                    if isinstance(i, int) and 0 <= i < len(index_map) and index_map[i] is not None:
                        im.append(index_map[i])
                    else:
                        im.append(None)
                        bad = True
                if bad:
                    stats["used_refetch_queries_out_of_range"] += 1
                    r = Refetchable()
                    r.kind, r.name, r.path, r.oor = "resolver", n["alias"], path + [("resolver", n["alias"])], True
                    r.entry_index = r.local_index = None
                    r.steps = r.base = r.varmap = r.node = r.index_map = None
                    found.append(r)
                if "readerAst" not in child:
                    stats["recursive_reader_refs_not_followed"] += 1
                    continue
                cv = {a: subst(eo.canon_ast(v), varmap) for a, v in (n.get("arguments") or [])}
                walk(child["readerAst"], path + [("resolver", n["alias"])], im, steps, base, cv, depth + 1)
            elif k == "Linked":
                key = n["alias"] if n.get("alias") is not None else n["fieldName"]
                p2 = path + [("linked", key)]
                if n.get("refetchQueryIndex") is not None:
                    r = Refetchable()
                    r.kind, r.name, r.path, r.local_index, r.node = "pointer", n["fieldName"], p2, n["refetchQueryIndex"], n
                    li = n["refetchQueryIndex"]
                    r.entry_index = index_map[li] if isinstance(li, int) and 0 <= li < len(index_map) else None
                    r.oor = r.entry_index is None
                    r.steps, r.base, r.varmap, r.index_map = list(steps), base, varmap, list(index_map)
                    found.append(r)
                    stats["static_client_pointers"] += 1
                    walk(n.get("selections"), p2, index_map, [], ("pointer", r), varmap, depth + 1)
                    continue
                if n.get("condition") is not None:
                    t = n["fieldName"][2:] if n["fieldName"].startswith("as") else n["fieldName"]
                    walk(n.get("selections"), p2, index_map, steps + [("I", t)], base, varmap, depth + 1)
                else:
                    walk(n.get("selections"), p2, index_map, steps + [("F", n["fieldName"], subst_args(n.get("arguments"), varmap))], base, varmap, depth + 1)
            elif k in ("ImperativelyLoadedField", "LoadablySelectedField"):
                r = Refetchable()
                r.kind = "imperative" if k == "ImperativelyLoadedField" else "loadable"
                r.name, r.path, r.node = n["name"], path + [("field", n["alias"])], n
                r.steps, r.base, r.varmap, r.index_map = list(steps), base, varmap, list(index_map)
                r.oor = False
                r.local_index = r.entry_index = None
                if r.kind == "imperative":
                    li = n["refetchQueryIndex"]
                    r.local_index = li
                    r.entry_index = index_map[li] if isinstance(li, int) and 0 <= li < len(index_map) else None
                    r.oor = r.entry_index is None
                    stats["static_imperative_fields"] += 1
                else:
                    stats["static_loadable_fields"] += 1
                found.append(r)

    reader = e.get("reader") or {}
    walk(reader.get("readerAst"), [], list(range(n_nested)), [], ("entry", None), varmap0, 0)


def reader_requirements(ast, varmap, depth, stats):
    """What a reader AST reads, as a canonical selection tree (fields with arguments substituted along the chain)."""
    out = {}

    def put(key, sub):
        k = json.dumps(key)
        if k not in out:
            out[k] = sub
        elif sub is not None:
            out[k] = merge_trees(out[k] or [], sub)

    if depth > 40:
        return []
    for n in ast or []:
        k = n["kind"]
        if k == "Scalar":
            put(["F", n["fieldName"], subst_args(n.get("arguments"), varmap)], None)
        elif k == "Linked":
            if n.get("refetchQueryIndex") is not None:
                cond = n.get("condition") or {}
                cv = {a: subst(eo.canon_ast(v), varmap) for a, v in (n.get("arguments") or [])}
                for e_ in reader_requirements(cond.get("readerAst"), cv, depth + 1, stats):
                    put(e_[0], e_[1])
                continue
            sub = reader_requirements(n.get("selections"), varmap, depth + 1, stats)
            if n.get("condition") is not None:
                t = n["fieldName"][2:] if n["fieldName"].startswith("as") else n["fieldName"]
                put(["I", t], merge_trees(sub, [[["F", "__typename", []], None]]))
                put(["F", "__typename", []], None)
            else:
                put(["F", n["fieldName"], subst_args(n.get("arguments"), varmap)], sub)
        elif k == "Resolver":
            child = n.get("reader") or {}
            if "readerAst" not in child:
                continue
            cv = {a: subst(eo.canon_ast(v), varmap) for a, v in (n.get("arguments") or [])}
            for e_ in reader_requirements(child["readerAst"], cv, depth + 1, stats):
                put(e_[0], e_[1])
        elif k in ("ImperativelyLoadedField", "LoadablySelectedField"):
            for e_ in reader_requirements(n.get("refetchReaderAst"), varmap, depth + 1, stats):
                put(e_[0], e_[1])
    return [[json.loads(k), out[k]] for k in sorted(out)]


def merge_trees(a, b):
    m = {json.dumps(x[0]): x[1] for x in a}
    for x in b:
        k = json.dumps(x[0])
        if k in m:
            if x[1] is not None:
                m[k] = merge_trees(m[k] or [], x[1])
        else:
            m[k] = x[1]
    return [[json.loads(k), m[k]] for k in sorted(m)]


def tree_missing(req, have):
    """entries of req not present in have (recursively); argument values UNKNOWN match anything."""
    miss = []
    for key, sub in req:
        cand = None
        for hk, hs in have:
            if hk[0] == key[0] and hk[1] == key[1] and (key[0] == "I" or match_args(hk[2], key[2])):
                cand = (hk, hs)
                break
        if cand is None:
            miss.append(key)
        elif sub:
            m2 = tree_missing(sub, cand[1] or [])
            if m2:
                miss.append([key, m2])
    return miss


AUTO = ("id", "__typename")


def tree_extra(have, req):
    """entries of have that nothing in req asks for, apart from id/__typename the compiler adds by itself."""
    extra = []
    for hk, hs in have:
        if hk[0] == "F" and hk[1] in AUTO:
            continue
        cand = None
        for key, sub in req:
            if hk[0] == key[0] and hk[1] == key[1] and (key[0] == "I" or match_args(hk[2], key[2])):
                cand = (key, sub)
                break
        if cand is None:
            extra.append(hk)
        elif hs:
            e2 = tree_extra(hs, cand[1] or [])
            if e2:
                extra.append([hk, e2])
    return extra
