"""Thorough-only leg of C07: cargo-fuzz / libFuzzer (ASan) target
harness/util_tools/fuzz/fuzz_targets/parse_iso.rs on parse_iso_literal with the C07
oracle as the crash condition.  Every crash artifact is replayed through the native
monitor (util_tools parse-text) to obtain the cause signature.  The leg is optional:
when the tool chain cannot build it, the evidence says so and the verdict rests on
the other legs.  libFuzzer's -timeout is wall-clock, so timeouts are never verdicts."""
import os
import re
import shutil
import subprocess

import runner
import util_common as uc

FUZZ_DIR = os.path.join(runner.HARNESS, "util_tools", "fuzz")
TARGET_DIR = os.path.join(runner.HARNESS, "target-fuzz")
BIN = os.path.join(TARGET_DIR, "x86_64-unknown-linux-gnu", "release", "parse_iso")


def _build():
    lock = os.path.join(FUZZ_DIR, "Cargo.lock")
    if not os.path.exists(lock):
        shutil.copy(os.path.join(runner.REPO, "Cargo.lock"), lock)
    rc, out, err = runner.sh(["cargo", "+nightly", "fuzz", "build", "parse_iso"], cwd=FUZZ_DIR,
                             env={"CARGO_TARGET_DIR": TARGET_DIR, "RUSTFLAGS": f"--cfg {runner.GUARD}"}, timeout=3600)
    if rc != 0 or not os.path.exists(BIN):
        return err[-400:]
    return None


def run(ctx, violations, seconds=480):
    if shutil.which("cargo-fuzz") is None:
        return {"ran": False, "why": "cargo-fuzz not installed"}
    why = _build()
    if why:
        return {"ran": False, "why": "cargo fuzz build failed: " + why}
    native = uc.build()
    corpus = os.path.join(ctx.work, "fuzz-corpus")
    arts = os.path.join(ctx.work, "fuzz-artifacts")
    os.makedirs(corpus, exist_ok=True)
    os.makedirs(arts, exist_ok=True)
    r = subprocess.run([native, "gen", "--seed", str(runner.subseed(ctx.seed, "fuzz-corpus")), "--count", "3000"],
                       stdout=subprocess.PIPE, stderr=subprocess.PIPE, timeout=600)
    import json
    n_seed = 0
    for line in r.stdout.decode(errors="replace").split("\n"):
        if line.startswith("{"):
            d = json.loads(line)
            if d["class"].startswith("grammar") and len(d["text"]) < 3000:
                with open(os.path.join(corpus, f"g{d['index']}"), "w") as f:
                    f.write(d["text"])
                n_seed += 1
    cmd = [BIN, f"-fork={runner.NCPU}", "-ignore_crashes=1", "-ignore_timeouts=1", "-ignore_ooms=1",
           f"-max_total_time={seconds}", "-max_len=4096", "-timeout=20", "-rss_limit_mb=4096",
           f"-seed={runner.subseed(ctx.seed, 'libfuzzer') % (2 ** 31)}", f"-artifact_prefix={arts}/", corpus]
    try:
        p = subprocess.run(cmd, stdout=subprocess.PIPE, stderr=subprocess.STDOUT, timeout=seconds + 600)
    except subprocess.TimeoutExpired:
        return {"ran": False, "why": "libFuzzer did not stop (wall-clock watchdog)"}
    log = p.stdout.decode(errors="replace")
    m = re.findall(r"#(\d+): cov: (\d+) ft: (\d+) corp: (\d+)", log)
    execs, cov, ft, corp = (int(x) for x in m[-1]) if m else (0, 0, 0, 0)
    crashes = sorted(f for f in os.listdir(arts) if f.startswith("crash-"))
    others = sorted(f for f in os.listdir(arts) if not f.startswith("crash-"))
    unexplained = 0
    for f in crashes[:200]:
        path = os.path.join(arts, f)
        rc, rep, err, _ = uc.run_tool(native, ["parse-text", "--file", path], cpu_s=120)
        found = uc.finding_violations("C07", rep or {}, f"util_tools parse-text --file <libFuzzer artifact {f}>")
        if rc != 0:
            with open(path, "rb") as fh:
                data = fh.read()
            violations.append({"rule": "fatal-signal", "signature": f"C07/fatal-signal-{uc.signal_name(rc)}/libfuzzer-input",
                               "what": f"native replay of libFuzzer artifact died with {uc.signal_name(rc)}",
                               "witness": {"artifact": f, "input": data[:600].decode(errors="replace")}})
        elif found:
            violations.extend(found)
        else:
            unexplained += 1
    if unexplained:
        # crashed under libFuzzer/ASan but the native monitor sees nothing: report with the sanitizer headline
        m2 = re.findall(r"ERROR: AddressSanitizer: ([a-z\-]+)", log)
        head = m2[0] if m2 else "crash-not-reproduced-natively"
        violations.append({"rule": "libfuzzer-crash", "signature": f"C07/libfuzzer/{head}",
                           "what": f"{unexplained} libFuzzer crash artifact(s) not reproduced by the native monitor ({head})",
                           "witness": {"log_tail": log[-1500:]}})
    return {"ran": True, "seconds": seconds, "executions": execs, "coverage_edges": cov, "features": ft,
            "corpus_units": corp, "seed_corpus": n_seed, "crash_artifacts": len(crashes),
            "timeout_or_oom_artifacts_not_verdicts": len(others)}
