"""Engine E3: generated projects -> real isograph_cli -> node probe -> oracles."""
import json
import os
import re
import shutil

import cli_common as cc
import gqlref
import isogen
import runner
from runner import subseed


class Case:
    def __init__(self, cid, kind, root, project=None):
        self.cid, self.kind, self.root, self.project = cid, kind, root, project
        self.result = None
        self.model = None
        self.schema_texts = None
        self.tags = set()

    def artifact_dir(self):
        return cc.artifact_dir_of(self.root)

    def describe(self):
        d = {"case": self.cid, "kind": self.kind}
        if self.project is not None:
            d["seed"] = self.project.seed
            d["profile"] = self.project.profile
            d["decls"] = [x.ident() + ":" + x.kind for x in self.project.decls][:12]
        return d

    def replay(self):
        if self.project is not None:
            return {"generator": "pylib/isogen.py", "profile": self.project.profile, "seed": self.project.seed,
                    "how": "python3 -c \"import sys;sys.path.insert(0,'pylib');import isogen;"
                           f"isogen.generate({self.project.seed},'{self.project.profile}').write('/var/tmp/case')\" "
                           "&& cd /var/tmp/case && isograph_cli --config isograph.config.json"}
        return {"checked_in": self.cid}


def schema_texts_of(root):
    cfg = cc.read_config(root)
    out = []
    for rel in [cfg["schema"]] + cfg.get("schema_extensions", []):
        with open(os.path.join(root, rel)) as f:
            out.append(f.read())
    return out


def build_corpus(ctx, cli, profile, n, label, with_checked_in=True, probe=True, opts=None):
    """Generate n projects (seeded), compile each with the real CLI, probe successful ones."""
    cases = []
    if with_checked_in:
        for proj in cc.checked_in_projects():
            dest = os.path.join(ctx.work, f"{label}-ci-{proj['name']}")
            cc.copy_checked_in(proj, dest)
            cases.append(Case("checked-in:" + proj["name"], "checked-in", dest))
    for i in range(n):
        seed = subseed(ctx.seed, label, profile, i) % (1 << 48)
        p = isogen.generate(seed, profile, **(opts or {}))
        root = os.path.join(ctx.work, f"{label}-{profile}-{i}")
        shutil.rmtree(root, ignore_errors=True)
        p.write(root)
        cases.append(Case(f"{profile}:{seed}", "generated", root, p))

    def one(c):
        c.result = cc.run_cli_timed(cli, c.root)
        if probe and c.result.ok():
            c.model = cc.probe_dump(c.artifact_dir(), os.path.join(c.root, ".model.json"))
            os.remove(os.path.join(c.root, ".model.json"))
        c.schema_texts = schema_texts_of(c.root)
        return c

    return runner.run_shards(cases, one)


# ---------------------------------------------------------------------------
# process-parallel pipeline: generate -> compile -> probe -> analyze, one case per task
# ---------------------------------------------------------------------------
def _process_case(spec):
    import importlib
    try:
        if spec["kind"] == "generated":
            p = isogen.generate(spec["seed"], spec["profile"], **(spec.get("opts") or {}))
            label = ""
            if spec.get("mutate"):
                # near-miss corpus: a single-fault mutant (normally rejected; if the compiler accepts it, the oracles
                # of the calling check judge what it generated)
                import random
                import isomut
                ms = [m for m in isomut.single_fault_mutants(p, random.Random(spec["seed"] ^ 0x5A5A))
                      if m.mutation["fault"] not in spec.get("mutate_exclude", ())]
                if ms:
                    p = ms[spec["seed"] % len(ms)]
                    label = ":mutant:" + p.mutation["fault"]
            shutil.rmtree(spec["root"], ignore_errors=True)
            p.write(spec["root"])
            c = Case(f"{spec['profile']}:{spec['seed']}{label}", "generated", spec["root"], p)
        else:
            proj = [x for x in cc.checked_in_projects() if x["name"] == spec["name"]][0]
            cc.copy_checked_in(proj, spec["root"])
            c = Case("checked-in:" + spec["name"], "checked-in", spec["root"])
        c.result = cc.run_cli_timed(spec["cli"], c.root)
        if spec.get("probe", True) and c.result.ok():
            c.model = cc.probe_dump(c.artifact_dir(), os.path.join(c.root, ".model.json"))
            os.remove(os.path.join(c.root, ".model.json"))
        c.schema_texts = schema_texts_of(c.root)
        out = {"cid": c.cid, "describe": c.describe(), "replay": c.replay(), "ok": c.result.ok(), "rc": c.result.rc,
               "cpu_s": c.result.cpu_s, "results": {}, "error": None}
        try:
            out["crash"] = crash_violation(c, c.result)
        except runner.Inconclusive as e:
            out["crash"] = None
            out["error"] = str(e)
        for mod, fn in spec["analyzers"]:
            f = getattr(importlib.import_module(mod), fn)
            out["results"][f"{mod}.{fn}"] = f(c, spec)
        return out
    except runner.Inconclusive as e:
        return {"cid": spec.get("seed"), "error": str(e), "results": {}, "ok": False, "crash": None}
    finally:
        if not spec.get("keep"):
            shutil.rmtree(spec["root"], ignore_errors=True)


def run_cases(ctx, cli, profiles, n, label, analyzers, with_checked_in=True, opts=None, probe=True, mutate=False, mutate_exclude=()):
    """profiles: list of profile names; n generated cases per profile. Returns list of per-case dicts."""
    from concurrent.futures import ProcessPoolExecutor
    specs = []
    if with_checked_in:
        for proj in cc.checked_in_projects():
            specs.append({"kind": "checked-in", "name": proj["name"], "root": os.path.join(ctx.work, f"{label}-ci-{proj['name']}"),
                          "cli": cli, "analyzers": analyzers, "probe": probe})
    for prof in profiles:
        for i in range(n):
            seed = subseed(ctx.seed, label, prof, i) % (1 << 48)
            specs.append({"kind": "generated", "profile": prof, "seed": seed, "opts": opts,
                          "root": os.path.join(ctx.work, f"{label}-{prof}-{i}"), "cli": cli, "analyzers": analyzers,
                          "probe": probe, "mutate": mutate, "mutate_exclude": tuple(mutate_exclude)})
    with ProcessPoolExecutor(max_workers=runner.NCPU) as ex:
        results = list(ex.map(_process_case, specs, chunksize=1))
    errs = [r["error"] for r in results if r.get("error")]
    if errs and len(errs) > max(2, len(results) // 20):
        raise runner.Inconclusive(f"{len(errs)} cases inconclusive, e.g. {errs[0]}")
    return results


# ---------------------------------------------------------------------------
# C08: crash classification for one CLI result
# ---------------------------------------------------------------------------
PANIC_LOC = re.compile(r"panicked at ([^:\n]+):(\d+):\d+:\n([^\n]*)")


def crash_violation(c, r, what="batch compile"):
    """Returns a violation dict or None."""
    if r.timed_out:
        if r.cpu_s > cc.CPU_BOUND_S:
            return {"rule": "no-progress", "signature": "C08/cpu-bound-exceeded", "what": f"{what} burned {r.cpu_s:.0f}s CPU",
                    "witness": {"case": c.describe(), "replay": c.replay()}}
        raise runner.Inconclusive(f"wall-clock watchdog fired for {c.cid} (cpu {r.cpu_s:.1f}s)")
    if r.signal is not None:
        return {"rule": "killed-by-signal", "signature": f"C08/signal/{r.signal}",
                "what": f"{what} of {c.cid} died with {r.signal}", "witness": {"case": c.describe(), "replay": c.replay(),
                                                                             "stderr_tail": r.stderr[-400:]}}
    if r.panicked():
        m = PANIC_LOC.search(r.stderr)
        loc = f"{os.path.basename(m.group(1))}:{m.group(2)}" if m else "?"
        msg = re.sub(r"[0-9]+", "#", m.group(3))[:80] if m else ""
        return {"rule": "panic", "signature": f"C08/panic/{loc}/{msg}",
                "what": f"{what} of {c.cid} panicked at {loc}: {m.group(3)[:120] if m else r.stderr[-200:]}",
                "witness": {"case": c.describe(), "replay": c.replay(), "stderr_tail": r.stderr[-600:]}}
    if r.cpu_s > cc.CPU_BOUND_S:
        return {"rule": "no-progress", "signature": "C08/cpu-bound-exceeded", "what": f"{what} burned {r.cpu_s:.0f}s CPU",
                "witness": {"case": c.describe(), "replay": c.replay()}}
    if r.rc != 0 and not r.has_diagnostic():
        return {"rule": "failure-without-diagnostic", "signature": f"C08/exit-{r.rc}-without-diagnostic",
                "what": f"{what} of {c.cid} exited {r.rc} without a diagnostic", "witness": {"case": c.describe(), "stderr": r.stderr[-400:]}}
    return None


# ---------------------------------------------------------------------------
# operations of a compiled project
# ---------------------------------------------------------------------------
def operations(model):
    """[(where, operation dict, normalizationAst, allowedVariables|None)] for entrypoints and refetch queries."""
    out = []
    for key, e in sorted(model["entrypoints"].items()):
        out.append((key + "/entrypoint", e["operation"], e["normalizationAst"], None))
        for i, n in enumerate(e["nestedRefetchQueries"]):
            out.append((f"{key}/__refetch__{i}", n["operation"], n["normalizationAst"], n["allowedVariables"]))
    return out


def shape_of_error(msg):
    """Coarse, deterministic cause for signatures: drop names and numbers."""
    m = re.sub(r"response name \S+", "response name N", msg)
    m = re.sub(r'"[^"]*"', '"…"', m)
    m = re.sub(r"'[^']*'", "'…'", m)
    m = re.sub(r"`[^`]*`", "`…`", m)
    m = re.sub(r"\$?[A-Za-z_][A-Za-z0-9_]*", lambda x: x.group(0) if x.group(0).lower() in KEEP_WORDS else "N", m)
    m = re.sub(r"[0-9]+", "#", m)
    return re.sub(r"(N[ .,]*)+", "N ", m)[:90].strip()


KEEP_WORDS = set("""field fields argument arguments variable variables type types unknown undefined defined used unused required
not never cannot is are of on in for to the a an must be selection subselection selections leaf scalar object interface union
enum input non null nullable list expected found missing duplicate conflict conflicting merge different return response name names
fragment spread possible condition operation query mutation value values invalid syntax error unexpected position default""".split())


# ---------------------------------------------------------------------------
# aggregation helper for analyzers that return {violations, stats, nontrivial, sample, ...}
# ---------------------------------------------------------------------------
def aggregate(results, key, distinct_field=None):
    import collections
    v, stats, samples, distinct = [], collections.Counter(), [], set()
    ok = nontrivial = 0
    for r in results:
        a = r["results"].get(key)
        if not a:
            continue
        ok += 1 if r.get("ok") else 0
        v += a["violations"]
        stats.update(a.get("stats") or {})
        if a.get("nontrivial"):
            nontrivial += 1
            if distinct_field:
                d = a.get(distinct_field)
                if isinstance(d, list):
                    distinct.update(d)
                elif d is not None:
                    distinct.add(d)
            else:
                distinct.add(r["cid"])
        if a.get("sample") and len(samples) < 3:
            samples.append(a["sample"])
    return {"violations": v, "stats": dict(stats), "samples": samples, "ok": ok, "nontrivial": nontrivial,
            "distinct": len(distinct)}
