"""Mutators and metamorphic transformations over isogen.Project.

* single-fault mutants for C16 (one validation rule violated at a time, everything else well typed),
* multi-fault / hostile-shape mutants for C08,
* meaning-preserving rearrangements for C15,
* layout permutations (same literals, other files / order) for C14.

Every function takes a Project and a random.Random, returns a NEW Project (deep copy) plus a small
description, or None when the project offers no site for it.  Nothing here looks at the compiler."""
import copy
import random

import isogen
from isogen import Sel, Decl, named, nn, lst, base, nullable, type_str, list_depth


# ---------------------------------------------------------------------------
# walking
# ---------------------------------------------------------------------------
def is_refinement(p, s):
    return s.kind == "object" and s.name.startswith("as") and p.schema.is_abstract(s.parent) and s.name[2:] in p.schema.types


def walk(p, d):
    """Yield (sel, container list, index, position kind, depth) for every selection of declaration d."""
    def rec(sels, pos, depth):
        for i, s in enumerate(sels):
            yield s, sels, i, pos, depth
            if s.sels is not None:
                sub = "refinement" if is_refinement(p, s) else ("nested" if pos in ("top", "nested") else pos)
                yield from rec(s.sels, sub, depth + 1)
    if d.sels is not None:
        yield from rec(d.sels, "top", 0)


def field_decls(p):
    return [d for d in p.decls if d.kind in ("field", "pointer") and d.sels is not None]


def argdefs_of(p, s):
    """{arg name: (type, has_default)} for the field selection s, or None if unknown."""
    if s.kind in ("scalar", "object") and not is_refinement(p, s):
        fd = p.schema.field(s.parent, s.name)
        if fd is None:
            return None
        return {a: (ad["type"], ad.get("default") is not None) for a, ad in (fd.get("args") or {}).items()}
    if s.kind in ("client", "pointer"):
        t = p.decl(s.target)
        if t is None:
            return None
        return {n: (vt, dv is not None) for n, vt, dv in t.variables}
    return None


def vars_in_value(v, out=None):
    out = out if out is not None else []
    if v[0] == "var":
        out.append(v[1])
    elif v[0] == "obj":
        for _a, b in v[1]:
            vars_in_value(b, out)
    return out


def var_uses(p, d):
    uses = {}
    for s, *_ in walk(p, d):
        for _a, v in s.args:
            for n in vars_in_value(v):
                uses[n] = uses.get(n, 0) + 1
    return uses


def removable_value(p, d, v):
    """Removing/replacing value v must not leave a declared variable unused (that would be a 2nd fault)."""
    uses = var_uses(p, d)
    mine = {}
    for n in vars_in_value(v):
        mine[n] = mine.get(n, 0) + 1
    return all(uses.get(n, 0) > c for n, c in mine.items())


def selected_by(p, ident):
    out = []
    for d in field_decls(p):
        for s, *_ in walk(p, d):
            if s.kind in ("client", "pointer") and s.target == ident:
                out.append((d, s))
    return out


def _sites(p, pred):
    out = []
    for di, d in enumerate(p.decls):
        if d.kind not in ("field", "pointer") or d.sels is None:
            continue
        for s, cont, i, pos, depth in walk(p, d):
            if pred(d, s, pos):
                out.append((di, _path_of(p, d, s), pos))
    return out


def _path_of(p, d, target):
    def rec(sels, path):
        for i, s in enumerate(sels):
            if s is target:
                return path + [i]
            if s.sels is not None:
                r = rec(s.sels, path + [i])
                if r is not None:
                    return r
        return None
    return rec(d.sels, [])


def _resolve(q, di, path):
    d = q.decls[di]
    sels = d.sels
    s = None
    for i in path:
        s = sels[i]
        cont = sels
        sels = s.sels
    return d, s, cont, path[-1]


def _fork(p):
    q = copy.deepcopy(p)
    return q


def _done(q, kind, pos, detail):
    q.render_files()
    q.tags = set(getattr(q, "tags", set())) | {"mutant:" + kind}
    q.mutation = {"fault": kind, "position": pos, "detail": detail}
    return q


def _pick(rng, sites):
    return rng.choice(sites) if sites else None


def _server(p, s):
    return s.kind in ("scalar", "object") and not is_refinement(p, s) and p.schema.field(s.parent, s.name) is not None


# ---------------------------------------------------------------------------
# C16 single-fault mutants
# ---------------------------------------------------------------------------
def m_undefined_field(p, rng):
    site = _pick(rng, _sites(p, lambda d, s, pos: _server(p, s) and not s.args))
    if not site:
        return None
    q = _fork(p)
    d, s, *_ = _resolve(q, site[0], site[1])
    old = s.name
    if s.alias is None:
        s.alias = None
    s.name = "nope" + old.capitalize()
    return _done(q, "undefined-field", site[2], f"{d.ident()}: {s.parent}.{old} -> {s.name}")


def m_object_without_selection_set(p, rng):
    site = _pick(rng, _sites(p, lambda d, s, pos: s.kind == "object" and _server(p, s)))
    if not site:
        return None
    q = _fork(p)
    d, s, *_ = _resolve(q, site[0], site[1])
    # variables only used below would become unused: keep it single-fault by requiring none are lost
    lost = []
    for x, *_r in _walk_sub(s):
        for _a, v in x.args:
            lost += vars_in_value(v)
    uses = var_uses(q, d)
    cnt = {}
    for n in lost:
        cnt[n] = cnt.get(n, 0) + 1
    if any(uses.get(n, 0) <= c for n, c in cnt.items()):
        return None
    s.sels = None
    return _done(q, "object-field-without-selection-set", site[2], f"{d.ident()}: {s.parent}.{s.name}")


def _walk_sub(s):
    if s.sels:
        for x in s.sels:
            yield (x,)
            yield from _walk_sub(x)


def m_scalar_with_selection_set(p, rng):
    site = _pick(rng, _sites(p, lambda d, s, pos: s.kind == "scalar" and _server(p, s) and not s.directives))
    if not site:
        return None
    q = _fork(p)
    d, s, *_ = _resolve(q, site[0], site[1])
    s.sels = [Sel("typename", "__typename", base(s.ftype), nn(named("String")))]
    return _done(q, "scalar-field-with-selection-set", site[2], f"{d.ident()}: {s.parent}.{s.name}")


def m_undefined_argument(p, rng, name="bogus"):
    def ok(d, s, pos):
        if not (_server(p, s) or s.kind == "client"):
            return False
        ad = argdefs_of(p, s)
        return ad is not None and name not in ad and all(a != name for a, _ in s.args)
    site = _pick(rng, _sites(p, ok))
    if not site:
        return None
    q = _fork(p)
    d, s, *_ = _resolve(q, site[0], site[1])
    s.args.append((name, ("int", 1)))
    pos = site[2] if s.kind != "client" else "client-field-argument"
    return _done(q, "undefined-argument" + ("" if name == "bogus" else "-named-" + name), pos,
                 f"{d.ident()}: {s.parent}.{s.name}({name}: 1)")


def m_undefined_argument_named_id(p, rng):
    return m_undefined_argument(p, rng, name="id")


def _required(t, has_default):
    return not nullable(t) and not has_default


def m_missing_required_argument(p, rng, want_kind=None):
    def ok(d, s, pos):
        if not (_server(p, s) or s.kind == "client"):
            return False
        if "loadable" in s.directives:
            return False
        if want_kind and s.kind != want_kind:
            return False
        ad = argdefs_of(p, s) or {}
        return any(a in ad and _required(*ad[a]) and removable_value(p, d, v) for a, v in s.args)
    site = _pick(rng, _sites(p, ok))
    if not site:
        return None
    q = _fork(p)
    d, s, *_ = _resolve(q, site[0], site[1])
    ad = argdefs_of(q, s)
    cands = [i for i, (a, v) in enumerate(s.args) if a in ad and _required(*ad[a]) and removable_value(q, d, v)]
    i = rng.choice(cands)
    a, _v = s.args.pop(i)
    kind = {"scalar": "scalar-field", "object": "object-field", "client": "client-field"}[s.kind]
    pos = site[2] if s.kind != "client" else "client-field-argument"
    return _done(q, "missing-required-argument/" + kind, pos, f"{d.ident()}: {s.parent}.{s.name} without {a}")


def m_missing_required_argument_scalar(p, rng):
    return m_missing_required_argument(p, rng, "scalar")


def m_missing_required_argument_object(p, rng):
    return m_missing_required_argument(p, rng, "object")


def m_missing_required_argument_client(p, rng):
    return m_missing_required_argument(p, rng, "client")


def m_undeclared_variable(p, rng):
    def ok(d, s, pos):
        return (_server(p, s) or s.kind == "client") and any(removable_value(p, d, v) for _a, v in s.args)
    site = _pick(rng, _sites(p, ok))
    if not site:
        return None
    q = _fork(p)
    d, s, *_ = _resolve(q, site[0], site[1])
    cands = [i for i, (_a, v) in enumerate(s.args) if removable_value(q, d, v)]
    i = rng.choice(cands)
    a, _v = s.args[i]
    s.args[i] = (a, ("var", "undeclared9"))
    pos = site[2] if s.kind != "client" else "client-field-argument"
    return _done(q, "undeclared-variable", pos, f"{d.ident()}: {s.parent}.{s.name}({a}: $undeclared9)")


def m_undeclared_variable_nested_in_object(p, rng):
    """$undeclared inside an object literal argument."""
    def ok(d, s, pos):
        return (_server(p, s) or s.kind == "client") and any(
            v[0] == "obj" and any(b[0] != "var" and b[0] != "obj" for _x, b in v[1]) for _a, v in s.args)
    site = _pick(rng, _sites(p, ok))
    if not site:
        return None
    q = _fork(p)
    d, s, *_ = _resolve(q, site[0], site[1])
    for i, (a, v) in enumerate(s.args):
        if v[0] == "obj":
            ents = list(v[1])
            js = [j for j, (_x, b) in enumerate(ents) if b[0] not in ("var", "obj")]
            if js:
                j = rng.choice(js)
                ents[j] = (ents[j][0], ("var", "undeclared9"))
                s.args[i] = (a, ("obj", ents))
                return _done(q, "undeclared-variable/in-object-literal", site[2],
                             f"{d.ident()}: {s.parent}.{s.name}({a}: {{{ents[j][0]}: $undeclared9}})")
    return None


def m_unused_variable(p, rng):
    ds = [i for i, d in enumerate(p.decls) if d.kind == "field" and d.sels is not None]
    if not ds:
        return None
    q = _fork(p)
    d = q.decls[rng.choice(ds)]
    d.variables.append(("unused9", named(rng.choice(["Int", "String", "Boolean"])), None))
    return _done(q, "unused-variable", "declaration", f"{d.ident()}($unused9)")


def m_unused_variable_named_like_elsewhere(p, rng):
    """Declared-but-unused variable whose NAME is declared and used by another declaration (state leaking between
    declarations in the validator would hide it)."""
    cands = []
    for i, d in enumerate(p.decls):
        if d.kind != "field" or d.sels is None:
            continue
        mine = {n for n, _t, _d in d.variables}
        others = sorted({n for e in p.decls if e is not d and e.kind in ("field", "pointer") for n, _t, _d in e.variables} - mine)
        if others:
            cands.append((i, others))
    if not cands:
        return None
    i, others = rng.choice(cands)
    q = _fork(p)
    d = q.decls[i]
    n = rng.choice(others)
    d.variables.append((n, named(rng.choice(["Int", "String", "Boolean"])), None))
    return _done(q, "unused-variable/name-used-in-another-declaration", "declaration", f"{d.ident()}(${n}) while ${n} is used elsewhere")


def m_undeclared_variable_declared_elsewhere(p, rng):
    """$x used in a declaration that does not declare it, while ANOTHER declaration declares $x with the right type."""
    sites = []
    for di, d in enumerate(p.decls):
        if d.kind not in ("field", "pointer") or d.sels is None:
            continue
        mine = {n for n, _t, _d in d.variables}
        for s, _c, _i, pos, _depth in walk(p, d):
            if not (_server(p, s) or s.kind == "client"):
                continue
            ad = argdefs_of(p, s) or {}
            for ai, (a, v) in enumerate(s.args):
                if a not in ad or not removable_value(p, d, v):
                    continue
                for e in p.decls:
                    if e is d or e.kind not in ("field", "pointer"):
                        continue
                    for n, vt, _dv in e.variables:
                        if n not in mine and type_str(vt) == type_str(ad[a][0]):
                            sites.append((di, _path_of(p, d, s), pos, ai, n))
    site = _pick(rng, sites)
    if not site:
        return None
    q = _fork(p)
    d, s, *_ = _resolve(q, site[0], site[1])
    a, _v = s.args[site[3]]
    s.args[site[3]] = (a, ("var", site[4]))
    pos = site[2] if s.kind != "client" else "client-field-argument"
    return _done(q, "undeclared-variable/declared-in-another-declaration", pos, f"{d.ident()}: {s.parent}.{s.name}({a}: ${site[4]})")


def _wrong_literal(p, t):
    """A literal that does not satisfy type t (None if every literal kind could be fine)."""
    b = base(t)
    if list_depth(t) > 0:
        return None  # iso has no list literals; a scalar for a list type is coerced by GraphQL
    if b == "Int":
        return ("str", "x")
    if b == "String":
        return ("int", 3)
    if b == "Boolean":
        return ("int", 1)
    if b == "Float":
        return ("str", "x")
    if p.schema.kind(b) == "INPUT":
        return ("int", 1)
    return None


def m_wrong_literal_type(p, rng):
    def cands(d, s):
        ad = argdefs_of(p, s) or {}
        return [i for i, (a, v) in enumerate(s.args)
                if a in ad and _wrong_literal(p, ad[a][0]) is not None and removable_value(p, d, v)]
    site = _pick(rng, _sites(p, lambda d, s, pos: (_server(p, s) or s.kind == "client") and cands(d, s)))
    if not site:
        return None
    q = _fork(p)
    d, s, *_ = _resolve(q, site[0], site[1])
    i = rng.choice(cands(d, s))
    a, _v = s.args[i]
    w = _wrong_literal(q, argdefs_of(q, s)[a][0])
    s.args[i] = (a, w)
    pos = site[2] if s.kind != "client" else "client-field-argument"
    return _done(q, "wrong-literal-type/" + base(argdefs_of(q, s)[a][0]) + "<-" + w[0], pos,
                 f"{d.ident()}: {s.parent}.{s.name}({a}: {isogen.iso_value(w)})")


def m_null_for_non_null(p, rng):
    def cands(d, s):
        ad = argdefs_of(p, s) or {}
        return [i for i, (a, v) in enumerate(s.args) if a in ad and not nullable(ad[a][0]) and removable_value(p, d, v)]
    site = _pick(rng, _sites(p, lambda d, s, pos: (_server(p, s) or s.kind == "client") and cands(d, s)))
    if not site:
        return None
    q = _fork(p)
    d, s, *_ = _resolve(q, site[0], site[1])
    i = rng.choice(cands(d, s))
    a, _v = s.args[i]
    s.args[i] = (a, ("null",))
    pos = site[2] if s.kind != "client" else "client-field-argument"
    return _done(q, "wrong-literal-type/null-for-non-null", pos, f"{d.ident()}: {s.parent}.{s.name}({a}: null)")


def m_wrong_type_inside_object_literal(p, rng):
    def objs(d, s):
        ad = argdefs_of(p, s) or {}
        out = []
        for i, (a, v) in enumerate(s.args):
            if v[0] == "obj" and a in ad and p.schema.kind(base(ad[a][0])) == "INPUT":
                fields = p.schema.types[base(ad[a][0])]["fields"]
                for j, (fn, fv) in enumerate(v[1]):
                    if fn in fields and fv[0] in ("int", "str", "bool") and _wrong_literal(p, fields[fn]["type"]):
                        out.append((i, j))
        return out
    site = _pick(rng, _sites(p, lambda d, s, pos: (_server(p, s) or s.kind == "client") and objs(d, s)))
    if not site:
        return None
    q = _fork(p)
    d, s, *_ = _resolve(q, site[0], site[1])
    i, j = rng.choice(objs(d, s))
    a, v = s.args[i]
    ents = list(v[1])
    ft = q.schema.types[base(argdefs_of(q, s)[a][0])]["fields"][ents[j][0]]["type"]
    ents[j] = (ents[j][0], _wrong_literal(q, ft))
    s.args[i] = (a, ("obj", ents))
    return _done(q, "wrong-literal-type/inside-object-literal", site[2],
                 f"{d.ident()}: {s.parent}.{s.name}({a}: {{{ents[j][0]}: {isogen.iso_value(ents[j][1])}}})")


def _var_sites(p):
    """(decl idx, var idx, arg type it is passed to) for variables used directly as an argument value."""
    out = []
    for di, d in enumerate(p.decls):
        if d.kind not in ("field", "pointer") or d.sels is None:
            continue
        for s, *_r in walk(p, d):
            ad = argdefs_of(p, s) or {}
            for a, v in s.args:
                if v[0] == "var" and a in ad:
                    for vi, (n, vt, dv) in enumerate(d.variables):
                        if n == v[1]:
                            out.append((di, vi, ad[a][0], ad[a][1], _r[2]))
    return out


def m_variable_nullability(p, rng):
    """$v: T (no default) passed where T! is required (argument without default)."""
    sites = [x for x in _var_sites(p) if not nullable(x[2]) and not x[3]
             and not nullable(p.decls[x[0]].variables[x[1]][1]) and p.decls[x[0]].variables[x[1]][2] is None]
    # every use of the variable keeps type-checking except the required position(s): fine, still one rule broken
    site = _pick(rng, sites)
    if not site:
        return None
    q = _fork(p)
    d = q.decls[site[0]]
    n, vt, dv = d.variables[site[1]]
    d.variables[site[1]] = (n, isogen.strip_nn(vt), None)
    return _done(q, "incompatible-variable-type/nullable-for-non-null", site[4], f"{d.ident()}: ${n}: {type_str(isogen.strip_nn(vt))} used as {type_str(site[2])}")


_DEFAULTS = {"Int": ("int", 2), "String": ("str", "dflt"), "Boolean": ("bool", True), "Float": ("int", 1), "ID": ("str", "i1")}


def m_variable_nullable_with_default(p, rng):
    """A client field's variable `$v: T = <non-null default>` used where T! is required, while a parent passes `null`
    for it.  (For an OPERATION variable GraphQL lets a non-null default stand in for non-null; a client field's
    variable is replaced by what the selecting field passes, so here a null reaches a non-null position.)"""
    sites = []
    for x in _var_sites(p):
        di, vi, at, has_default, pos = x
        d = p.decls[di]
        n, vt, dv = d.variables[vi]
        if nullable(at) or has_default or nullable(vt) or dv is not None or list_depth(vt) or base(vt) not in _DEFAULTS:
            continue
        if any(dd.kind == "entrypoint" and dd.ident() == d.ident() for dd in p.decls):
            continue
        parents = [(pd, s) for pd, s in selected_by(p, d.ident()) if "loadable" not in s.directives and any(a == n for a, _ in s.args)]
        parents = [(pd, s) for pd, s in parents if removable_value(p, pd, dict(s.args)[n])]
        if parents:
            sites.append((di, vi, pos, n))
    site = _pick(rng, sites)
    if not site:
        return None
    q = _fork(p)
    d = q.decls[site[0]]
    n, vt, _dv = d.variables[site[1]]
    d.variables[site[1]] = (n, isogen.strip_nn(vt), _DEFAULTS[base(vt)])
    changed = 0
    for pd, s in selected_by(q, d.ident()):
        if "loadable" in s.directives:
            continue
        for i, (a, v) in enumerate(s.args):
            if a == n and removable_value(q, pd, v):
                s.args[i] = (a, ("null",))
                changed += 1
    if not changed:
        return None
    return _done(q, "incompatible-variable-type/nullable-with-default-for-non-null-and-parent-passes-null", site[2],
                 f"{d.ident()}: ${n}: {type_str(isogen.strip_nn(vt))} = {isogen.iso_value(_DEFAULTS[base(vt)])} used as {type_str(vt)}; {changed} parent(s) pass null")


def _unpassed(p, d, n):
    """No parent passes variable n of client field d (so changing its type creates no second fault)."""
    return all(all(a != n for a, _ in s.args) for _pd, s in selected_by(p, d.ident()))


def m_variable_base_type(p, rng):
    swaps = {"Int": "String", "String": "Int", "Boolean": "Int", "Float": "Boolean", "ID": "Boolean"}
    sites = [x for x in _var_sites(p) if base(x[2]) in swaps and base(p.decls[x[0]].variables[x[1]][1]) == base(x[2])
             and p.decls[x[0]].variables[x[1]][2] is None
             and _unpassed(p, p.decls[x[0]], p.decls[x[0]].variables[x[1]][0])]
    site = _pick(rng, sites)
    if not site:
        return None
    q = _fork(p)
    d = q.decls[site[0]]
    n, vt, dv = d.variables[site[1]]

    def swap(t):
        if t[0] == "named":
            return named(swaps[t[1]])
        return (t[0], swap(t[1]))
    d.variables[site[1]] = (n, swap(vt), None)
    return _done(q, "incompatible-variable-type/other-scalar", site[4], f"{d.ident()}: ${n}: {type_str(swap(vt))} used as {type_str(site[2])}")


def m_variable_list_depth(p, rng):
    sites = [x for x in _var_sites(p) if p.decls[x[0]].variables[x[1]][2] is None
             and list_depth(p.decls[x[0]].variables[x[1]][1]) == list_depth(x[2])
             and _unpassed(p, p.decls[x[0]], p.decls[x[0]].variables[x[1]][0])]
    site = _pick(rng, sites)
    if not site:
        return None
    q = _fork(p)
    d = q.decls[site[0]]
    n, vt, dv = d.variables[site[1]]
    new = lst(vt)
    d.variables[site[1]] = (n, new, None)
    return _done(q, "incompatible-variable-type/list-for-item", site[4], f"{d.ident()}: ${n}: {type_str(new)} used as {type_str(site[2])}")


def m_duplicate_response_name(p, rng):
    site = _pick(rng, _sites(p, lambda d, s, pos: s.kind in ("scalar", "object", "client") and not is_refinement(p, s)))
    if not site:
        return None
    q = _fork(p)
    d, s, cont, i = _resolve(q, site[0], site[1])
    key = s.key()
    if s.name == "__typename":
        return None
    cont.insert(rng.randint(0, len(cont)), Sel("typename", "__typename", s.parent, nn(named("String")), alias=key))
    return _done(q, "duplicate-response-name/alias-equals-other-key", site[2], f"{d.ident()}: {key}: __typename next to {key}")


def m_same_field_twice(p, rng):
    site = _pick(rng, _sites(p, lambda d, s, pos: s.kind == "scalar" and _server(p, s) and not s.args and not s.directives))
    if not site:
        return None
    q = _fork(p)
    d, s, cont, i = _resolve(q, site[0], site[1])
    cont.insert(rng.randint(0, len(cont)), s.clone())
    return _done(q, "duplicate-response-name/same-field-twice", site[2], f"{d.ident()}: {s.key()} selected twice")


FAULTS = [m_undefined_field, m_object_without_selection_set, m_scalar_with_selection_set, m_undefined_argument,
          m_undefined_argument_named_id, m_missing_required_argument_scalar, m_missing_required_argument_object,
          m_missing_required_argument_client, m_undeclared_variable, m_undeclared_variable_nested_in_object,
          m_unused_variable, m_unused_variable_named_like_elsewhere, m_undeclared_variable_declared_elsewhere, m_wrong_literal_type, m_null_for_non_null, m_wrong_type_inside_object_literal,
          m_variable_nullability, m_variable_nullable_with_default, m_variable_base_type, m_variable_list_depth, m_duplicate_response_name,
          m_same_field_twice]


def single_fault_mutants(p, rng, per_kind=1):
    out = []
    for f in FAULTS:
        for _ in range(per_kind):
            try:
                q = f(p, rng)
            except (KeyError, IndexError, TypeError):
                q = None
            if q is not None:
                out.append(q)
    return out


def multi_fault(p, rng, k=3):
    q = p
    done = []
    for _ in range(k):
        f = rng.choice(FAULTS)
        try:
            r = f(q, rng)
        except (KeyError, IndexError, TypeError):
            r = None
        if r is not None:
            q = r
            done.append(r.mutation["fault"])
    if q is p:
        return None
    q.mutation = {"fault": "multi", "faults": done}
    return q


# ---------------------------------------------------------------------------
# C15: meaning-preserving rearrangements
# ---------------------------------------------------------------------------
def t_permute(p, rng):
    q = _fork(p)
    n = 0
    reach = {d.ident() for d in _reachable_decls(q)}
    for d in field_decls(q):
        def rec(sels):
            nonlocal n
            if len(sels) > 1:
                before = [id(x) for x in sels]
                rng.shuffle(sels)
                n += before != [id(x) for x in sels] and d.ident() in reach
            for s in sels:
                if s.sels:
                    rec(s.sels)
        rec(d.sels)
    if not n:
        return None
    q.render_files()
    q.transformation = {"t": "permute", "sets_changed": n}
    return q


def _reachable_decls(p):
    seen, todo = set(), [d for d in p.decls if d.kind == "entrypoint"]
    out = []
    while todo:
        d = todo.pop()
        t = p.decl(d.ident()) if d.kind == "entrypoint" else d
        if t is None or t.ident() in seen:
            continue
        seen.add(t.ident())
        out.append(t)
        for s, *_ in walk(p, t):
            if s.kind in ("client", "pointer"):
                x = p.decl(s.target)
                if x is not None:
                    todo.append(x)
    return out


def t_duplicate_under_alias(p, rng):
    """Repeat a scalar selection (same field, same arguments) under a second alias."""
    reach = {d.ident() for d in _reachable_decls(p)}
    sites = [x for x in _sites(p, lambda d, s, pos: d.ident() in reach and s.kind == "scalar" and _server(p, s) and not s.directives)]
    site = _pick(rng, sites)
    if not site:
        return None
    q = _fork(p)
    d, s, cont, i = _resolve(q, site[0], site[1])
    c = s.clone()
    keys = {x.key() for x in cont}
    c.alias = next(a for a in (f"dup{j}" for j in range(100)) if a not in keys)
    cont.insert(rng.randint(0, len(cont)), c)
    q.render_files()
    q.transformation = {"t": "duplicate-under-alias", "where": f"{d.ident()}: {s.parent}.{s.name} as {c.alias}"}
    return q


def t_extract_client_field(p, rng):
    """Move a subset of a reachable client field's top-level selections into a new client field on the
    same type, selected at the same place."""
    cands = [d for d in _reachable_decls(p) if d.kind == "field" and d.sels and len(d.sels) >= 2]
    if not cands:
        return None
    q = _fork(p)
    d0 = rng.choice(cands)
    d = q.decl(d0.ident())
    movable = [s for s in d.sels if s.kind in ("scalar", "object", "typename") and not s.directives]
    if not movable:
        return None
    k = rng.randint(1, len(movable))
    moved = rng.sample(movable, k)
    if len(moved) == len(d.sels):
        moved = moved[:-1]
        if not moved:
            return None
    keep = [s for s in d.sels if all(s is not m for m in moved)]
    # variables used by the moved selections are declared on the new field and passed through
    used = []
    for m in moved:
        for x in [m] + [y[0] for y in _walk_sub(m)]:
            for _a, v in x.args:
                for n in vars_in_value(v):
                    if n not in used:
                        used.append(n)
    vdefs = [(n, vt, None) for n, vt, dv in d.variables if n in used]
    new_name = "Extracted" + str(rng.randint(0, 99))
    if q.decl(f"{d.parent}.{new_name}") is not None or new_name in q.schema.types[d.parent]["fields"]:
        return None
    nd = Decl("field", d.parent, new_name, vdefs, [], moved)
    nd.file, nd.export_name, nd.header_ws = d.file, new_name, None
    # a variable with a default on the parent may be nullable there and required below: keep exact types,
    # defaults stay with the parent (the parent always passes the variable)
    sel = Sel("client", new_name, d.parent, None, None, [(n, ("var", n)) for n, _t, _d in vdefs], [], None, nd.ident())
    d.sels = keep + [sel]
    rng.shuffle(d.sels)
    idx = q.decls.index(d)
    q.decls.insert(idx, nd)
    q.render_files()
    q.transformation = {"t": "extract-client-field", "from": d.ident(), "moved": [m.key() for m in moved], "new": nd.ident()}
    return q


def t_inline_client_field(p, rng):
    """Replace a non-loadable selection of a client field without variables by its selections
    (only when no response-key clash arises)."""
    reach = {d.ident() for d in _reachable_decls(p)}
    sites = []
    for di, d in enumerate(p.decls):
        if d.kind != "field" or d.sels is None or d.ident() not in reach:
            continue
        for s, cont, i, pos, depth in walk(p, d):
            if s.kind == "client" and not s.directives and not s.args:
                t = p.decl(s.target)
                if t is not None and t.kind == "field" and not t.variables and t.sels:
                    keys = {x.key() for x in cont if x is not s}
                    if not any(x.key() in keys for x in t.sels):
                        sites.append((di, _path_of(p, d, s)))
    site = _pick(rng, sites)
    if not site:
        return None
    q = _fork(p)
    d, s, cont, i = _resolve(q, site[0], site[1])
    t = q.decl(s.target)
    cont[i:i + 1] = [x.clone() for x in t.sels]
    q.render_files()
    q.transformation = {"t": "inline-client-field", "where": d.ident(), "inlined": t.ident()}
    return q


_LITS = {"Int": [("int", 32), ("int", 7)], "String": [("str", "lit"), ("str", "other")], "Boolean": [("bool", True), ("bool", False)],
         "ID": [("str", "id9")], "Float": [("int", 3)]}


def add_literal_sibling(p, rng):
    """Not a transformation of meaning but a richer BASE program: next to a top-level selection `f(arg: $v)` of a
    reachable client field add `sibN: f(arg: <literal>)`, so that later transformations find the same field selected
    with a variable and with a literal at one place."""
    reach = {d.ident() for d in _reachable_decls(p)}
    sites = []
    for di, d in enumerate(p.decls):
        if d.kind != "field" or d.sels is None or d.ident() not in reach:
            continue
        vt = {n: t for n, t, _dv in d.variables}
        for si, s in enumerate(d.sels):
            if s.kind == "scalar" and _server(p, s) and not s.directives:
                for ai, (a, v) in enumerate(s.args):
                    if v[0] == "var" and v[1] in vt and list_depth(vt[v[1]]) == 0 and base(vt[v[1]]) in _LITS:
                        sites.append((di, si, ai))
    site = _pick(rng, sites)
    if not site:
        return None
    q = _fork(p)
    d = q.decls[site[0]]
    s = d.sels[site[1]]
    a, v = s.args[site[2]]
    t = {n: t for n, t, _dv in d.variables}[v[1]]
    c = s.clone()
    c.args[site[2]] = (a, rng.choice(_LITS[base(t)]))
    keys = {x.key() for x in d.sels}
    c.alias = next(k for k in (f"sib{j}" for j in range(100)) if k not in keys)
    d.sels.insert(rng.randint(0, len(d.sels)), c)
    q.render_files()
    return q


def t_parametrize_literal(p, rng):
    """Replace a top-level selection `f(arg: <literal>)` of a reachable client field by a new client field
    `N($x: T) { f(arg: $x) }` selected as `N(x: <literal>)`.  The parameter is NAMED like one of the parent's own
    variables when possible: client field variables are local, a name collision must not matter."""
    reach = {d.ident() for d in _reachable_decls(p)}
    sites = []
    for di, d in enumerate(p.decls):
        if d.kind != "field" or d.sels is None or d.ident() not in reach:
            continue
        for si, s in enumerate(d.sels):
            if s.kind == "scalar" and _server(p, s) and not s.directives:
                ad = argdefs_of(p, s) or {}
                for ai, (a, v) in enumerate(s.args):
                    if v[0] in ("int", "str", "bool") and a in ad and list_depth(ad[a][0]) == 0 and base(ad[a][0]) in _LITS:
                        sites.append((di, si, ai))
    site = _pick(rng, sites)
    if not site:
        return None
    q = _fork(p)
    d = q.decls[site[0]]
    s = d.sels[site[1]]
    a, lit = s.args[site[2]]
    at = argdefs_of(q, s)[a][0]
    # prefer the name of a parent variable of the same type that is used on the same field elsewhere in the set
    same_type = [n for n, t, _dv in d.variables if type_str(t) == type_str(at) or type_str(isogen.strip_nn(t)) == type_str(isogen.strip_nn(at))]
    used_on_same_field = [v[1] for x in d.sels if x is not s and x.name == s.name for _a, v in x.args if v[0] == "var"]
    pref = [n for n in same_type if n in used_on_same_field] or same_type
    passthrough = []
    for _a2, v2 in s.args:
        for n in vars_in_value(v2):
            if n not in passthrough:
                passthrough.append(n)
    pname = next((n for n in pref if n not in passthrough), None) or next(n for n in (f"p{j}" for j in range(100)) if n not in passthrough and all(n != x for x, _t, _d in d.variables))
    vdefs = [(pname, at, None)] + [(n, t, None) for n, t, _dv in d.variables if n in passthrough]
    new_name = "Param" + str(rng.randint(0, 99))
    if q.decl(f"{d.parent}.{new_name}") is not None or new_name in q.schema.types[d.parent]["fields"]:
        return None
    inner = s.clone()
    inner.args[site[2]] = (a, ("var", pname))
    nd = Decl("field", d.parent, new_name, vdefs, [], [inner])
    nd.file, nd.export_name, nd.header_ws = d.file, new_name, None
    sel = Sel("client", new_name, d.parent, None, None, [(pname, lit)] + [(n, ("var", n)) for n in passthrough], [], None, nd.ident())
    d.sels[site[1]] = sel
    q.decls.insert(q.decls.index(d), nd)
    q.render_files()
    q.transformation = {"t": "parametrize-literal", "where": f"{d.ident()}: {s.name}({a}: {isogen.iso_value(lit)}) -> {new_name}({pname}: ...)",
                        "collides_with_parent_variable": pname in [n for n, _t, _d in d.variables]}
    return q


TRANSFORMS = [t_permute, t_duplicate_under_alias, t_extract_client_field, t_inline_client_field, t_parametrize_literal]


# ---------------------------------------------------------------------------
# C14: layout permutations (same literals, other files / discovery order)
# ---------------------------------------------------------------------------
def relayout(p, rng):
    q = _fork(p)
    pool = ["a.ts", "b/a.ts", "b/c/z.tsx", "zz.js", "0first.ts", "Upper/M.jsx", "b/a2.ts", "deep/er/est/x.ts"]
    k = rng.randint(1, 5)
    files = rng.sample(pool, k)
    order = list(range(len(q.decls)))
    rng.shuffle(order)
    q.decls = [q.decls[i] for i in order]
    for d in q.decls:
        d.file = rng.choice(files)
    q.render_files()
    q.transformation = {"t": "relayout", "files": sorted({d.file for d in q.decls})}
    return q
