"""Engine E2 driver: runs harness/intern_mon (native stress with delay plans, Miri
many-seeds, TSan) and turns its reports into verdicts for C05 / C06.

Sanitizer / Miri output is parsed by report blocks; exit codes alone are never
trusted (a non-zero exit without a recognised block is *inconclusive*)."""
import json
import os
import re
import subprocess

import runner
from runner import HARNESS, Inconclusive, NCPU, subseed

PKG = "intern_mon"
SUM_KEYS = ("histories", "nontrivial", "events", "delays_injected", "rendezvous_met", "findings_dropped")
SET_KEYS = ("fp_full", "fp_contention", "fp_nontrivial")


# --------------------------------------------------------------------------
# reports
# --------------------------------------------------------------------------
def parse_reports(stdout):
    out = []
    for line in stdout.splitlines():
        line = line.strip()
        if line.startswith('{"tool":"intern_mon"'):
            try:
                out.append(json.loads(line))
            except ValueError:
                pass
    return out


def _merge_num(dst, src):
    for k, v in src.items():
        if isinstance(v, dict):
            _merge_num(dst.setdefault(k, {}), v)
        elif isinstance(v, (int, float)) and not isinstance(v, bool):
            dst[k] = dst.get(k, 0) + v


def merge(total, rep):
    for k in SUM_KEYS:
        total[k] = total.get(k, 0) + rep.get(k, 0)
    for k in SET_KEYS:
        total.setdefault(k, set()).update(rep.get(k, []))
    _merge_num(total.setdefault("stats", {}), rep.get("stats", {}))
    _merge_num(total.setdefault("hook_hits", {}), rep.get("hook_hits", {}))
    _merge_num(total.setdefault("extra", {}), rep.get("extra") or {})
    total.setdefault("findings", []).extend(rep.get("findings", []))
    if len(total.setdefault("samples", [])) < 5:
        total["samples"].extend(rep.get("samples", [])[:5 - len(total["samples"])])
    for k in ("crashes", "miri_reports", "san_reports"):
        if rep.get(k):
            total.setdefault(k, []).extend(rep[k])


def build(flavour="native"):
    bindir = runner.cargo_build([PKG], flavour=flavour)
    return os.path.join(bindir, PKG)


# --------------------------------------------------------------------------
# native stress: one shard = a sequence of fresh processes (chunks); a process that
# dies is restarted after the history that killed it
# --------------------------------------------------------------------------
def native_shard(binary, mode, seed, histories, chunk, threads, ops, workdir, tag, samples=0, blob=False,
                 env=None, stderr_parser=None):
    total = {}
    crashes = []
    done = 0
    ci = 0
    while done < histories:
        n = min(chunk, histories - done)
        cseed = subseed(seed, "chunk", ci)
        start = 0
        while start < n:
            prog = os.path.join(workdir, f"progress-{tag}-{ci}.txt")
            if os.path.exists(prog):
                os.remove(prog)
            cmd = [binary, mode, "--seed", str(cseed), "--count", str(n), "--start", str(start),
                   "--threads", str(threads), "--ops", str(ops), "--progress", prog,
                   "--samples", str(samples if (ci == 0 and start == 0) else 0)]
            if blob and ci == 0 and start == 0:
                cmd += ["--blob-out", os.path.join(workdir, f"blob-{tag}.json")]
            e = dict(os.environ)
            if env:
                e.update(env)
            try:
                r = subprocess.run(cmd, stdout=subprocess.PIPE, stderr=subprocess.PIPE, timeout=7200, env=e)
            except subprocess.TimeoutExpired:
                raise Inconclusive(f"intern_mon {mode} watchdog fired (seed {cseed})")
            reps = parse_reports(r.stdout.decode(errors="replace"))
            err = r.stderr.decode(errors="replace")
            if stderr_parser is not None:
                blocks = stderr_parser(err)
                if blocks:
                    total.setdefault("san_reports", []).extend(blocks)
            if reps:
                merge(total, reps[-1])
                break
            # died without a report: which history?
            try:
                lines = [l.split() for l in open(prog).read().splitlines() if l.strip()]
            except OSError:
                lines = []
            if not lines:
                raise Inconclusive(f"intern_mon {mode} died before its first history (rc {r.returncode}): {err[-400:]}")
            idx, hseed = int(lines[-1][0]), lines[-1][1]
            crashes.append({"history_seed": hseed, "chunk_seed": str(cseed), "index": idx, "returncode": r.returncode,
                            "stderr_tail": err[-500:],
                            "replay": f"harness/target/verif/intern_mon {mode} --only-hseed {hseed} --threads {threads} --ops {ops}"})
            total["histories"] = total.get("histories", 0) + (idx - start)
            if len(crashes) > 30:
                raise Inconclusive(f"intern_mon {mode} keeps dying: {crashes[-1]}")
            start = idx + 1
        done += n
        ci += 1
    total["crashes"] = crashes
    return total


def run_native(ctx, mode, per_shard, chunk, threads, ops, samples=2, blob=False, shards=NCPU):
    binary = build()
    jobs = list(range(shards))

    def one(i):
        return native_shard(binary, mode, subseed(ctx.seed, "intern", mode, i), per_shard, chunk, threads, ops,
                            ctx.work, f"{mode}-{i}", samples if i == 0 else 0, blob)

    total = {}
    for rep in runner.run_shards(jobs, one):
        merge(total, rep)
    if blob:
        def load(i):
            p = os.path.join(ctx.work, f"blob-{mode}-{i}.json")
            if not os.path.exists(p):
                return None
            rc, out, err = runner.sh([binary, "serde-load", "--blob-in", p], timeout=600)
            reps = parse_reports(out)
            if not reps:
                # a panic inside the repository's deserializer while reading what its own serializer wrote is a
                # failed round trip, not a harness problem
                m = re.search(r"panicked at ([^\s:]+):\d+:\d+:\n([^\n]*)", err)
                if m and m.group(1).startswith(runner.REPO_PREFIX):
                    where = os.path.relpath(m.group(1), runner.REPO_PREFIX)
                    return {"findings": [{"property": "C05", "rule": "serde-round-trip",
                                          "signature": f"C05/serde-round-trip/deserializer-panicked@{where}",
                                          "detail": f"re-reading blob {os.path.basename(p)} in a fresh process panicked at {where}: {m.group(2)[:160]}",
                                          "case": {"blob": p, "stderr": err[-600:], "history_seed": None}}], "stats": {}}
                raise Inconclusive(f"serde-load died (rc {rc}): {err[-300:]}")
            return reps[-1]
        loaded = [r for r in runner.run_shards(jobs, load) if r]
        total["blobs_loaded_in_fresh_process"] = len(loaded)
        for r in loaded:
            total.setdefault("findings", []).extend(r.get("findings", []))
            _merge_num(total.setdefault("stats", {}), r.get("stats", {}))
    return total


# --------------------------------------------------------------------------
# Miri
# --------------------------------------------------------------------------
def miri_kind(headline):
    h = headline.lower()
    table = [("data race", "data-race"), ("retag", "aliasing-model"), ("borrow stack", "aliasing-model"),
             ("tree borrows", "aliasing-model"), ("protected", "aliasing-model"), ("forbidden", "aliasing-model"),
             ("dangling", "dangling-or-oob"), ("freed", "dangling-or-oob"), ("out-of-bounds", "dangling-or-oob"),
             ("uninitialized", "uninit-read"), ("leaked", "leak"), ("deadlock", "deadlock"),
             ("unaligned", "misaligned"), ("alignment", "misaligned")]
    for needle, kind in table:
        if needle in h:
            return kind
    return "ub-other"


def coarse_frame(fn):
    """strip generic instantiations so that one cause gives one signature"""
    prev = None
    while prev != fn:
        prev = fn
        fn = re.sub(r"(::)?<(?![^<>]* as )[^<>]*>", "", fn)
    return fn


def parse_miri(err):
    """-> (report blocks, unsupported blocks).  A block starts at a line `error: ...`."""
    reports, unsupported = [], []
    parts = re.split(r"(?m)^(?=error: )", err)
    for part in parts:
        if not part.startswith("error: "):
            continue
        head = part.splitlines()[0][len("error: "):]
        if head.startswith("aborting due to") or "could not compile" in head:
            continue
        frames = re.findall(r"\d+: ([^\n]+)\n\s+at ([^\n]+)", part)
        first_repo = next((fn.strip() for fn, at in frames if at.strip().startswith(runner.REPO_PREFIX)), None)
        first_at = next((at.strip() for fn, at in frames if at.strip().startswith(runner.REPO_PREFIX)), None)
        m = re.search(r"-->\s*(" + re.escape(runner.REPO_PREFIX) + r"[^\s]+)", part)
        if first_repo is None and m:
            first_repo, first_at = m.group(1).rsplit("/", 1)[-1], m.group(1)
        blk = {"headline": head[:300], "first_repo_frame": coarse_frame(first_repo or "?"), "at": first_at or "?"}
        if head.startswith("unsupported operation"):
            unsupported.append(blk)
        elif head.startswith("Undefined Behavior") or "leaked" in head or "deadlock" in head.lower() \
                or "data race" in head.lower() or "the evaluated program" in head:
            blk["kind"] = miri_kind(head)
            reports.append(blk)
        else:
            blk["kind"] = "ub-other"
            reports.append(blk)
    return reports, unsupported


def miri_build():
    runner.sync_lock()
    env = {"RUSTFLAGS": f"--cfg {runner.GUARD}", "MIRIFLAGS": ""}
    rc, out, err = runner.sh(["cargo", "+nightly", "miri", "run", "--offline", "-q", "-p", PKG, "--", "noop"],
                             cwd=HARNESS, env=env, timeout=3600)
    if "usage: intern_mon" not in err and "usage: intern_mon" not in out:
        raise Inconclusive("miri build/run of intern_mon failed: " + err[-800:])


def miri_invocation(mode, script_seed, lo, hi, count, threads, ops, flags):
    env = {"RUSTFLAGS": f"--cfg {runner.GUARD}",
           "MIRIFLAGS": f"-Zmiri-many-seeds={lo}..{hi} " + flags}
    cmd = ["cargo", "+nightly", "miri", "run", "--offline", "-q", "-p", PKG, "--", mode,
           "--seed", str(script_seed), "--count", str(count), "--threads", str(threads), "--ops", str(ops),
           "--profile", "miri"]
    rc, out, err = runner.sh(cmd, cwd=HARNESS, env=env, timeout=7200)
    reps = parse_reports(out)
    reports, unsupported = parse_miri(err)
    total = {"miri_seeds_completed": len(reps), "miri_seeds_requested": hi - lo}
    for r in reps:
        merge(total, r)
    for b in reports:
        b.update({"script_seed": str(script_seed), "seed_range": f"{lo}..{hi}", "flags": flags,
                  "replay": f"cd harness && MIRIFLAGS='-Zmiri-many-seeds={lo}..{hi} {flags}' cargo +nightly miri run -p intern_mon -- "
                            f"{mode} --seed {script_seed} --count {count} --threads {threads} --ops {ops} --profile miri"})
    total["miri_reports"] = reports
    total["miri_unsupported"] = len(unsupported)
    if rc != 0 and not reports:
        if unsupported:
            raise Inconclusive(f"miri: unsupported operation: {unsupported[0]['headline']}")
        raise Inconclusive(f"miri exited {rc} without a recognisable report: {err[-600:]}")
    if rc == 0 and len(reps) < hi - lo:
        raise Inconclusive(f"miri: only {len(reps)} of {hi - lo} seeds printed a report")
    return total


def run_miri(ctx, mode, invocations, seeds_each, count, threads, ops, variants):
    """invocations: number of `cargo miri run` processes (each its own script seed); each
    interprets the program under `seeds_each` Miri scheduler seeds (Miri runs them in parallel)."""
    jobs = []
    for i in range(invocations):
        lo = (ctx.seed * 1000 + i * seeds_each) % 1_000_000
        jobs.append((subseed(ctx.seed, "intern-miri", mode, i), lo, lo + seeds_each, variants[i % len(variants)]))
    workers = max(1, min(invocations, NCPU // max(1, min(seeds_each, NCPU))))

    def one(job):
        s, lo, hi, flags = job
        return miri_invocation(mode, s, lo, hi, count, threads, ops, flags)

    total = {"miri_invocations": invocations}
    for rep in runner.run_shards(jobs, one, workers=workers):
        for k in ("miri_seeds_completed", "miri_seeds_requested", "miri_unsupported"):
            total[k] = total.get(k, 0) + rep.pop(k, 0)
        merge(total, rep)
    return total


# --------------------------------------------------------------------------
# TSan
# --------------------------------------------------------------------------
def parse_tsan(err):
    blocks = []
    for part in err.split("=================="):
        m = re.search(r"WARNING: ThreadSanitizer: ([^\n(]+)", part)
        if not m:
            continue
        frames = re.findall(r"#\d+ ([^\s]+) ([^\s]+)", part)
        fn = next((f for f, at in frames if runner.REPO_PREFIX in at), None)
        if fn is None:
            fn = next((f for f, at in frames if "intern" in f), "?")
        fn = coarse_frame(re.sub(r"::h[0-9a-f]{16}$", "", fn))
        blocks.append({"tool": "tsan", "kind": m.group(1).strip().replace(" ", "-"), "first_repo_frame": fn,
                       "text": part.strip()[:1500]})
    return blocks


def parse_asan(err):
    blocks = []
    for m in re.finditer(r"==\d+==ERROR: (AddressSanitizer|LeakSanitizer): ([^\n]*)", err):
        part = err[m.start():m.start() + 6000]
        frames = re.findall(r"#\d+ 0x[0-9a-f]+ in ([^\s]+) ([^\s]+)", part)
        fn = next((f for f, at in frames if runner.REPO_PREFIX in at), "?")
        fn = coarse_frame(re.sub(r"::h[0-9a-f]{16}$", "", fn))
        kind = m.group(2).split(" on ")[0].split(":")[0].strip().replace(" ", "-")[:40] or "error"
        blocks.append({"tool": "asan" if m.group(1) == "AddressSanitizer" else "lsan", "kind": kind,
                       "first_repo_frame": fn, "text": part[:1500]})
    return blocks


def run_sanitized(ctx, mode, flavour, per_shard, threads, ops, shards=NCPU):
    """flavour: tsan | asan | mca (native build with the crate's own memory_consistency_assertions cfg on)."""
    if flavour == "mca":
        tdir = runner.TARGET + "-mca"
        runner.cargo_build([PKG], extra_env={
            "RUSTFLAGS": f"--cfg {runner.GUARD} --cfg memory_consistency_assertions", "CARGO_TARGET_DIR": tdir})
        binary, env, parser = os.path.join(tdir, "verif", PKG), None, None
    elif flavour == "asan":
        binary = build("asan")
        env, parser = {"ASAN_OPTIONS": "detect_leaks=1:abort_on_error=0:exitcode=77"}, parse_asan
    else:
        binary = build("tsan")
        env, parser = {"TSAN_OPTIONS": "halt_on_error=0 exitcode=0 report_signal_unsafe=0 history_size=4"}, parse_tsan

    def one(i):
        return native_shard(binary, mode, subseed(ctx.seed, "intern-" + flavour, mode, i), per_shard, per_shard, threads, ops,
                            ctx.work, f"{flavour}-{mode}-{i}", 0, False, env=env, stderr_parser=parser)

    total = {}
    for rep in runner.run_shards(list(range(shards)), one):
        merge(total, rep)
    return total


# --------------------------------------------------------------------------
# violations
# --------------------------------------------------------------------------
def violations_for(pid, rep):
    out = []
    for f in rep.get("findings", []):
        if f["property"] != pid:
            continue
        out.append({"rule": f["rule"], "signature": f["signature"], "what": f["detail"][:300],
                    "witness": {"case": f["case"],
                                "replay": f"harness/target/verif/intern_mon {pid.lower()} --only-hseed "
                                          f"{f['case'].get('history_seed', '?')} --threads 8 --ops <ops of the tier> (repeat: schedules vary)"}})
    for c in rep.get("crashes", []):
        sig_rc = c["returncode"]
        out.append({"rule": "fatal-signal", "signature": f"{pid}/native-crash/rc={sig_rc}",
                    "what": f"intern_mon died (rc {sig_rc}) in history seed {c['history_seed']}: {c['stderr_tail'][-160:]}",
                    "witness": c})
    for r in rep.get("miri_reports", []):
        out.append({"rule": "miri", "signature": f"{pid}/miri/{r['kind']}@{r['first_repo_frame']}",
                    "what": f"Miri: {r['headline'][:200]} at {r['at']}", "witness": r})
    for r in rep.get("san_reports", []):
        out.append({"rule": r["tool"], "signature": f"{pid}/{r['tool']}/{r['kind']}@{r['first_repo_frame']}",
                    "what": f"{r['tool']}: {r['kind']} in {r['first_repo_frame']}", "witness": r})
    return out


def interleaving_summary(rep):
    return {"distinct_full_hook_order_fingerprints": len(rep.get("fp_full", ())),
            "distinct_contention_site_order_fingerprints": len(rep.get("fp_contention", ())),
            "distinct_fingerprints_of_nontrivial_histories": len(rep.get("fp_nontrivial", ()))}
