"""Hostile project shapes and raw text mutations for C08 (the compiler never crashes).

A shape is a function (rng) -> {relative path: text} for a complete small project (config, schema,
optional extension, sources).  raw_mutate() edits the files of any project directory in place."""
import json
import os
import random
import re

CONFIG = {"project_root": "./src", "schema": "./schema.graphql", "options": {"on_invalid_id_type": "error"}}

SCHEMA = '''type Query {
  me: User!
  user(id: ID!): User
  node(id: ID!): Node
  search(text: String!, first: Int = 10, filter: Filter): [Result!]!
  pets: [Pet!]
}

type Mutation {
  rename_user(id: ID!, name: String!): RenameResponse!
  set_friend(input: SetFriendInput!): RenameResponse
}

input SetFriendInput { id: ID!, friend: ID! }
input Filter { q: String, limit: Int, inner: Filter }

type RenameResponse { user: User! ok: Boolean }

interface Node { id: ID! }
interface Named { name: String }

type User implements Node & Named {
  id: ID!
  name: String
  age: Int
  friend: User
  friends(first: Int, after: String): [User!]!
  pets: [Pet]
  favorite: Result
}

type Pet implements Node & Named {
  id: ID!
  name: String
  owner: User
  kind: Kind
  toys(only: String!): [String!]
}

enum Kind { CAT DOG }
union Result = User | Pet
scalar Date
'''

EXTENSION = '''extend type Mutation
  @exposeField(field: "rename_user.user", as: "rename", fieldMap: [{ from: "id", to: "id" }])
  @exposeField(field: "set_friend.user", fieldMap: [{ from: "id", to: "input.id" }])

extend type Query
  @exposeField(field: "node.asUser", as: "refetch_user")
'''

SOURCE = '''import { iso } from '@iso';

export const Home = iso(`
  field Query.Home($id: ID!, $text: String!) @component {
    me {
      id
      name
      Avatar
      Friends(first: 3)
      bestFriend {
        name
      }
    }
    user(id: $id) {
      Avatar
      Details @loadable
      __refetch
    }
    search(text: $text, first: 5, filter: { q: "x", inner: { limit: 1 } }) {
      __typename
      asUser {
        name
        Avatar
      }
      asPet {
        name
        PetLine
      }
    }
  }
`)((x) => x);

export const Avatar = iso(`
  field User.Avatar @component {
    name
    age
  }
`)((x) => x);

export const Details = iso(`
  field User.Details {
    id
    pets {
      id
      PetLine
    }
  }
`)((x) => x);

export const Friends = iso(`
  field User.Friends($first: Int) {
    friends(first: $first) {
      id
      name
    }
  }
`)((x) => x);

export const bestFriend = iso(`
  pointer User.bestFriend to User {
    friend {
      __link
    }
  }
`)((data) => data.friend?.__link);

export const PetLine = iso(`
  field Pet.PetLine {
    name
    kind
    owner {
      name
    }
  }
`)((x) => x);

export const ep = iso(`entrypoint Query.Home`);
'''


def base(with_extension=False):
    cfg = json.loads(json.dumps(CONFIG))
    files = {"schema.graphql": SCHEMA, "src/app.tsx": SOURCE}
    if with_extension:
        files["schema-extension.graphql"] = EXTENSION
        cfg["schema_extensions"] = ["./schema-extension.graphql"]
    files["isograph.config.json"] = json.dumps(cfg, indent=1)
    return files


def _src(files, text, name="src/extra.ts"):
    files[name] = "import { iso } from '@iso';\n" + text
    return files


def _lit(kind_and_body, fn="(x) => x"):
    return f"export const x{abs(hash(kind_and_body)) % 10**6} = iso(`\n{kind_and_body}\n`)({fn});\n"


# ---------------------------------------------------------------------------
# shapes
# ---------------------------------------------------------------------------
def s_valid_base(r):
    return base(r.random() < 0.5)


def s_self_recursive_field(r):
    return _src(base(), _lit("  field User.Loop {\n    name\n    Loop\n  }") + "export const e = iso(`entrypoint Query.L`);\n"
                + _lit("  field Query.L {\n    me {\n      Loop\n    }\n  }"))


def s_mutually_recursive_fields(r):
    k = r.randint(2, 5)
    t = ""
    for i in range(k):
        t += _lit(f"  field User.Cyc{i} {{\n    name\n    friend {{\n      Cyc{(i + 1) % k}\n    }}\n  }}")
    t += _lit("  field Query.C {\n    me {\n      Cyc0\n    }\n  }") + "export const e = iso(`entrypoint Query.C`);\n"
    return _src(base(), t)


def s_recursive_loadable(r):
    return _src(base(), _lit("  field User.LL {\n    name\n    friend {\n      LL @loadable\n    }\n  }")
                + _lit("  field Query.C2 {\n    me {\n      LL\n    }\n  }") + "export const e = iso(`entrypoint Query.C2`);\n")


def s_recursive_pointer(r):
    return _src(base(), _lit("  pointer User.pp to User {\n    pp {\n      __link\n    }\n  }", "(d) => d.pp?.__link")
                + _lit("  field Query.C3 {\n    me {\n      pp {\n        name\n      }\n    }\n  }") + "export const e = iso(`entrypoint Query.C3`);\n")


def s_pointer_to_abstract(r):
    target = r.choice(["Node", "Result", "Named", "[Result!]!", "[Node]"])
    return _src(base(), _lit(f"  pointer User.pa to {target} {{\n    favorite {{\n      __link\n    }}\n  }}", "(d) => d.favorite?.__link")
                + _lit("  field Query.C4 {\n    me {\n      pa {\n        __typename\n      }\n    }\n  }") + "export const e = iso(`entrypoint Query.C4`);\n")


def s_pointer_bad_target(r):
    target = r.choice(["Nope", "String", "Kind", "Filter", "Int!", "[[User]]", "Query"])
    return _src(base(), _lit(f"  pointer User.pb to {target} {{\n    friend {{\n      __link\n    }}\n  }}", "(d) => null")
                + _lit("  field Query.C5 {\n    me {\n      pb\n    }\n  }") + "export const e = iso(`entrypoint Query.C5`);\n")


def s_deep_nesting(r):
    n = r.choice([50, 200, 600])
    body = "    name\n"
    for i in range(n):
        body = "    friend {\n" + body + "    }\n"
    return _src(base(), _lit("  field Query.Deep {\n    me {\n" + body + "    }\n  }") + "export const e = iso(`entrypoint Query.Deep`);\n")


def s_deep_client_chain(r):
    n = r.choice([30, 120, 400])
    t = _lit("  field User.Ch0 {\n    name\n  }")
    for i in range(1, n):
        t += _lit(f"  field User.Ch{i} {{\n    friend {{\n      Ch{i - 1}\n    }}\n  }}")
    t += _lit(f"  field Query.Chain {{\n    me {{\n      Ch{n - 1}\n    }}\n  }}") + "export const e = iso(`entrypoint Query.Chain`);\n"
    return _src(base(), t)


def s_many_selections(r):
    n = r.choice([1000, 10000])
    body = "".join(f"      a{i}: name\n" for i in range(n))
    return _src(base(), _lit("  field Query.Many {\n    me {\n" + body + "    }\n  }") + "export const e = iso(`entrypoint Query.Many`);\n")


def s_many_fields(r):
    n = r.choice([300, 1500])
    t = "".join(_lit(f"  field User.F{i} {{\n    name\n  }}") for i in range(n))
    t += _lit("  field Query.MF {\n    me {\n" + "".join(f"      F{i}\n" for i in range(n)) + "    }\n  }") + "export const e = iso(`entrypoint Query.MF`);\n"
    return _src(base(), t)


def s_huge_ints(r):
    v = r.choice(["9223372036854775807", "-9223372036854775808", "9223372036854775808", "99999999999999999999999", "-0", "007"])
    return _src(base(), _lit(f"  field Query.Big {{\n    me {{\n      friends(first: {v}) {{\n        id\n      }}\n    }}\n  }}")
                + "export const e = iso(`entrypoint Query.Big`);\n")


def s_empty_and_odd_files(r):
    f = base()
    f["src/empty.ts"] = ""
    f["src/noiso.ts"] = "export const a = 1;\n"
    f["src/comment.ts"] = "// iso(`field Query.Commented { me { id } }`)\n/* iso(`entrypoint Query.Nope`) */\n"
    f["src/binary.ts"] = "\udcff\udcfe\x00\x01iso(`field"
    f["src/unterminated.ts"] = "export const u = iso(`field Query.Unterminated {\n  me { id }\n"
    f["src/nested.ts"] = "export const n = iso(`field Query.Outer { me { id } }`)(iso(`field Query.Inner { me { id } }`)((x)=>x));\n"
    f["src/weird.ts"] = "iso(``); iso(` `); iso(`\n`); iso(`field`); iso(`entrypoint`); iso(`pointer`); iso(`field Query`); iso(`field Query.`);\n"
    f["src/dollar.ts"] = "export const d = iso(`field Query.Tpl { ${'me'} { id } }`)((x)=>x);\n"
    return f


def s_schema_without_query(r):
    f = base()
    f["schema.graphql"] = SCHEMA.replace("type Query {", "type Root {", 1)
    return f


def s_schema_definition_block(r):
    f = base()
    f["schema.graphql"] = "schema { query: " + r.choice(["User", "Nope", "Query", "Result", "Kind"]) + " mutation: Mutation }\n" + SCHEMA
    return f


def s_duplicate_schema_things(r):
    f = base()
    what = r.choice(["type", "field", "enumvalue", "arg", "interface-impl", "union-member"])
    s = SCHEMA
    if what == "type":
        s += "\ntype User { id: ID! }\n"
    elif what == "field":
        s = s.replace("  age: Int\n", "  age: Int\n  age: String\n")
    elif what == "enumvalue":
        s = s.replace("enum Kind { CAT DOG }", "enum Kind { CAT DOG CAT }")
    elif what == "arg":
        s = s.replace("user(id: ID!): User", "user(id: ID!, id: ID): User")
    elif what == "interface-impl":
        s = s.replace("type Pet implements Node & Named", "type Pet implements Node & Named & Node")
    else:
        s = s.replace("union Result = User | Pet", "union Result = User | Pet | User")
    f["schema.graphql"] = s
    return f


def s_schema_dangling(r):
    f = base()
    what = r.choice(["field-type", "arg-type", "implements", "union-member", "input-field", "remove-user", "remove-node", "remove-kind"])
    s = SCHEMA
    if what == "field-type":
        s = s.replace("favorite: Result", "favorite: Missing")
    elif what == "arg-type":
        s = s.replace("filter: Filter", "filter: MissingInput")
    elif what == "implements":
        s = s.replace("implements Node & Named {\n  id: ID!\n  name: String\n  age", "implements Node & Named & Ghost {\n  id: ID!\n  name: String\n  age")
    elif what == "union-member":
        s = s.replace("union Result = User | Pet", "union Result = User | Pet | Ghost")
    elif what == "input-field":
        s = s.replace("input Filter { q: String", "input Filter { g: Ghost, q: String")
    elif what == "remove-user":
        s = re.sub(r"type User implements[^}]*}\n", "", s)
    elif what == "remove-node":
        s = s.replace("interface Node { id: ID! }\n", "")
    else:
        s = s.replace("enum Kind { CAT DOG }\n", "")
    f["schema.graphql"] = s
    return f


def s_schema_odd_kinds(r):
    f = base()
    what = r.choice(["empty-type", "id-int", "id-list", "id-nullable", "output-as-input", "input-as-output", "interface-field-missing",
                     "union-of-interface", "self-interface", "typename-field", "keyword-names"])
    s = SCHEMA
    if what == "empty-type":
        s += "\ntype Empty {}\n" if r.random() < 0.5 else "\ntype Empty\n"
    elif what == "id-int":
        s = s.replace("type Pet implements Node & Named {\n  id: ID!", "type Pet implements Node & Named {\n  id: Int!")
    elif what == "id-list":
        s = s.replace("type Pet implements Node & Named {\n  id: ID!", "type Pet implements Node & Named {\n  id: [ID!]!")
    elif what == "id-nullable":
        s = s.replace("type Pet implements Node & Named {\n  id: ID!", "type Pet implements Node & Named {\n  id: ID")
    elif what == "output-as-input":
        s = s.replace("filter: Filter", "filter: User")
    elif what == "input-as-output":
        s = s.replace("favorite: Result", "favorite: Filter")
    elif what == "interface-field-missing":
        s = s.replace("type Pet implements Node & Named {\n  id: ID!\n  name: String\n", "type Pet implements Node & Named {\n  id: ID!\n")
    elif what == "union-of-interface":
        s = s.replace("union Result = User | Pet", "union Result = User | Node | Kind")
    elif what == "self-interface":
        s = s.replace("interface Named { name: String }", "interface Named implements Named { name: String }")
    elif what == "typename-field":
        s = s.replace("  age: Int\n", "  age: Int\n  __typename: Int\n  __link: Int\n  __refetch: String\n  asUser: User\n")
    else:
        s += "\ntype type { input: Int, enum: Int, on: Int, true: Int, null: Int, fragment: Int, query: Int }\n"
    f["schema.graphql"] = s
    return f


def s_entrypoint_oddities(r):
    what = r.choice(["non-fetchable", "on-pointer", "on-server-field", "twice-different-directives", "on-mutation-client", "on-interface",
                     "unknown-type", "lazy-and-dup", "on-exposed"])
    f = base(True)
    t = ""
    if what == "non-fetchable":
        t = "export const e = iso(`entrypoint User.Avatar`);\n"
    elif what == "on-pointer":
        t = "export const e = iso(`entrypoint User.bestFriend`);\n"
    elif what == "on-server-field":
        t = "export const e = iso(`entrypoint Query.me`);\nexport const e2 = iso(`entrypoint User.name`);\n"
    elif what == "twice-different-directives":
        t = "export const e = iso(`entrypoint Query.Home @lazyLoad`);\nexport const e2 = iso(`entrypoint Query.Home`);\n"
    elif what == "on-mutation-client":
        t = _lit("  field Mutation.DoIt($id: ID!) {\n    rename_user(id: $id, name: \"x\") {\n      ok\n    }\n  }") + "export const e = iso(`entrypoint Mutation.DoIt`);\n"
    elif what == "on-interface":
        t = _lit("  field Node.OnNode {\n    id\n  }") + "export const e = iso(`entrypoint Node.OnNode`);\n"
    elif what == "unknown-type":
        t = "export const e = iso(`entrypoint Ghost.Home`);\nexport const e2 = iso(`entrypoint Subscription.Home`);\n"
    elif what == "lazy-and-dup":
        t = "export const e = iso(`entrypoint Query.Home @lazyLoad @lazyLoad`);\nexport const e3 = iso(`entrypoint Query.Home @lazyLoad(x: 1)`);\n"
    else:
        t = "export const e = iso(`entrypoint Query.refetch_user`);\nexport const e2 = iso(`entrypoint User.rename`);\n"
    return _src(f, t)


def s_directive_oddities(r):
    d = r.choice(["@loadable", "@updatable", "@component", "@lazyLoad", "@nope", "@loadable(lazyLoadArtifact: true)",
                  "@loadable(lazyLoadArtifact: 1)", "@loadable(bogus: true)", "@updatable(x: 1)", "@loadable @updatable", "@loadable @loadable"])
    where = r.choice(["scalar", "object", "client", "decl", "typename", "link", "refetch"])
    sel = {"scalar": f"      name {d}\n", "object": f"      friend {d} {{\n        id\n      }}\n", "client": f"      Avatar {d}\n",
           "typename": f"      __typename {d}\n", "link": f"      __link {d}\n", "refetch": f"      __refetch {d}\n", "decl": "      name\n"}[where]
    head = f"  field Query.Dir {d if where == 'decl' else ''} {{"
    return _src(base(), _lit(head + "\n    me {\n" + sel + "    }\n  }") + "export const e = iso(`entrypoint Query.Dir`);\n")


def s_refinement_oddities(r):
    what = r.choice(["on-concrete", "not-possible", "unknown", "nested", "scalar-as", "with-args", "alias"])
    body = {"on-concrete": "    me {\n      asUser {\n        name\n      }\n    }\n",
            "not-possible": "    node(id: \"1\") {\n      asKind {\n        name\n      }\n      asFilter {\n        q\n      }\n    }\n",
            "unknown": "    node(id: \"1\") {\n      asGhost {\n        id\n      }\n    }\n",
            "nested": "    node(id: \"1\") {\n      asUser {\n        favorite {\n          asPet {\n            owner {\n              favorite {\n                asUser {\n                  name\n                }\n              }\n            }\n          }\n        }\n      }\n    }\n",
            "scalar-as": "    node(id: \"1\") {\n      asUser\n    }\n",
            "with-args": "    node(id: \"1\") {\n      asUser(x: 1) {\n        name\n      }\n    }\n",
            "alias": "    node(id: \"1\") {\n      u: asUser {\n        name\n      }\n      asUser: asPet {\n        name\n      }\n    }\n"}[what]
    return _src(base(), _lit("  field Query.Ref {\n" + body + "  }") + "export const e = iso(`entrypoint Query.Ref`);\n")


def s_client_field_on_odd_parent(r):
    parent = r.choice(["Node", "Result", "Kind", "Filter", "Date", "String", "Ghost", "Mutation", "RenameResponse", "ID"])
    sel = r.choice(["__typename", "id", "name"])
    return _src(base(), _lit(f"  field {parent}.Odd {{\n    {sel}\n  }}") + _lit("  field Query.UsesOdd {\n    node(id: \"1\") {\n      Odd\n    }\n    me {\n      favorite {\n        Odd\n      }\n    }\n  }")
                + "export const e = iso(`entrypoint Query.UsesOdd`);\n")


def s_name_clashes(r):
    what = r.choice(["client-shadows-server", "two-clients", "field-and-pointer", "reserved", "case"])
    t = {"client-shadows-server": _lit("  field User.name {\n    age\n  }"),
         "two-clients": _lit("  field User.Avatar {\n    id\n  }"),
         "field-and-pointer": _lit("  field User.bestFriend {\n    id\n  }"),
         "reserved": _lit("  field User.__typename {\n    id\n  }") + _lit("  field User.__link {\n    id\n  }") + _lit("  field User.__refetch {\n    id\n  }") + _lit("  field User.asPet {\n    id\n  }"),
         "case": _lit("  field User.avatar {\n    id\n  }") + _lit("  field user.Avatar {\n    id\n  }")}[what]
    return _src(base(), t)


def s_variable_oddities(r):
    v = r.choice(["$a: Ghost", "$a: [Int", "$a: Int = \"s\"", "$a: Filter = { q: 1 }", "$a: Filter = { inner: { inner: { inner: { q: \"x\" } } } }",
                  "$a: Int, $a: String", "$a: Int! = null", "$a: [[[[Int!]!]!]!]!", "$a: User", "$a: Kind = CAT", "$a: Int = $b, $b: Int",
                  "$a: Date = 1", "$a: ID = 1", "$a: Int = -9223372036854775808"])
    return _src(base(), _lit(f"  field Query.Var({v}) {{\n    me {{\n      friends(first: $a) {{\n        id\n      }}\n    }}\n  }}") + "export const e = iso(`entrypoint Query.Var`);\n")


def s_argument_oddities(r):
    a = r.choice(["first: $nope", "first: { a: 1 }", "first: null", "first: true", "first: \"1\"", "first: 1, first: 2", "after: 1",
                  "first: {}", "first: { a: { b: { c: $x } } }", "first:1after:\"x\"", "first: 1,,,", "first: -", "first: 1.5", "first: CAT", "first: [1]"])
    return _src(base(), _lit(f"  field Query.Arg {{\n    me {{\n      friends({a}) {{\n        id\n      }}\n    }}\n  }}") + "export const e = iso(`entrypoint Query.Arg`);\n")


def s_expose_field_oddities(r):
    f = base(True)
    ext = r.choice([
        'extend type Mutation @exposeField(field: "nope.user")\n',
        'extend type Mutation @exposeField(field: "rename_user.nope")\n',
        'extend type Mutation @exposeField(field: "rename_user")\n',
        'extend type Mutation @exposeField(field: "")\n',
        'extend type Mutation @exposeField(field: "rename_user.user.friend.friend.friend")\n',
        'extend type Mutation @exposeField(field: "rename_user.user", fieldMap: [{ from: "nope", to: "id" }])\n',
        'extend type Mutation @exposeField(field: "rename_user.user", fieldMap: [{ from: "id", to: "nope.deep.er" }])\n',
        'extend type Mutation @exposeField(field: "rename_user.user", fieldMap: [{ from: "id", to: "id" }, { from: "id", to: "id" }])\n',
        'extend type Mutation @exposeField(field: "rename_user.ok")\n',
        'extend type Mutation @exposeField(field: "rename_user.user", as: "name")\n',
        'extend type Mutation @exposeField(field: "rename_user.user", as: "rename")\n@exposeField(field: "rename_user.user", as: "rename")\n',
        'extend type Ghost @exposeField(field: "a.b")\n',
        'extend type User @exposeField(field: "friend.friend", as: "ff")\n',
        'extend type Query @exposeField(field: "node.asGhost")\n',
        'extend type Query @exposeField(field: "search.asUser", as: "s")\n',
        'extend type Query @exposeField(field: "pets.owner", as: "po")\n',
        'extend type Mutation @exposeField(field: 1)\n',
        'extend type Mutation @exposeField\n',
        'extend type Mutation @exposeField(field: "rename_user.user", bogus: 1)\n',
        'extend type Mutation @nope(field: "rename_user.user")\n',
        'extend type User { extra: Int }\nextend type User { extra: Int }\n',
        'type Brand { id: ID! }\n',
    ])
    f["schema-extension.graphql"] = ext if r.random() < 0.7 else EXTENSION + ext
    use = _lit("  field Query.UsesExposed {\n    me {\n      rename(name: \"n\")\n      set_friend(input: { friend: \"2\" })\n      ff\n    }\n    refetch_user\n  }") + "export const e = iso(`entrypoint Query.UsesExposed`);\n"
    return _src(f, use) if r.random() < 0.5 else f


def s_expose_field_only(r):
    """A bad @exposeField in the extension as the ONLY error of the project (the sources do not touch exposed fields)."""
    f = s_expose_field_oddities(random.Random(r.random()))
    f.pop("src/extra.ts", None)
    return f


def s_config_variants(r):
    f = base(r.random() < 0.5)
    cfg = json.loads(f["isograph.config.json"])
    o = cfg["options"]
    what = r.choice(["artifact-dir-nested", "artifact-dir-is-src", "artifact-dir-parent", "persisted", "header", "all-options", "root-is-dot"])
    if what == "artifact-dir-nested":
        cfg["artifact_directory"] = "./out/a/b/c"
    elif what == "artifact-dir-is-src":
        cfg["artifact_directory"] = "./src"
    elif what == "artifact-dir-parent":
        cfg["artifact_directory"] = "."
    elif what == "persisted":
        o["persisted_documents"] = {"algorithm": r.choice(["md5", "sha256"]), "include_extra_info": r.random() < 0.5}
    elif what == "header":
        o["generated_file_header"] = r.choice(["x", "*/", "\n", "a\nb", "\\", "/* */ //", " "])
    elif what == "all-options":
        o.update({"module": "commonjs", "no_babel_transform": True, "include_file_extensions_in_import_statements": True, "on_invalid_id_type": "warn"})
    else:
        cfg["project_root"] = "."
        f["app.tsx"] = f.pop("src/app.tsx")
    f["isograph.config.json"] = json.dumps(cfg, indent=1)
    return f


def s_link_refetch_oddities(r):
    body = r.choice(["    __link\n", "    __refetch\n", "    me {\n      __link {\n        id\n      }\n    }\n", "    me {\n      __refetch(x: 1)\n    }\n",
                     "    pets {\n      __refetch\n      owner {\n        __refetch\n        friend {\n          __refetch\n        }\n      }\n    }\n",
                     "    search(text: \"a\") {\n      __refetch\n      __link\n    }\n", "    me {\n      l: __link\n      r: __refetch\n      t: __typename\n    }\n",
                     "    me {\n      favorite {\n        asPet {\n          __refetch\n          PetLine @loadable\n        }\n      }\n    }\n"])
    return _src(base(), _lit("  field Query.LR {\n" + body + "  }") + "export const e = iso(`entrypoint Query.LR`);\n")


def s_loadable_shapes(r):
    body = r.choice(["    me {\n      Friends(first: 1) @loadable\n      Friends @loadable\n    }\n",
                     "    me {\n      a: Friends(first: 1) @loadable\n      b: Friends(first: 2) @loadable(lazyLoadArtifact: true)\n    }\n",
                     "    pets {\n      PetLine @loadable\n    }\n    search(text: \"x\") {\n      asPet {\n        PetLine @loadable\n      }\n    }\n",
                     "    Home(id: \"1\", text: \"t\") @loadable\n", "    me {\n      bestFriend @loadable {\n        name\n      }\n    }\n",
                     "    me {\n      bestFriend {\n        Details @loadable\n        bestFriend {\n          Details @loadable\n        }\n      }\n    }\n"])
    return _src(base(), _lit("  field Query.LS {\n" + body + "  }") + "export const e = iso(`entrypoint Query.LS`);\n")


def s_updatable_shapes(r):
    body = r.choice(["    me {\n      name @updatable\n      friend @updatable {\n        id\n      }\n    }\n",
                     "    me @updatable {\n      id\n    }\n", "    pets @updatable {\n      name @updatable\n      owner @updatable {\n        __link\n      }\n    }\n",
                     "    me {\n      favorite @updatable {\n        asUser {\n          name @updatable\n        }\n      }\n    }\n",
                     "    me {\n      Avatar @updatable\n      bestFriend @updatable {\n        name\n      }\n    }\n"])
    return _src(base(), _lit("  field Query.Up {\n" + body + "  }") + "export const e = iso(`entrypoint Query.Up`);\n")


def s_unicode_and_descriptions(r):
    d = r.choice(['"""\n    doc */ with `backtick` ${x}\n    """', '"plain"', '"""  """', '""""""', '"é日本\U0001F600"'])
    return _src(base(), _lit(f"  field Query.Doc\n    {d}\n  {{\n    me {{\n      name\n    }}\n  }}") + "export const e = iso(`entrypoint Query.Doc`);\n")


SHAPES = [s_valid_base, s_self_recursive_field, s_mutually_recursive_fields, s_recursive_loadable, s_recursive_pointer,
          s_pointer_to_abstract, s_pointer_bad_target, s_deep_nesting, s_deep_client_chain, s_many_selections, s_many_fields,
          s_huge_ints, s_empty_and_odd_files, s_schema_without_query, s_schema_definition_block, s_duplicate_schema_things,
          s_schema_dangling, s_schema_odd_kinds, s_entrypoint_oddities, s_directive_oddities, s_refinement_oddities,
          s_client_field_on_odd_parent, s_name_clashes, s_variable_oddities, s_argument_oddities, s_expose_field_oddities, s_expose_field_only,
          s_config_variants, s_link_refetch_oddities, s_loadable_shapes, s_updatable_shapes, s_unicode_and_descriptions]
HEAVY = {"s_deep_nesting", "s_deep_client_chain", "s_many_selections", "s_many_fields"}


def write_files(files, root):
    for rel, text in files.items():
        p = os.path.join(root, rel)
        os.makedirs(os.path.dirname(p), exist_ok=True)
        with open(p, "w", errors="surrogateescape") as f:
            f.write(text)


# ---------------------------------------------------------------------------
# raw mutations of an on-disk project
# ---------------------------------------------------------------------------
TOKENS = ["{", "}", "(", ")", "@", "$", "\"", ":", "!", "[", "]", ",", ".", "`", "\\", "#", "...", "=", "|", "&", "\n", "\t", "é", "\U0001F600",
          "field", "pointer", "entrypoint", "to", "@loadable", "@component", "@updatable", "__typename", "__link", "__refetch", "asUser",
          "type", "interface", "union", "input", "enum", "scalar", "extend", "implements", "schema", "ID!", "null", "true", "-1", "1e9", '"""']
IDENT = re.compile(r"[A-Za-z_][A-Za-z0-9_]*")


def mutate_text(text, rng, n=None):
    n = n or rng.choice([1, 1, 1, 2, 3, 6])
    done = []
    for _ in range(n):
        if not text:
            text = rng.choice(TOKENS)
            continue
        k = rng.choice(["del-line", "dup-line", "swap-lines", "ins-token", "del-char", "truncate", "swap-ident", "del-token", "dup-block", "replace-ident-with-token"])
        lines = text.split("\n")
        if k == "del-line" and len(lines) > 1:
            del lines[rng.randrange(len(lines))]
            text = "\n".join(lines)
        elif k == "dup-line":
            i = rng.randrange(len(lines))
            lines.insert(i, lines[i])
            text = "\n".join(lines)
        elif k == "swap-lines" and len(lines) > 2:
            i, j = rng.randrange(len(lines)), rng.randrange(len(lines))
            lines[i], lines[j] = lines[j], lines[i]
            text = "\n".join(lines)
        elif k == "ins-token":
            i = rng.randrange(len(text) + 1)
            text = text[:i] + rng.choice(TOKENS) + text[i:]
        elif k == "del-char":
            i = rng.randrange(len(text))
            text = text[:i] + text[i + 1:]
        elif k == "truncate":
            text = text[:rng.randrange(len(text))]
        elif k in ("swap-ident", "replace-ident-with-token", "del-token"):
            ids = list(IDENT.finditer(text))
            if not ids:
                continue
            m = rng.choice(ids)
            if k == "swap-ident":
                rep = rng.choice(ids).group(0)
            elif k == "del-token":
                rep = ""
            else:
                rep = rng.choice(TOKENS)
            text = text[:m.start()] + rep + text[m.end():]
        elif k == "dup-block":
            i = rng.randrange(len(text))
            j = min(len(text), i + rng.randint(1, 200))
            text = text[:j] + text[i:j] + text[j:]
        done.append(k)
    return text, done


def raw_mutate(root, rng, targets=("source", "schema", "extension")):
    """Mutate 1-2 files of the project at root in place; returns a description."""
    cfg = json.load(open(os.path.join(root, "isograph.config.json")))
    cands = []
    src = os.path.normpath(os.path.join(root, cfg["project_root"]))
    if "source" in targets:
        for d, dirs, fs in os.walk(src):
            dirs[:] = [x for x in dirs if x not in ("__isograph", "node_modules")]
            for f in fs:
                if f.endswith((".ts", ".tsx", ".js", ".jsx")):
                    p = os.path.join(d, f)
                    try:
                        if "iso(" in open(p, errors="replace").read():
                            cands.append(("source", p))
                    except OSError:
                        pass
    if "schema" in targets:
        cands += [("schema", os.path.join(root, cfg["schema"]))] * 3
    if "extension" in targets:
        for e in cfg.get("schema_extensions", []):
            cands += [("extension", os.path.join(root, e))] * 3
    out = []
    for _ in range(rng.choice([1, 1, 2])):
        kind, p = rng.choice(cands)
        text = open(p, errors="surrogateescape").read()
        if kind == "source" and rng.random() < 0.8:
            # mutate inside one iso literal (that is where the compiler looks)
            lits = [m for m in re.finditer(r"iso\(`([^`]*)`", text)]
            if lits:
                m = rng.choice(lits)
                new, done = mutate_text(m.group(1), rng)
                text = text[:m.start(1)] + new + text[m.end(1):]
            else:
                text, done = mutate_text(text, rng)
        else:
            text, done = mutate_text(text, rng)
        with open(p, "w", errors="surrogateescape") as f:
            f.write(text)
        out.append({"file": os.path.relpath(p, root), "edits": done})
    return out
