"""Per-case analyzers (run inside worker processes) for C11, C12, C13."""
import collections
import hashlib
import json
import os
import re

import e3
import gqlref
import runner


def build_ref_schema(c):
    try:
        return gqlref.build_schema([gqlref.parse_schema(t, **gqlref.POST_2018) for t in c.schema_texts])
    except gqlref.GraphQLSyntaxError as e:
        raise runner.Inconclusive(f"reference cannot parse the schema of {c.cid}: {e}")


def op_text(c, op):
    text = op.get("text")
    if text is None:
        for _n, doc in c.model.get("json", {}).items():
            if isinstance(doc, dict) and op.get("operationId") in doc:
                return doc[op.get("operationId")]
    return text


def tc_name(s):
    """type condition of an inline fragment / fragment definition (gqlref stores the name)."""
    tc = s.get("typeCondition")
    if isinstance(tc, dict):
        return tc.get("name")
    return tc


def named_type(t):
    while t["kind"] != "NamedType":
        t = t["type"]
    return t["name"]


# ---------------------------------------------------------------------------
# canonical argument values
# ---------------------------------------------------------------------------
def canon_gql(v):
    k = v["kind"]
    if k == "Variable":
        return ["var", v["name"]]
    if k in ("IntValue", "FloatValue"):
        try:
            return ["lit", json.dumps(json.loads(v["value"]))]
        except ValueError:
            return ["lit", v["value"]]
    if k == "StringValue":
        return ["str", v["value"]]
    if k == "BooleanValue":
        return ["lit", "true" if v["value"] else "false"]
    if k == "NullValue":
        return ["lit", "null"]
    if k == "EnumValue":
        return ["enum", v["value"]]
    if k == "ObjectValue":
        return ["obj", [[f["name"], canon_gql(f["value"])] for f in v["fields"]]]
    if k == "ListValue":
        return ["list", [canon_gql(x) for x in v["values"]]]
    return ["?", k]


def canon_ast(v):
    k = v.get("kind")
    if k == "Variable":
        return ["var", v["name"]]
    if k == "Literal":
        return ["lit", json.dumps(v["value"])]
    if k == "String":
        return ["str", v["value"]]
    if k == "Enum":
        return ["enum", v["value"]]
    if k == "Object":
        return ["obj", [[n, canon_ast(x)] for n, x in v["value"]]]
    return ["?", k]


def canon_args_gql(args):
    return [[a["name"], canon_gql(a["value"])] for a in args]


def canon_args_ast(args):
    return [[n, canon_ast(v)] for n, v in (args or [])]


# ---------------------------------------------------------------------------
# C11: normalization AST == operation selection tree
# ---------------------------------------------------------------------------
def compare_trees(schema, parent_type, op_sels, ast_sels, path, out, stats):
    """op_sels: gqlref selections; ast_sels: normalization AST nodes."""
    def okey(s):
        if s["kind"] == "Field":
            return ("F", s["name"], json.dumps(canon_args_gql(s["arguments"])))
        if s["kind"] == "InlineFragment":
            return ("I", tc_name(s), "")
        return ("S", s.get("name"), "")

    def akey(n):
        if n["kind"] in ("Scalar", "Linked"):
            return ("F", n["fieldName"], json.dumps(canon_args_ast(n.get("arguments"))))
        if n["kind"] == "InlineFragment":
            return ("I", n["type"], "")
        return ("?", n.get("kind"), "")

    o = collections.Counter(okey(s) for s in op_sels)
    a = collections.Counter(akey(n) for n in ast_sels)
    if o != a:
        only_op = sorted((o - a).elements())
        only_ast = sorted((a - o).elements())
        kind = []
        if only_op:
            kind.append("operation-selects-what-ast-lacks:" + only_op[0][0])
        if only_ast:
            kind.append("ast-has-what-operation-lacks:" + only_ast[0][0])
        # the cause, as far as the shape tells: keeps known findings from hiding other mismatches
        shape = "/".join("node" if x == "node" else ("..." if x.startswith("... on") else "f") for x in path) or "<root>"
        if not ast_sels and [k[:2] for k in o] == [("F", "__typename")]:
            cause = "placeholder-__typename-of-empty-selection-set"
        elif only_op and only_op[0][0] == "I" and len(o) == 1 and all(k[0] == "F" for k in a):
            tk = schema.types.get(only_op[0][1], {}).get("kind")
            cause = f"operation-wraps-selections-in-fragment-on-{tk}-ast-has-them-unwrapped"
        else:
            cause = "other"
        out.append(("tree-mismatch/" + "+".join(kind) + "@" + shape + ":" + cause,
                    f"at {'/'.join(path) or '<root>'}: only in operation {only_op[:3]}, only in normalization AST {only_ast[:3]}"))
    amap = {}
    for n in ast_sels:
        amap.setdefault(akey(n), n)
    for s in op_sels:
        n = amap.get(okey(s))
        if n is None:
            continue
        if s["kind"] == "InlineFragment":
            stats["inline_fragments"] += 1
            compare_trees(schema, tc_name(s) or parent_type,
                          s["selectionSet"], n.get("selections", []), path + ["... on " + str(n["type"])], out, stats)
            continue
        fd = schema.field(parent_type, s["name"])
        has_sub = s["selectionSet"] is not None
        stats["fields"] += 1
        if has_sub != (n["kind"] == "Linked"):
            out.append(("scalar-vs-linked", f"at {'/'.join(path + [s['name']])}: operation {'has' if has_sub else 'has no'} subselection, AST node is {n['kind']}"))
            continue
        if has_sub:
            if fd is None:
                continue
            tname = named_type(fd["type"])
            tk = schema.types.get(tname, {}).get("kind")
            stats["linked"] += 1
            want = tname if tk == "OBJECT" else None
            if n.get("concreteType") != want:
                stats["concrete_mismatch"] += 1
                subs = n.get("selections") or []
                narrowed = (want is None and len(subs) == 1 and subs[0].get("kind") == "InlineFragment" and subs[0].get("type") == n.get("concreteType"))
                cause = ("abstract-field-narrowed-to-its-only-fragment" if narrowed else
                         ("abstract-field-has-concreteType" if want is None else "object-field-lacks-concreteType"))
                out.append(("concrete-type/" + cause, f"at {'/'.join(path + [s['name']])}: field type {tname} is {tk}, AST concreteType={n.get('concreteType')!r}"))
            if tk == "OBJECT":
                stats["concrete_linked"] += 1
            else:
                stats["abstract_linked"] += 1
            compare_trees(schema, tname, s["selectionSet"], n.get("selections", []), path + [s["name"]], out, stats)


def analyze_c11(c, spec):
    out = {"violations": [], "stats": {}, "nontrivial": False, "ops": [], "sample": None}
    if not c.result.ok() or c.model is None:
        return out
    schema = build_ref_schema(c)
    stats = collections.Counter()
    for where, op, na, _allowed in e3.operations(c.model):
        text = op_text(c, op)
        if text is None or not isinstance(na, dict):
            continue
        try:
            doc = gqlref.parse_executable(text)
        except gqlref.GraphQLSyntaxError:
            stats["unparsable_operation(see C09)"] += 1
            continue
        opdef = [d for d in doc["definitions"] if d["kind"] == "OperationDefinition"][0]
        root = schema.root(opdef["operation"])
        problems = []
        compare_trees(schema, root, opdef["selectionSet"], na.get("selections", []), [], problems, stats)
        stats["operations_compared"] += 1
        if "__refetch" in where:
            stats["refetch_operations_compared"] += 1
        out["ops"].append(hashlib.sha1(text.encode()).hexdigest()[:12])
        for kind, detail in problems:
            out["violations"].append({"rule": kind.split("/")[0], "signature": f"C11/{kind}",
                                      "what": f"{c.cid} {where}: {detail}"[:400],
                                      "witness": {"case": c.describe(), "where": where, "operation": text[:2000],
                                                  "normalizationAst": json.dumps(na)[:2000], "replay": c.replay()}})
    out["stats"] = dict(stats)
    out["nontrivial"] = stats["linked"] > 0
    if out["nontrivial"] and c.kind == "generated":
        out["sample"] = {"case": c.describe(), "operations_compared": stats["operations_compared"], "linked_fields": stats["linked"]}
    return out


# ---------------------------------------------------------------------------
# C13: syntax + import closure
# ---------------------------------------------------------------------------
def analyze_c13(c, spec):
    out = {"violations": [], "stats": {}, "nontrivial": False, "sample": None, "combo": None}
    if not c.result.ok() or c.model is None:
        return out
    m = c.model
    stats = collections.Counter()
    cfg = json.load(open(os.path.join(c.root, "isograph.config.json")))
    opts = cfg.get("options", {})
    for rel, info in m["files"].items():
        stats["files"] += 1
        base = os.path.basename(rel)
        base = re.sub(r"[0-9]+", "N", base)
        if rel.endswith(".ts"):
            stats["ts_files_parsed"] += 1
        elif rel.endswith(".json"):
            stats["json_files_parsed"] += 1
        if not info["syntax_ok"]:
            err = re.sub(r"[0-9]+", "#", info.get("error") or "")[:60]
            out["violations"].append({"rule": "syntax", "signature": f"C13/syntax/{base}/{err}",
                                      "what": f"{c.cid}: {rel} does not parse: {info.get('error')}",
                                      "witness": {"case": c.describe(), "file": rel, "replay": c.replay(),
                                                  "content_head": _head(c, rel)}})
    for imp in m["imports"]:
        if imp["kind"] != "relative":
            stats["package_imports"] += 1
            continue
        stats["relative_imports"] += 1
        res = imp["resolved"]
        if res is None:
            target_outside = os.path.normpath(os.path.join(os.path.dirname(imp["file"]), imp["spec"])).startswith("..")
            if target_outside:
                # import of a user module (resolver): exists iff the source file exists
                stats["user_module_imports_unresolved"] += 1
                out["violations"].append({"rule": "import", "signature": f"C13/unresolved-user-module-import/{os.path.basename(imp['file'])}",
                                          "what": f"{c.cid}: {imp['file']} imports {imp['spec']} which does not exist",
                                          "witness": {"case": c.describe(), "import": imp, "replay": c.replay()}})
            else:
                out["violations"].append({"rule": "import", "signature": f"C13/unresolved-artifact-import/{re.sub(r'[0-9]+', 'N', os.path.basename(imp['file']))}->{re.sub(r'[0-9]+', 'N', os.path.basename(imp['spec']))}",
                                          "what": f"{c.cid}: {imp['file']} imports {imp['spec']} which this compile did not generate",
                                          "witness": {"case": c.describe(), "import": imp, "replay": c.replay()}})
        elif res.startswith(".."):
            stats["user_module_imports"] += 1
        else:
            stats["artifact_imports_resolved"] += 1
            want_ext = opts.get("include_file_extensions_in_import_statements", False)
            if want_ext and not imp["spec"].endswith(".ts"):
                stats["imports_without_requested_extension"] += 1
    for e in m["errors"]:
        code = e.get("code") or "load-error"
        out["violations"].append({"rule": "load", "signature": f"C13/module-load/{code}/{re.sub(r'[0-9]+', 'N', os.path.basename(e['file']))}",
                                  "what": f"{c.cid}: loading {e['file']} failed: {e['error'][:200]}",
                                  "witness": {"case": c.describe(), "error": e, "replay": c.replay()}})
    combo = json.dumps([opts.get("module"), opts.get("include_file_extensions_in_import_statements"), opts.get("no_babel_transform"),
                        opts.get("generated_file_header") is not None, "persisted_documents" in opts,
                        cfg.get("artifact_directory") is not None, sorted(getattr(c.project, "tags", [])) if c.project else "ci"])
    out["combo"] = combo
    out["stats"] = dict(stats)
    out["nontrivial"] = stats["ts_files_parsed"] > 0
    out["sample"] = {"case": c.describe(), "options": opts, "ts_files": stats["ts_files_parsed"], "relative_imports": stats["relative_imports"]}
    return out


def _head(c, rel):
    try:
        with open(os.path.join(c.artifact_dir(), rel), errors="replace") as f:
            return f.read(600)
    except OSError:
        return None


# ---------------------------------------------------------------------------
# C12 (static part): response keys unique per field+arguments, legal names
# ---------------------------------------------------------------------------
NAME_RE = re.compile(r"^[_A-Za-z][_0-9A-Za-z]*$")


def analyze_c12_static(c, spec):
    out = {"violations": [], "stats": {}, "nontrivial": False, "sample": None, "keys": []}
    if not c.result.ok() or c.model is None:
        return out
    stats = collections.Counter()

    def walk(sels, where, path):
        by_key, by_sel = {}, {}
        for s in sels:
            if s["kind"] == "InlineFragment":
                walk(s["selectionSet"], where, path + ["..."])
                continue
            if s["kind"] != "Field":
                continue
            key = s["alias"] or s["name"]
            ident = json.dumps([s["name"], canon_args_gql(s["arguments"])])
            stats["selections"] += 1
            if s["arguments"]:
                stats["selections_with_arguments"] += 1
                out["keys"].append(key)
            if not NAME_RE.match(key):
                out["violations"].append({"rule": "illegal-name", "signature": "C12/response-key-not-a-name",
                                          "what": f"{c.cid} {where}: response key {key!r} is not a GraphQL Name",
                                          "witness": {"case": c.describe(), "key": key, "replay": c.replay()}})
            if key in by_key and by_key[key] != ident:
                out["violations"].append({"rule": "key-collision", "signature": "C12/same-key-for-different-field-or-arguments/" + _arg_kinds(ident, by_key[key]),
                                          "what": f"{c.cid} {where}: key {key} used for {by_key[key]} and {ident}",
                                          "witness": {"case": c.describe(), "key": key, "a": by_key[key], "b": ident, "replay": c.replay()}})
            if ident in by_sel and by_sel[ident] != key:
                out["violations"].append({"rule": "key-split", "signature": "C12/different-keys-for-same-field-and-arguments",
                                          "what": f"{c.cid} {where}: {ident} has keys {by_sel[ident]} and {key}",
                                          "witness": {"case": c.describe(), "replay": c.replay()}})
            by_key[key] = ident
            by_sel[ident] = key
            if s["selectionSet"]:
                walk(s["selectionSet"], where, path + [key])

    for where, op, _na, _al in e3.operations(c.model):
        text = op_text(c, op)
        if text is None:
            continue
        try:
            doc = gqlref.parse_executable(text)
        except gqlref.GraphQLSyntaxError:
            stats["unparsable_operation(see C09)"] += 1
            continue
        for d in doc["definitions"]:
            if d["kind"] == "OperationDefinition":
                walk(d["selectionSet"], where, [])
    out["stats"] = dict(stats)
    out["nontrivial"] = stats["selections_with_arguments"] > 0
    return out


def _arg_kinds(a, b):
    def kinds(x):
        try:
            v = json.loads(x)
            return ",".join(sorted({arg[1][0] for arg in v[1]}))
        except Exception:  # noqa
            return "?"
    return kinds(a) + "|" + kinds(b)
