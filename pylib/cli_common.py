"""Engine E3 plumbing: run the real isograph_cli on project directories, snapshot
artifact trees, run the node probe."""
import hashlib
import json
import os
import re
import resource
import shutil
import signal
import subprocess

import runner
from runner import Inconclusive, NODE, REPO, VERIF

ANSI = re.compile(r"\x1b\[[0-9;]*m")
CPU_BOUND_S = 60.0       # bounded-progress: >60 CPU-seconds for a small project = violation
WALL_WATCHDOG_S = 600.0  # wall clock watchdog firing first = inconclusive


def checked_in_projects():
    out = []
    for name, rel in (("pet-demo", "demos/pet-demo"), ("github-demo", "demos/github-demo"),
                      ("vite-demo", "demos/vite-demo"), ("isograph-react", "libs/isograph-react")):
        root = os.path.join(REPO, rel)
        if os.path.exists(os.path.join(root, "isograph.config.json")):
            out.append({"name": name, "root": root})
    return out


def read_config(project_dir):
    with open(os.path.join(project_dir, "isograph.config.json")) as f:
        return json.load(f)


def artifact_dir_of(project_dir, cfg=None):
    cfg = cfg or read_config(project_dir)
    base = cfg.get("artifact_directory") or cfg["project_root"]
    return os.path.normpath(os.path.join(project_dir, base, "__isograph"))


def copy_checked_in(proj, dest, with_artifacts=False):
    """Minimal copy of a checked-in project: config, schema(s), project_root sources."""
    root = proj["root"]
    cfg = read_config(root)
    if os.path.exists(dest):
        shutil.rmtree(dest)
    os.makedirs(dest)
    shutil.copy(os.path.join(root, "isograph.config.json"), os.path.join(dest, "isograph.config.json"))
    for rel in [cfg["schema"]] + cfg.get("schema_extensions", []):
        d = os.path.join(dest, rel)
        os.makedirs(os.path.dirname(d), exist_ok=True)
        shutil.copy(os.path.join(root, rel), d)
    src = os.path.join(root, cfg["project_root"])
    dst = os.path.join(dest, cfg["project_root"])

    def ignore(d, names):
        ig = {n for n in names if n == "node_modules"}
        if not with_artifacts:
            ig |= {n for n in names if n == "__isograph"}
        return ig

    shutil.copytree(src, dst, ignore=ignore, dirs_exist_ok=True)
    return dest


class CompileResult:
    __slots__ = ("rc", "signal", "cpu_s", "stderr", "stdout", "timed_out")

    def ok(self):
        return self.rc == 0 and self.signal is None

    def panicked(self):
        return "panicked at" in self.stderr or self.rc == 101

    def diagnostics_text(self):
        """stderr without colour and without timing; used for determinism comparisons."""
        t = ANSI.sub("", self.stderr)
        t = re.sub(r"(in|took) [0-9.]+ ?(ms|s|µs|us|ns|m)[ 0-9a-zµ]*\.?", r"\1 <T>", t)
        return t

    def has_diagnostic(self):
        t = ANSI.sub("", self.stderr)
        return "Error when compiling" in t or "ERROR" in t or "error" in t.lower()


def run_cli(cli, project_dir, config="isograph.config.json", extra_env=None, extra_args=(), prefix=(), stack_mb=None):
    env = dict(runner.BASE_ENV)
    env.update({"NO_COLOR": "1", "RUST_BACKTRACE": "0"})
    if extra_env:
        env.update(extra_env)
    cmd = list(prefix) + [cli, "--config", config] + list(extra_args)
    r = CompileResult()
    r.timed_out = False
    pre = None
    if stack_mb:
        # sanitizer builds have much larger frames: give the main thread a stack in proportion, so that only
        # genuinely unbounded recursion overflows it
        def pre():
            resource.setrlimit(resource.RLIMIT_STACK, (stack_mb << 20, stack_mb << 20))
    p = subprocess.Popen(cmd, cwd=project_dir, env=env, stdout=subprocess.PIPE, stderr=subprocess.PIPE, preexec_fn=pre)
    try:
        out, err = p.communicate(timeout=WALL_WATCHDOG_S)
    except subprocess.TimeoutExpired:
        p.kill()
        out, err = p.communicate()
        r.timed_out = True
    ru = resource.getrusage(resource.RUSAGE_CHILDREN)
    r.rc = p.returncode if p.returncode >= 0 else None
    r.signal = signal.Signals(-p.returncode).name if p.returncode < 0 else None
    r.cpu_s = ru.ru_utime + ru.ru_stime  # cumulative; callers use run_cli_cpu for per-child
    r.stdout = out.decode(errors="replace")
    r.stderr = err.decode(errors="replace")
    return r


def run_cli_timed(cli, project_dir, **kw):
    """Like run_cli, measuring the child's own CPU time through a wrapper (`/usr/bin/time -f`)."""
    tf = os.path.join(project_dir, ".verif_time")
    r = run_cli(cli, project_dir, prefix=("/usr/bin/time", "-q", "-f", "%U %S", "-o", tf), **kw)
    try:
        u, s = open(tf).read().split()[:2]
        r.cpu_s = float(u) + float(s)
        os.remove(tf)
    except (OSError, ValueError):
        r.cpu_s = 0.0
    # /usr/bin/time is the direct child: when the compiler is killed by a signal, time exits with 128+signal
    # (the compiler itself only ever exits 0, 1 or 101)
    if r.signal is None and r.rc is not None and r.rc > 128:
        try:
            r.signal = signal.Signals(r.rc - 128).name
            r.rc = None
        except ValueError:
            pass
    return r


def snapshot(d, with_mtime=False):
    out = {}
    if not os.path.isdir(d):
        return out
    for root, dirs, files in os.walk(d):
        dirs.sort()
        rel = os.path.relpath(root, d)
        if not files and not dirs:
            out[(rel + "/") if rel != "." else "./"] = "<empty dir>"
        for f in sorted(files):
            p = os.path.join(root, f)
            with open(p, "rb") as fh:
                h = hashlib.sha256(fh.read()).hexdigest()
            key = os.path.normpath(os.path.join(rel, f))
            out[key] = (h, os.stat(p).st_mtime_ns) if with_mtime else h
    return out


def probe_dump(artifact_dir, out_json):
    if not os.path.exists(NODE):
        raise Inconclusive(f"node 22 not found at {NODE}")
    rc, out, err = runner.sh([NODE, "--no-warnings", os.path.join(VERIF, "node", "probe.mjs"), "dump",
                              artifact_dir, out_json], timeout=600)
    if rc != 0:
        raise Inconclusive("probe.mjs dump failed: " + err[-800:])
    with open(out_json) as f:
        return json.load(f)


def compile_checked_in(cli, proj, workdir, extra_env=None):
    dest = os.path.join(workdir, "ci-" + proj["name"])
    copy_checked_in(proj, dest)
    r = run_cli(cli, dest, extra_env=extra_env)
    return dest, r
