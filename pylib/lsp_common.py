"""Driver for harness/lsp_tools (language-server monitors for C21, C22, C23):
builds the tool from /repo's working tree (hooks on), shards the workload over
processes, restarts after a fatal signal, merges the JSON reports."""
import json
import os
import subprocess

import runner
from runner import Inconclusive, NCPU, subseed

PKG = "lsp_tools"


def build():
    bindir = runner.cargo_build([PKG])
    return os.path.join(bindir, PKG)


def _parse(stdout):
    for line in reversed(stdout.strip().splitlines()):
        line = line.strip()
        if line.startswith("{") and '"tool"' in line:
            try:
                return json.loads(line)
            except ValueError:
                return None
    return None


def _run_once(binary, sub, seed, start, count, work, extra, timeout):
    cmd = [binary, sub, "--seed", str(seed), "--start", str(start), "--count", str(count),
           "--work", work] + list(extra)
    try:
        r = subprocess.run(cmd, stdout=subprocess.PIPE, stderr=subprocess.PIPE, timeout=timeout)
    except subprocess.TimeoutExpired:
        raise Inconclusive(f"lsp_tools {sub} watchdog fired (seed {seed}, cases {start}..{start + count})")
    return r.returncode, _parse(r.stdout.decode(errors="replace")), r.stderr.decode(errors="replace")[-800:]


def _merge(total, rep):
    total["cases"] = total.get("cases", 0) + rep.get("cases", 0)
    total["nontrivial"] = total.get("nontrivial", 0) + rep.get("nontrivial", 0)
    c = total.setdefault("counters", {})
    for k, v in rep.get("counters", {}).items():
        c[k] = c.get(k, 0) + v
    o = total.setdefault("occurrences", {})
    for k, v in rep.get("occurrences", {}).items():
        o[k] = o.get(k, 0) + v
    f = total.setdefault("findings", {})
    found = rep.get("findings", [])
    for x in (found.values() if isinstance(found, dict) else found):
        f.setdefault(x["signature"], x)
    total.setdefault("samples", []).extend(rep.get("samples", []))
    total.setdefault("harness_errors", []).extend(rep.get("harness_errors", []))


def _shard(binary, sub, seed, count, work, extra, samples, chunk, timeout):
    """`count` cases in chunks of `chunk`; a chunk whose process dies is re-run case by
    case so that the dying case is identified (and recorded), the others still count."""
    total = {"crashes": []}
    os.makedirs(work, exist_ok=True)
    start = 0
    first = True
    while start < count:
        n = min(chunk, count - start)
        ex = list(extra) + (["--samples", str(samples)] if first and samples else [])
        rc, rep, err = _run_once(binary, sub, seed, start, n, work, ex, timeout)
        if rc == 0 and rep is not None:
            _merge(total, rep)
        else:
            died = 0
            for i in range(start, start + n):
                rc1, rep1, err1 = _run_once(binary, sub, seed, i, 1, work, extra, timeout)
                if rc1 == 0 and rep1 is not None:
                    _merge(total, rep1)
                else:
                    died += 1
                    total["crashes"].append({"subcommand": sub, "seed": seed, "case": i, "returncode": rc1,
                                             "stderr_tail": err1[-400:],
                                             "replay": f"lsp_tools {sub} --seed {seed} --start {i} --count 1"})
                    if died > 20:
                        raise Inconclusive(f"lsp_tools {sub} keeps dying: {err1[-300:]}")
            if died == 0:
                # died as a batch but not alone: memory/limits, not a property of a case
                raise Inconclusive(f"lsp_tools {sub} died on a chunk (rc {rc}) but on none of its cases: {err[-300:]}")
        start += n
        first = False
    return total


def run_tool(ctx, sub, total_cases, extra=(), samples=2, chunk=400, shards=NCPU, timeout=3600):
    binary = build()
    per = max(1, total_cases // shards)
    jobs = [(i, subseed(ctx.seed, "lsp", sub, i)) for i in range(shards)]

    def one(job):
        i, s = job
        return _shard(binary, sub, s, per, os.path.join(ctx.work, f"{sub}-{i}"), extra,
                      samples if i == 0 else 0, chunk, timeout)

    total = {"crashes": []}
    for rep in runner.run_shards(jobs, one):
        total["crashes"].extend(rep.pop("crashes", []))
        _merge(total, rep)
    for k in ("cases", "nontrivial"):
        total.setdefault(k, 0)
    for k in ("counters", "occurrences", "findings"):
        total.setdefault(k, {})
    for k in ("samples", "harness_errors"):
        total.setdefault(k, [])
    if total["cases"] and len(total["harness_errors"]) > max(3, total["cases"] // 100):
        raise Inconclusive(f"{len(total['harness_errors'])} harness errors, e.g. {total['harness_errors'][0][:300]}")
    return total


def violations(pid, rep):
    out = []
    for sig, f in sorted(rep["findings"].items()):
        w = dict(f.get("witness", {}))
        w["occurrences_this_run"] = rep["occurrences"].get(sig, 1)
        out.append({"rule": f["rule"], "signature": sig, "what": f["what"][:300], "witness": w})
    for c in rep.get("crashes", []):
        out.append({"rule": "fatal-signal", "signature": f"{pid}/native-crash/{c['subcommand']}/rc={c['returncode']}",
                    "what": f"lsp_tools died (rc {c['returncode']}) on case {c['case']}: {c['stderr_tail'][-160:]}",
                    "witness": c})
    return out


def trim_samples(samples, n=3, width=600):
    out = []
    for s in samples[:n]:
        out.append({k: (v[:width] if isinstance(v, str) else v) for k, v in s.items()})
    return out
