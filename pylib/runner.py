"""Shared plumbing for every check: seeds, builds, sharding, verdicts, evidence,
known findings.  Only the python standard library is used."""
import hashlib
import json
import os
import shutil
import subprocess
import sys
import time
from concurrent.futures import ThreadPoolExecutor

VERIF = os.path.dirname(os.path.dirname(os.path.abspath(__file__)))
REPO = os.environ.get("VERIF_REPO", "/repo")
HARNESS = os.path.join(VERIF, "harness")
TARGET = os.path.join(HARNESS, "target")
REPO_PREFIX = os.path.realpath(REPO).rstrip("/") + "/"      # prefix of repository frames in tool reports


def _mirror_harness_for_alt_repo():
    """Development aid (VERIF_REPO=<scratch worktree>, used for seeded-change trials while /repo is busy): the harness
    crates name /repo in their path dependencies, so a copy of the harness sources with those paths rewritten is kept
    under /var/tmp and built into its own target directory. Registered checks never use this."""
    global HARNESS, TARGET
    src = HARNESS
    dst = os.environ.get("VERIF_ALT_HARNESS", "/var/tmp/vf-scratch/harness-alt")
    os.makedirs(dst, exist_ok=True)
    subprocess.run(["rsync", "-a", "--delete", "--exclude", "target*", "--exclude", "Cargo.lock", src + "/", dst + "/"], check=True)
    for root, dirs, files in os.walk(dst):
        dirs[:] = [d for d in dirs if not d.startswith("target")]
        for f in files:
            if f == "Cargo.toml":
                p = os.path.join(root, f)
                t = open(p).read()
                t2 = t.replace('"/repo/', '"' + REPO_PREFIX)
                if t2 != t:
                    open(p, "w").write(t2)
    HARNESS = dst
    TARGET = os.path.join(dst, "target")


if os.path.realpath(REPO) != "/repo":
    _mirror_harness_for_alt_repo()
WORK = os.environ.get("VERIF_TMP", os.path.join(VERIF, ".work"))
NODE = os.environ.get("VERIF_NODE", "/root/.nvm/versions/node/v22.22.2/bin/node")
GUARD = "isographlabs_isograph_verif"
NCPU = min(16, os.cpu_count() or 4)

BASE_ENV = dict(os.environ)
BASE_ENV.update({
    "CARGO_NET_OFFLINE": "true",
    "RUST_BACKTRACE": "0",
})


class Inconclusive(Exception):
    pass


# --------------------------------------------------------------------------
# seeds
# --------------------------------------------------------------------------
MASK = (1 << 64) - 1


def splitmix(x):
    x = (x + 0x9E3779B97F4A7C15) & MASK
    z = x
    z = ((z ^ (z >> 30)) * 0xBF58476D1CE4E5B9) & MASK
    z = ((z ^ (z >> 27)) * 0x94D049BB133111EB) & MASK
    return z ^ (z >> 31)


def subseed(seed, *labels):
    s = seed & MASK
    for l in labels:
        h = int.from_bytes(hashlib.sha256(str(l).encode()).digest()[:8], "little")
        s = splitmix(s ^ h)
    return s


# --------------------------------------------------------------------------
# builds (always from /repo's working tree, hooks on)
# --------------------------------------------------------------------------
def _run(cmd, cwd=None, env=None, timeout=None, input=None):
    e = dict(BASE_ENV)
    if env:
        e.update(env)
    return subprocess.run(cmd, cwd=cwd, env=e, timeout=timeout, input=input,
                          stdout=subprocess.PIPE, stderr=subprocess.PIPE)


def sync_lock():
    """Harness workspace resolves the same versions as /repo."""
    dst = os.path.join(HARNESS, "Cargo.lock")
    if not os.path.exists(dst):
        shutil.copy(os.path.join(REPO, "Cargo.lock"), dst)


def cargo_build(packages, flavour="native", extra_env=None, timeout=3600):
    """Build harness packages (profile `verif`: optimised + debug assertions).
    Returns directory that holds the binaries."""
    sync_lock()
    cmd = ["cargo", "build", "--offline", "--profile", "verif"]
    for p in packages:
        cmd += ["-p", p]
    env = {"RUSTFLAGS": f"--cfg {GUARD}"}
    tdir = TARGET
    if flavour == "asan":
        cmd = ["cargo", "+nightly", "build", "--offline", "--profile", "verif",
               "--target", "x86_64-unknown-linux-gnu"]
        for p in packages:
            cmd += ["-p", p]
        env = {"RUSTFLAGS": f"--cfg {GUARD} -Zsanitizer=address -Cforce-frame-pointers=yes"}
        tdir = TARGET + "-asan"
    elif flavour == "tsan":
        cmd = ["cargo", "+nightly", "build", "--offline", "--profile", "verif",
               "-Zbuild-std", "--target", "x86_64-unknown-linux-gnu"]
        for p in packages:
            cmd += ["-p", p]
        env = {"RUSTFLAGS": f"--cfg {GUARD} -Zsanitizer=thread"}
        tdir = TARGET + "-tsan"
    env["CARGO_TARGET_DIR"] = tdir
    if extra_env:
        env.update(extra_env)
    r = _run(cmd, cwd=HARNESS, env=env, timeout=timeout)
    if r.returncode != 0:
        sys.stderr.write(r.stderr.decode(errors="replace")[-6000:])
        raise Inconclusive(f"cargo build failed for {packages} ({flavour})")
    if flavour == "native":
        return os.path.join(tdir, "verif")
    return os.path.join(tdir, "x86_64-unknown-linux-gnu", "verif")


def build_cli_asan(timeout=7200):
    """isograph_cli with AddressSanitizer (nightly, opt-level 1): thorough leg of C08 - the compiler runs the unsafe
    code of pico and of the intern crate in earnest."""
    tdir = TARGET + "-cli-asan" + ("" if os.path.realpath(REPO) == "/repo" else "-alt")
    env = {"RUSTFLAGS": f"--cfg {GUARD} -Zsanitizer=address -Cforce-frame-pointers=yes", "CARGO_TARGET_DIR": tdir,
           "CARGO_PROFILE_DEV_DEBUG": "1", "CARGO_PROFILE_DEV_OPT_LEVEL": "1"}
    cmd = ["cargo", "+nightly", "build", "--offline", "-p", "isograph_cli", "--target", "x86_64-unknown-linux-gnu",
           "--manifest-path", os.path.join(REPO, "Cargo.toml")]
    r = _run(cmd, cwd=REPO, env=env, timeout=timeout)
    if r.returncode != 0:
        sys.stderr.write(r.stderr.decode(errors="replace")[-3000:])
        raise Inconclusive("cargo +nightly build of isograph_cli with -Zsanitizer=address failed")
    return os.path.join(tdir, "x86_64-unknown-linux-gnu", "debug", "isograph_cli")


def build_cli(timeout=3600):
    """The real isograph_cli from /repo's working tree with the guard on."""
    # VERIF_REPO (development aid: seeded-change trials on a scratch worktree) gets its own target dir so that
    # the binary built from /repo is never overwritten
    tdir = TARGET + "-cli" + ("" if os.path.realpath(REPO) == "/repo" else "-alt")
    # no debug info: the 180 MB debug binary costs ~0.4 s per spawn; panic locations do not need it
    env = {"RUSTFLAGS": f"--cfg {GUARD}", "CARGO_TARGET_DIR": tdir, "CARGO_PROFILE_DEV_DEBUG": "0"}
    cmd = ["cargo", "build", "--offline", "-p", "isograph_cli",
           "--manifest-path", os.path.join(REPO, "Cargo.toml")]
    r = _run(cmd, cwd=REPO, env=env, timeout=timeout)
    if r.returncode != 0:
        sys.stderr.write(r.stderr.decode(errors="replace")[-6000:])
        raise Inconclusive("cargo build of isograph_cli failed")
    return os.path.join(tdir, "debug", "isograph_cli")


# --------------------------------------------------------------------------
# sharded execution
# --------------------------------------------------------------------------
def run_shards(jobs, fn, workers=NCPU):
    """jobs: list; fn(job) -> result.  Thread pool (work is in subprocesses)."""
    with ThreadPoolExecutor(max_workers=workers) as ex:
        return list(ex.map(fn, jobs))


def sh(cmd, cwd=None, env=None, timeout=None, input=None):
    """Run; returns (rc, stdout, stderr) as text; timeout -> Inconclusive."""
    try:
        r = _run(cmd, cwd=cwd, env=env, timeout=timeout, input=input)
    except subprocess.TimeoutExpired:
        raise Inconclusive(f"watchdog fired for {cmd[:3]}")
    return r.returncode, r.stdout.decode(errors="replace"), r.stderr.decode(errors="replace")


# --------------------------------------------------------------------------
# known findings, verdicts, evidence
# --------------------------------------------------------------------------
def load_known():
    """known_findings.json plus known_findings.d/*.json (same format; one file per engine
    so that they can be edited independently). Never written at run time."""
    out = []
    paths = [os.path.join(VERIF, "known_findings.json")]
    d = os.path.join(VERIF, "known_findings.d")
    if os.path.isdir(d):
        paths += sorted(os.path.join(d, f) for f in os.listdir(d) if f.endswith(".json"))
    for p in paths:
        if os.path.exists(p):
            with open(p) as f:
                out += json.load(f).get("findings", [])
    return out


class Ctx:
    def __init__(self, pid, tier, seed):
        self.pid = pid
        self.tier = tier
        self.seed = seed
        self.t0 = time.time()
        self.work = os.path.join(WORK, f"{pid}-{os.getpid()}")
        os.makedirs(self.work, exist_ok=True)

    def quick(self):
        return self.tier == "quick"

    def pick(self, quick, thorough):
        v = quick if self.tier == "quick" else thorough
        scale = os.environ.get("VERIF_SCALE")  # development aid only
        if scale and isinstance(v, int):
            v = max(1, int(v * float(scale)))
        return v

    def cleanup(self):
        shutil.rmtree(self.work, ignore_errors=True)


def finish(ctx, level, coverage, violations, assumptions=(), extra=None):
    """violations: list of {rule, signature, what, witness}.  Splits them into
    known findings and new violations, writes evidence + replay, prints the
    verdict lines, returns the exit code."""
    known = {(k["property"], k["signature"]): k for k in load_known()
             if k.get("status", "open") == "open"}
    new, seen_known = [], {}
    for v in violations:
        k = known.get((ctx.pid, v["signature"]))
        if k is not None:
            seen_known.setdefault(v["signature"], []).append(v)
        else:
            new.append(v)
    for sig, vs in sorted(seen_known.items()):
        print(f"KNOWN-FINDING: property={ctx.pid} {sig}: {vs[0].get('what','')} "
              f"({len(vs)} occurrence(s) this run)")
    rc = 0
    replay_paths = []
    if new:
        os.makedirs(os.path.join(VERIF, "replays"), exist_ok=True)
        by_sig = {}
        for v in new:
            by_sig.setdefault(v["signature"], []).append(v)
        for sig, vs in sorted(by_sig.items()):
            h = hashlib.sha256(sig.encode()).hexdigest()[:10]
            path = os.path.join(VERIF, "replays", f"{ctx.pid}-{h}.json")
            with open(path, "w") as f:
                json.dump({"property": ctx.pid, "seed": ctx.seed, "tier": ctx.tier,
                           "signature": sig, "occurrences": len(vs),
                           "first": vs[0]}, f, indent=1, default=str)
            replay_paths.append(path)
            print(f"VIOLATION property={ctx.pid} replay={path}")
            print(f"  signature={sig} occurrences={len(vs)} what={vs[0].get('what','')}")
        rc = 1
    cov = dict(coverage)
    cov.setdefault("known_finding_signatures_seen", sorted(seen_known))
    ev = {
        "property_id": ctx.pid,
        "tier": ctx.tier,
        "seed": ctx.seed,
        "level": level,
        "coverage": cov,
        "assumptions": list(assumptions),
        "wall_s": round(time.time() - ctx.t0, 2),
        "violations": len(new),
    }
    if extra:
        ev.update(extra)
    os.makedirs(os.path.join(VERIF, "evidence"), exist_ok=True)
    with open(os.path.join(VERIF, "evidence", f"{ctx.pid}.json"), "w") as f:
        json.dump(ev, f, indent=1, default=str)
    # A run that observed nothing is not "held".
    if rc == 0:
        if level in ("exploration", "fault_enumeration") and (
                cov.get("evaluations", 0) < 1 or cov.get("distinct_nontrivial", 0) < 2):
            print(f"INCONCLUSIVE property={ctx.pid} monitors observed too little "
                  f"(evaluations={cov.get('evaluations')}, nontrivial={cov.get('distinct_nontrivial')})")
            return 2
        print(f"HELD property={ctx.pid} tier={ctx.tier} seed={ctx.seed} "
              f"evaluations={cov.get('evaluations')} nontrivial={cov.get('distinct_nontrivial')} "
              f"wall_s={ev['wall_s']}")
    return rc


def inconclusive(ctx, why):
    print(f"INCONCLUSIVE property={ctx.pid} {why}")
    return 2
