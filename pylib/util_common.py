"""Driver for harness/util_tools (properties C07, C31, C32, C33): batches in child
processes, restart after a fatal signal with attribution to the input index,
CPU-time limits (never wall-clock verdicts), report merging, Miri legs."""
import json
import os
import signal
import struct
import subprocess

import runner
from runner import HARNESS, Inconclusive, NCPU, subseed

PKG = "util_tools"
STACK_BYTES = 8 << 20          # the stack real callers parse on (main thread of isograph_cli)
BATCH_CPU_LIMIT_S = 600        # RLIMIT_CPU of one batch child (normal batches use a few CPU-seconds)
WALL_WATCHDOG_S = 3600         # wall-clock watchdog: firing is INCONCLUSIVE, never a violation


def build():
    return os.path.join(runner.cargo_build([PKG]), PKG)


PRLIMIT = "/usr/bin/prlimit"


def _limit_prefix(cpu_s):
    """Resource limits of the child, applied by prlimit(1) (no preexec_fn: the driver is threaded)."""
    pre = [PRLIMIT, f"--stack={STACK_BYTES}:unlimited", "--core=0"]
    if cpu_s:
        pre.append(f"--cpu={cpu_s}:{cpu_s + 5}")
    return pre


def run_tool(binary, args, cpu_s=BATCH_CPU_LIMIT_S, wall_s=WALL_WATCHDOG_S):
    """-> (returncode, report-or-None, stderr_tail, child_cpu_seconds)"""
    if not os.path.exists(PRLIMIT):
        raise Inconclusive("prlimit(1) not available: cannot bound the child's stack / CPU time")
    t0 = os.times()
    try:
        r = subprocess.run(_limit_prefix(cpu_s) + [binary] + [str(a) for a in args],
                           stdout=subprocess.PIPE, stderr=subprocess.PIPE, timeout=wall_s)
    except subprocess.TimeoutExpired:
        raise Inconclusive(f"wall-clock watchdog fired for util_tools {args[:6]}")
    t1 = os.times()
    # children CPU of the whole driver process: exact only when one child runs at a time
    cpu = (t1.children_user + t1.children_system) - (t0.children_user + t0.children_system)
    rep = None
    if r.returncode == 0:
        for line in reversed(r.stdout.decode(errors="replace").strip().split("\n")):
            if line.startswith("{"):
                rep = json.loads(line)
                break
    return r.returncode, rep, r.stderr.decode(errors="replace")[-800:], cpu


def merge(total, rep):
    """Sum numbers, merge dicts of numbers, concatenate lists; max_* keys take the max."""
    for k, v in rep.items():
        if k == "tool":
            total[k] = v
        elif isinstance(v, bool):
            total[k] = total.get(k, False) or v
        elif isinstance(v, (int, float)):
            if k.startswith("max_"):
                total[k] = max(total.get(k, 0), v)
            else:
                total[k] = total.get(k, 0) + v
        elif isinstance(v, dict):
            d = total.setdefault(k, {})
            for kk, vv in v.items():
                if isinstance(vv, (int, float)):
                    d[kk] = d.get(kk, 0) + vv
                else:
                    d.setdefault(kk, vv)
        elif isinstance(v, list):
            if v and all(isinstance(x, (int, float)) for x in v) and k.startswith("col_"):
                cur = total.setdefault(k, [0] * len(v))
                total[k] = [a + b for a, b in zip(cur, v)]
            else:
                total.setdefault(k, []).extend(v)
    return total


def signal_name(rc):
    if rc >= 0:
        return f"exit-{rc}"
    try:
        return signal.Signals(-rc).name
    except ValueError:
        return f"signal-{-rc}"


def _read_progress(path):
    try:
        with open(path, "rb") as f:
            b = f.read(8)
        if len(b) == 8:
            v = struct.unpack("<Q", b)[0]
            return None if v == 0xFFFFFFFFFFFFFFFF else v
    except OSError:
        pass
    return None


def run_batches(ctx, binary, sub, shard_seed, total, batch, extra, tag, with_progress=True):
    """One shard: consecutive batches [0,total) of `sub`, each in its own child process.
    A child that dies is attributed to the index in its progress file and the shard
    resumes right after that index.  -> (merged report, crashes, hash files)"""
    rep, crashes, hashes = {}, [], []
    start = 0
    nbatch = 0
    while start < total:
        count = min(batch, total - start)
        prog = os.path.join(ctx.work, f"{tag}-{nbatch}.progress")
        hfile = os.path.join(ctx.work, f"{tag}-{nbatch}.hashes")
        args = [sub, "--seed", shard_seed, "--start", start, "--count", count, "--hashes", hfile] + list(extra)
        if with_progress:
            args += ["--progress", prog]
        rc, r, err, cpu = run_tool(binary, args)
        nbatch += 1
        if rc == 0 and r is not None:
            merge(rep, r)
            hashes.append(hfile)
            start += count
            continue
        died = _read_progress(prog) if with_progress else None
        if died is None:
            raise Inconclusive(f"util_tools {sub} died (rc {rc}) without a progress index: {err[-300:]}")
        crashes.append({"sub": sub, "seed": shard_seed, "index": died, "returncode": rc,
                        "signal": signal_name(rc), "stderr_tail": err[-400:], "child_cpu_s": round(cpu, 2)})
        if len(crashes) > 40:
            raise Inconclusive(f"util_tools {sub} keeps dying ({len(crashes)} times in one shard)")
        # results of the inputs before the fatal one are lost with the child; redo them cheaply
        if died > start:
            rc2, r2, err2, _ = run_tool(binary, [sub, "--seed", shard_seed, "--start", start, "--count", died - start,
                                                 "--hashes", hfile] + list(extra))
            if rc2 == 0 and r2 is not None:
                merge(rep, r2)
                hashes.append(hfile)
        start = died + 1
    return rep, crashes, hashes


def run_sharded(ctx, binary, sub, label, total, batch, extra=(), shards=NCPU):
    per = max(1, total // shards)
    jobs = [(subseed(ctx.seed, "util", label, i), i) for i in range(shards)]

    def one(job):
        s, i = job
        return run_batches(ctx, binary, sub, s, per, batch, extra, f"{label}-{i}")

    rep, crashes, hashes = {}, [], []
    for r, c, h in runner.run_shards(jobs, one):
        merge(rep, r)
        crashes += c
        hashes += h
    rep["distinct_across_shards"] = distinct(binary, hashes)
    rep["shard_seeds"] = [j[0] for j in jobs][:3]
    return rep, crashes


def distinct(binary, files):
    files = [f for f in files if os.path.exists(f)]
    if not files:
        return 0
    r = subprocess.run([binary, "distinct"] + files, stdout=subprocess.PIPE, stderr=subprocess.PIPE, timeout=1800)
    if r.returncode != 0:
        raise Inconclusive("util_tools distinct failed: " + r.stderr.decode(errors="replace")[-300:])
    return json.loads(r.stdout.decode().strip().split("\n")[-1])["distinct"]


def finding_violations(pid, rep, replay_hint):
    out = []
    counts = rep.get("signature_counts", {})
    seen = set()
    for f in rep.get("findings", []):
        sig = f["signature"]
        if sig in seen:
            continue
        seen.add(sig)
        w = {k: v for k, v in f.items() if k not in ("rule", "signature", "what")}
        w["occurrences_this_run"] = counts.get(sig)
        w["replay"] = replay_hint
        out.append({"rule": f["rule"], "signature": sig, "what": f["what"][:300], "witness": w})
    return out


# --------------------------------------------------------------------------
# Miri
# --------------------------------------------------------------------------
MIRI_ENV = {"RUSTFLAGS": f"--cfg {runner.GUARD}", "MIRIFLAGS": "-Zmiri-ignore-leaks"}


def miri_run(args, timeout=7200):
    """-> (ok, report, stderr). ok=False with an 'Undefined Behavior' text is a finding;
    anything else that fails is inconclusive."""
    runner.sync_lock()
    cmd = ["cargo", "+nightly", "miri", "run", "--offline", "-q", "-p", PKG, "--"] + [str(a) for a in args]
    rc, out, err = runner.sh(cmd, cwd=HARNESS, env=MIRI_ENV, timeout=timeout)
    rep = None
    for line in reversed(out.strip().split("\n")):
        if line.startswith("{"):
            try:
                rep = json.loads(line)
            except ValueError:
                rep = None
            break
    return rc == 0 and rep is not None, rep, err


def miri_sharded(ctx, sub, label, shards, per_shard, extra=()):
    jobs = [subseed(ctx.seed, "util-miri", label, i) for i in range(shards)]

    def one(s):
        return s, miri_run([sub, "--seed", s, "--count", per_shard, "--no-shrink"] + list(extra))

    rep, ub = {}, []
    for s, (ok, r, err) in runner.run_shards(jobs, one):
        if ok:
            merge(rep, r)
        elif "Undefined Behavior" in err:
            ub.append({"seed": s, "stderr_tail": err[-1500:]})
        else:
            raise Inconclusive(f"miri run of util_tools {sub} failed: {err[-600:]}")
    return rep, ub


def miri_violations(pid, ub):
    import re
    out = []
    for u in ub:
        m = re.search(r"error: Undefined Behavior: ([^\n]*)", u["stderr_tail"])
        head = (m.group(1) if m else "undefined behaviour")[:120]
        frames = re.findall(r"at (" + re.escape(runner.REPO_PREFIX) + r"[^\s:]+)", u["stderr_tail"])
        where = os.path.basename(frames[0]) if frames else "?"
        kind = re.sub(r"[^A-Za-z ]", "", head)[:50].strip().replace(" ", "-")
        out.append({"rule": "miri-ub", "signature": f"{pid}/miri-ub/{where}:{kind}",
                    "what": f"Miri: {head} (first /repo frame {where})", "witness": u})
    return out
