"""Engine for C18 / C19: artifact directory == generated artifacts, also after interrupted writes.

Three legs share this module:
  A  harness/iso_tools `fsops sets`    arbitrary artifact-set sequences through the real plan/apply code (in-process)
  B  harness/iso_tools `fsops project` real projects through the real CompilerState/update_sources/compile API (in-process
     watch-session equivalent), plus the real isograph_cli binary as a black box (hook-free)
  S  the real isograph_cli under `strace -e inject=...` (hook-free fault / kill injection)
"""
import collections
import copy
import hashlib
import json
import os
import random
import re
import shutil
import stat
import struct
import subprocess

import cli_common as cc
import isogen
import runner
from runner import Inconclusive, NCPU, subseed

PKG = "iso_tools"
SHM = "/dev/shm"


# ---------------------------------------------------------------------------------------------
# build + work directories
# ---------------------------------------------------------------------------------------------
def build_tool():
    return os.path.join(runner.cargo_build([PKG]), PKG)


class Scratch:
    """ctx.work (ext4) plus, when available, a tmpfs directory: the write-heavy in-process legs run ~10x faster
    on tmpfs; a share of the shards always runs on the disk file system so that both are exercised."""

    def __init__(self, ctx):
        self.disk = os.path.join(ctx.work, "fsops")
        os.makedirs(self.disk, exist_ok=True)
        self.shm = None
        if os.path.isdir(SHM) and os.access(SHM, os.W_OK):
            self.shm = os.path.join(SHM, f"verif-fsops-{ctx.pid}-{os.getpid()}")
            shutil.rmtree(self.shm, ignore_errors=True)
            os.makedirs(self.shm)

    def dir_for(self, i, every=6):
        if self.shm is None or i % every == every - 1:
            return self.disk, "disk"
        return self.shm, "tmpfs"

    def cleanup(self):
        if self.shm:
            shutil.rmtree(self.shm, ignore_errors=True)
        shutil.rmtree(self.disk, ignore_errors=True)


def _run_tool(cmd, timeout=3000):
    try:
        r = subprocess.run(cmd, stdout=subprocess.PIPE, stderr=subprocess.PIPE, timeout=timeout, env=runner.BASE_ENV)
    except subprocess.TimeoutExpired:
        raise Inconclusive(f"iso_tools watchdog fired: {' '.join(cmd[:6])}")
    out = r.stdout.decode(errors="replace").strip().splitlines()
    if r.returncode != 0 or not out:
        raise Inconclusive(f"iso_tools died (rc {r.returncode}): {' '.join(cmd[1:8])}: {r.stderr.decode(errors='replace')[-500:]}")
    try:
        return json.loads(out[-1])
    except ValueError:
        raise Inconclusive("iso_tools printed no JSON report")


def merge_counters(total, part):
    for k, v in part.items():
        total[k] = total.get(k, 0) + v


# ---------------------------------------------------------------------------------------------
# leg A
# ---------------------------------------------------------------------------------------------
def run_sets(ctx, tool, scratch, mode, total_cases, label, max_steps=5, shards=None, disk_factor=1):
    """disk_factor: shards that work on the (slow, `discard`-mounted) disk file system get 1/disk_factor of the cases."""
    shards = shards or NCPU * 2
    per = max(1, total_cases // shards)
    jobs = []
    for i in range(shards):
        base, fs = scratch.dir_for(i)
        jobs.append({"i": i, "seed": subseed(ctx.seed, label, mode, i) % (1 << 62), "fs": fs,
                     "count": max(1, per // disk_factor) if fs == "disk" and scratch.shm else per,
                     "work": os.path.join(base, f"{label}-{mode}-{i}"), "fp": os.path.join(scratch.disk, f"{label}-{mode}-{i}.fp")})

    def one(j):
        rep = _run_tool([tool, "fsops", "sets", "--mode", mode, "--seed", str(j["seed"]), "--count", str(j["count"]),
                         "--work", j["work"], "--max-steps", str(max_steps), "--fp-out", j["fp"], "--samples", "1"])
        fps = set()
        try:
            with open(j["fp"], "rb") as f:
                data = f.read()
            fps = set(struct.unpack(f"<{len(data) // 8}Q", data))
            os.remove(j["fp"])
        except OSError:
            pass
        rep["fps"] = fps
        rep["fs"] = j["fs"]
        return rep

    reps = runner.run_shards(jobs, one)
    total = {"cases": 0, "stats": {}, "findings": [], "samples": [], "fps": set(), "fully_enumerated": 0,
             "file_systems": collections.Counter()}
    for j, rep in zip(jobs, reps):
        total["cases"] += rep["cases"]
        total["fully_enumerated"] += rep.get("cases_fully_enumerated", 0)
        merge_counters(total["stats"], rep["stats"])
        for f in rep["findings"]:
            f["replay"] = (f"harness/target/verif/iso_tools fsops sets --mode {mode} --seed {j['seed']} --count {j['count']} "
                           f"--case {f['case_index']} --work /var/tmp/fsops-replay")
        total["findings"] += rep["findings"]
        total["samples"] += rep["samples"][:1]
        total["fps"] |= rep["fps"]
        total["file_systems"][rep["fs"]] += rep["cases"]
    return total


def violations_from(pid, findings, leg):
    out = []
    for f in findings:
        sig = f"{pid}/{f['rule']}/{f['phase']}/{f['class']}"
        w = {k: f[k] for k in f if k in ("case", "shrunk_case", "detail", "replay", "labels", "root", "case_index", "seed")}
        w["leg"] = leg
        out.append({"rule": f["rule"], "signature": sig, "what": f"[{leg}] {f['what']}"[:400], "witness": w})
    return out


# ---------------------------------------------------------------------------------------------
# real projects: versions (edit sequences) and hostile initial directory contents
# ---------------------------------------------------------------------------------------------
def _walk_sels(sels):
    for s in sels or []:
        yield s
        yield from _walk_sels(s.sels)


def _references(p, exclude=()):
    refs = set()
    for d in p.decls:
        if d.kind == "entrypoint" or d in exclude:
            continue
        for s in _walk_sels(d.sels):
            if s.kind in ("client", "pointer") and s.target:
                refs.add(s.target)
    return refs


def _drop(p, victims):
    ids = {d.ident() for d in victims}
    p.decls = [d for d in p.decls if not (d in victims or (d.kind == "entrypoint" and d.ident() in ids))]


def _simple_field(p, parent, name, rng):
    fields = p.schema.types[parent]["fields"]
    leafs = [fn for fn, fd in fields.items()
             if p.schema.is_leaf(isogen.base(fd["type"])) and not any(not isogen.nullable(a["type"]) and "default" not in a
                                                                     for a in (fd.get("args") or {}).values())]
    if not leafs:
        return None
    sels = [isogen.Sel("scalar", fn, parent, fields[fn]["type"]) for fn in rng.sample(leafs, min(len(leafs), rng.randint(1, 2)))]
    d = isogen.Decl("field", parent, name, [], ["component"] if rng.random() < 0.5 else [], sels)
    d.file = rng.choice(["a.ts", "sub/b.tsx", "extra/new.ts"])
    d.export_name = name
    return d


def edit_project(p, op, rng, original):
    """Returns a new Project (deep copy, edited) or None when the edit does not apply."""
    q = copy.deepcopy(p)
    fields = [d for d in q.decls if d.kind == "field"]
    if op == "remove_all":
        if not q.decls:
            return None
        q.decls = []
    elif op == "restore":
        q = copy.deepcopy(original)
        if [d.ident() + d.kind for d in q.decls] == [d.ident() + d.kind for d in p.decls]:
            return None
    elif op == "remove_unreferenced_field":
        refs = _references(q)
        c = [d for d in fields if d.ident() not in refs]
        if not c:
            return None
        _drop(q, [rng.choice(c)])
    elif op == "remove_entity":
        parents = sorted({d.parent for d in fields})
        rng.shuffle(parents)
        for par in parents:
            victims = [d for d in q.decls if d.kind != "entrypoint" and d.parent == par]
            refs = _references(q, exclude=victims)
            if not any(d.ident() in refs for d in victims):
                _drop(q, victims)
                break
        else:
            return None
    elif op == "add_field":
        objs = [n for n in q.schema.order if q.schema.types[n]["kind"] == "OBJECT" and n != "Mutation"]
        have = {d.parent for d in fields}
        fresh = [n for n in objs if n not in have]
        parent = rng.choice(fresh) if fresh and rng.random() < 0.6 else rng.choice(objs)
        name = f"Extra{len(q.decls)}{rng.randint(0, 99)}"
        d = _simple_field(q, parent, name, rng)
        if d is None:
            return None
        q.decls.append(d)
        if parent == "Query" and rng.random() < 0.7:
            e = isogen.Decl("entrypoint", "Query", name)
            e.file, e.export_name = d.file, None
            q.decls.append(e)
    elif op == "toggle_component":
        if not fields:
            return None
        d = rng.choice(fields)
        d.directives = [x for x in d.directives if x != "component"] if "component" in d.directives else d.directives + ["component"]
    elif op == "drop_selection":
        c = [d for d in fields if d.sels and len(d.sels) >= 2]
        if not c:
            return None
        d = rng.choice(c)
        scal = [s for s in d.sels if s.kind == "scalar" and not s.args]
        if not scal:
            return None
        d.sels.remove(rng.choice(scal))
    elif op == "move_decl":
        if not q.decls:
            return None
        d = rng.choice(q.decls)
        d.file = rng.choice([f for f in ["a.ts", "sub/b.tsx", "sub/deep/c.ts", "moved/m.ts"] if f != d.file])
    elif op == "reformat":
        pass
    else:
        raise ValueError(op)
    q.render_files(random.Random(rng.randint(0, 1 << 30)) if op == "reformat" else None)
    return q


EDITS = ["remove_all", "restore", "remove_unreferenced_field", "remove_unreferenced_field", "remove_entity", "remove_entity",
         "add_field", "add_field", "toggle_component", "drop_selection", "move_decl", "reformat"]


def source_map(p):
    root = p.config["project_root"]
    return {os.path.normpath(os.path.join(root, rel)): text for rel, text in p.files.items()}


def make_versions(p, rng, n):
    """[(label, {path relative to the project dir: text})]; the first entry is the starting program."""
    original = p
    cur = p
    label = "generated"
    r = rng.random()
    if r < 0.2:
        cur = edit_project(p, "remove_all", rng, original) or p
        label = "no-client-field"
    out = [(label if cur is not p else "generated", source_map(cur))]
    tries = 0
    while len(out) < n and tries < 40:
        tries += 1
        op = rng.choice(EDITS)
        q = edit_project(cur, op, rng, original)
        if q is None:
            continue
        if op == "remove_entity" and len({d.parent for d in cur.decls if d.kind == "field"}) == 1:
            op = "remove_entity(last)"
        out.append((op, source_map(q)))
        cur = q
    return out


def hostile_initial(p, rng):
    """(root kind, entries relative to the artifact directory): stale artifacts with plausible names, foreign files and
    directories, files where directories are needed, directories where files are needed, symlinks to the outside."""
    r = rng.random()
    if r < 0.1:
        return "missing", []
    if r < 0.2:
        return "dir", []
    ents = sorted({d.parent for d in p.decls if d.kind != "entrypoint"}) or ["Query"]
    pairs = sorted({(d.parent, d.name) for d in p.decls if d.kind != "entrypoint"}) or [("Query", "Root")]
    e = []

    def f(path, content="stale"):
        e.append({"path": path, "kind": "file", "content": content})

    if rng.random() < 0.25:
        f(rng.choice(ents), "a file where an entity directory is needed")
    if rng.random() < 0.2:
        a, b = rng.choice(pairs)
        f(f"{a}/{b}", "a file where a selectable directory is needed")
    if rng.random() < 0.2:
        f(rng.choice(["iso.ts", "tsconfig.json"]) + "/inner.txt", "inside a directory named like a root artifact")
    if rng.random() < 0.2:
        a, b = rng.choice(pairs)
        f(f"{a}/{b}/resolver_reader.ts/x.txt", "inside a directory named like an artifact")
    if rng.random() < 0.2:
        e.append({"path": "link_out", "kind": "symlink"})
    if rng.random() < 0.1:
        e.append({"path": rng.choice(ents), "kind": "symlink"})
    if rng.random() < 0.7:
        for a, b in pairs:
            if rng.random() < 0.7:
                for fn in ("resolver_reader.ts", "param_type.ts", "output_type.ts", "entrypoint.ts", "stale_only.ts"):
                    if rng.random() < 0.6:
                        f(f"{a}/{b}/{fn}", f"// stale {fn}\nexport default 0;\n")
        f("iso.ts", "// stale iso.ts")
        if rng.random() < 0.5:
            f("tsconfig.json", "{}")
        f("Gone/Field/resolver_reader.ts", "// artifact of a removed entity")
        f(f"{rng.choice(ents)}/GoneField/param_type.ts", "// artifact of a removed selectable")
    if rng.random() < 0.35:
        f(".DS_Store", "foreign")
        f("notes.txt", "foreign")
        f("node_modules/a/b/c.js", "module.exports = 1")
    if rng.random() < 0.25:
        a, b = rng.choice(pairs)
        f(f"{a}/README.md", "foreign file in an entity directory")
        f(f"{a}/{b}/extra.ts", "foreign file in a selectable directory")
    if rng.random() < 0.2:
        a, b = rng.choice(pairs)
        e.append({"path": f"{a}/{b}", "kind": "dir"})
        e.append({"path": "Zed/empty", "kind": "dir"})
    return "dir", e


def materialize_initial(adir, kind, entries, outside):
    shutil.rmtree(adir, ignore_errors=True)
    if os.path.lexists(adir):
        os.remove(adir)
    if kind == "missing":
        return
    os.makedirs(adir)
    for ent in entries:
        p = os.path.join(adir, ent["path"])
        try:
            os.makedirs(os.path.dirname(p), exist_ok=True)
            if os.path.lexists(p):
                continue
            if ent["kind"] == "dir":
                os.makedirs(p)
            elif ent["kind"] == "symlink":
                os.symlink(outside, p)
            else:
                with open(p, "w") as fh:
                    fh.write(ent.get("content", ""))
        except OSError:
            continue


def write_sources(root, files, universe):
    """Make the source files below root equal `files` (paths relative to root); `universe`: every path of any version."""
    for rel in universe:
        p = os.path.join(root, rel)
        if rel in files:
            os.makedirs(os.path.dirname(p), exist_ok=True)
            with open(p, "w") as fh:
                fh.write(files[rel])
        elif os.path.exists(p):
            os.remove(p)


def tree_snapshot(d):
    """rel path -> sha256 | '<dir>' | '<symlink>' | '<special>' (lstat based; nothing is followed)."""
    out = {}
    try:
        st = os.lstat(d)
    except OSError:
        return None
    if not stat.S_ISDIR(st.st_mode):
        return {"": "<not a directory>"}
    for root, dirs, files in os.walk(d):
        rel = os.path.relpath(root, d)
        for name in dirs + files:
            p = os.path.join(root, name)
            key = os.path.normpath(os.path.join(rel, name))
            st = os.lstat(p)
            if stat.S_ISLNK(st.st_mode):
                out[key] = "<symlink>"
            elif stat.S_ISDIR(st.st_mode):
                out[key] = "<dir>"
            elif stat.S_ISREG(st.st_mode):
                with open(p, "rb") as fh:
                    out[key] = hashlib.sha256(fh.read()).hexdigest()
            else:
                out[key] = "<special>"
    return out


def tree_diff(got, want):
    """Both from tree_snapshot; `want` comes from a compile into a fresh directory.  [(kind, path)]"""
    got = got or {}
    want = want or {}
    if "" in got:
        return [("root-not-directory", "")]
    diffs = []
    for p, v in sorted(got.items()):
        w = want.get(p)
        if v == "<dir>":
            if w != "<dir>" and not any(k.startswith(p + "/") and x not in ("<dir>",) for k, x in got.items()):
                diffs.append(("stray-empty-directory", p))
        elif v in ("<symlink>", "<special>"):
            diffs.append(("extra-" + v.strip("<>"), p))
        elif w is None or w == "<dir>":
            diffs.append(("extra-file", p))
        elif w != v:
            diffs.append(("different-bytes", p))
    for p, w in sorted(want.items()):
        if w != "<dir>" and (p not in got or got[p] in ("<dir>", "<symlink>", "<special>")):
            diffs.append(("missing-file", p))
    return diffs


def path_class(path, want_all):
    n = len(path.split("/")) if path else 0
    known = any(path in w for w in want_all if w)
    if not known:
        return "artifact-directory" if n == 0 else "foreign-entry"
    is_dir = any(w.get(path) == "<dir>" for w in want_all if w)
    if is_dir:
        return "entity-directory" if n == 1 else "selectable-directory"
    return "root-file" if n == 1 else "nested-file"


# ---------------------------------------------------------------------------------------------
# leg B in-process: build the script for `iso_tools fsops project`
# ---------------------------------------------------------------------------------------------
def project_case(seed, root, c19, nversions, fault_steps=(0, 1, 2), max_k=100000):
    rng = random.Random(seed)
    profile = rng.choice(["core", "plain"])
    p = isogen.generate(seed % (1 << 48), profile)
    shutil.rmtree(root, ignore_errors=True)
    p.write(root)
    versions = make_versions(p, rng, nversions)
    kind, entries = hostile_initial(p, rng)
    write_sources(root, versions[0][1], {k for _, m in versions for k in m})
    return {"id": f"{profile}:{seed}", "root": os.path.realpath(root), "versions": [m for _, m in versions],
            "labels": [l for l, _ in versions], "initial": entries, "initial_root": kind, "c19": c19,
            "fault_steps": list(fault_steps), "max_k": max_k,
            "replay": {"generator": "pylib/fsops_common.project_case", "seed": seed, "c19": c19, "nversions": nversions}}


def run_projects(ctx, tool, cli, scratch, n_cases, label, c19, nversions=4, shards=None, cross_check=True):
    """Generates n_cases projects, runs them through the in-process session tool, then cross-checks what the tool left
    behind (sources at the last valid version, compiled by a fresh session) against the real CLI in a pristine copy."""
    shards = shards or NCPU
    per_shard = [[] for _ in range(shards)]
    for i in range(n_cases):
        per_shard[i % shards].append(i)

    def one(si):
        idxs = per_shard[si]
        if not idxs:
            return None
        base, fs = scratch.dir_for(si, every=4)
        cases = []
        for i in idxs:
            seed = subseed(ctx.seed, label, "project", i) % (1 << 48)
            root = os.path.join(base, f"{label}-p{i}")
            cases.append(project_case(seed, root, c19, nversions))
        script = os.path.join(scratch.disk, f"{label}-script-{si}.json")
        with open(script, "w") as f:
            json.dump({"cases": cases}, f)
        rep = _run_tool([tool, "fsops", "project", "--script", script])
        os.remove(script)
        rep["fs"] = fs
        rep["specs"] = {c["id"]: c for c in cases}
        rep["cross"] = []
        if cross_check:
            for c in rep["cases"]:
                spec = rep["specs"][c["id"]]
                if c["final_version"] is None:
                    continue
                rep["cross"].append(cross_check_cli(cli, spec, c))
        for c in cases:
            shutil.rmtree(c["root"], ignore_errors=True)
        return rep

    reps = [r for r in runner.run_shards(list(range(shards)), one) if r]
    total = {"cases": [], "errors": [], "stats": {}, "findings": [], "cross": [], "specs": {}, "file_systems": collections.Counter()}
    for rep in reps:
        total["cases"] += rep["cases"]
        total["errors"] += rep["errors"]
        merge_counters(total["stats"], rep["stats"])
        for f in rep["findings"]:
            spec = rep["specs"].get(f["case"])
            if spec:
                f["replay"] = spec["replay"]
                f["labels"] = spec["labels"]
        total["findings"] += rep["findings"]
        total["cross"] += rep["cross"]
        total["specs"].update(rep["specs"])
        total["file_systems"][rep["fs"]] += len(rep["cases"])
    if len(total["errors"]) > max(2, n_cases // 10):
        raise Inconclusive(f"{len(total['errors'])} of {n_cases} in-process project cases could not be run, e.g. {total['errors'][0]}")
    return total


def pristine_compile(cli, spec_root, dest):
    """Copy config + schema + sources (no artifacts) to dest and compile there with the real CLI."""
    shutil.rmtree(dest, ignore_errors=True)
    cfg = cc.read_config(spec_root)

    def ignore(d, names):
        return {n for n in names if n in ("__isograph", ".verif_outside", ".verif_damaged")}

    shutil.copytree(spec_root, dest, ignore=ignore, symlinks=True)
    os.makedirs(os.path.join(dest, cfg["project_root"]), exist_ok=True)
    if cfg.get("artifact_directory"):
        os.makedirs(os.path.join(dest, cfg["artifact_directory"]), exist_ok=True)
    r = cc.run_cli(cli, dest)
    return r, tree_snapshot(cc.artifact_dir_of(dest, cfg))


def cross_check_cli(cli, spec, case_report):
    """The directory a fresh in-process session produced == what the real CLI produces for the same sources elsewhere."""
    root = spec["root"]
    dest = root + ".pristine"
    try:
        r, want = pristine_compile(cli, root, dest)
        got = tree_snapshot(case_report["artifact_dir"])
        if not r.ok():
            return {"id": spec["id"], "ok": False, "why": "cli failed: " + cc.ANSI.sub("", r.stderr)[-300:]}
        return {"id": spec["id"], "ok": True, "diffs": tree_diff(got, want)[:6], "files": len(want or {})}
    finally:
        shutil.rmtree(dest, ignore_errors=True)


# ---------------------------------------------------------------------------------------------
# leg B hook-free: the real CLI over hostile directories, expectation = compile into a fresh directory
# ---------------------------------------------------------------------------------------------
def cli_case(cli, seed, root, pid, nversions=3):
    """Returns {violations, stats, nontrivial, sample, fingerprint}."""
    rng = random.Random(seed)
    profile = rng.choice(["core", "plain"])
    p = isogen.generate(seed % (1 << 48), profile)
    shutil.rmtree(root, ignore_errors=True)
    p.write(root)
    versions = make_versions(p, rng, nversions)
    universe = {k for _, m in versions for k in m}
    kind, entries = hostile_initial(p, rng)
    cfg = cc.read_config(root)
    adir = cc.artifact_dir_of(root, cfg)
    outside = os.path.join(root, ".verif_outside")
    os.makedirs(outside, exist_ok=True)
    with open(os.path.join(outside, "keep.txt"), "w") as fh:
        fh.write("keep")
    out = {"violations": [], "stats": collections.Counter(), "nontrivial": False, "sample": None,
           "fingerprint": hashlib.sha1(json.dumps([versions, kind, entries], sort_keys=True).encode()).hexdigest()[:16]}
    st = out["stats"]
    wants = []
    describe = {"generator": "pylib/fsops_common.cli_case", "seed": seed, "profile": profile, "labels": [l for l, _ in versions],
                "initial_root": kind, "initial": [f"{e['kind']} {e['path']}" for e in entries][:25]}
    try:
        for i, (label, files) in enumerate(versions):
            write_sources(root, files, universe)
            if i == 0:
                materialize_initial(adir, kind, entries, outside)
                st[f"initial:{'missing' if kind == 'missing' else ('populated' if entries else 'empty')}"] += 1
            before = tree_snapshot(adir)
            pr, want = pristine_compile(cli, root, root + ".pristine")
            st["cli_runs"] += 2
            r = cc.run_cli(cli, root)
            if r.timed_out or pr.timed_out:
                raise Inconclusive("CLI watchdog fired")
            phase = "first" if i == 0 else "stale"
            if not pr.ok():
                msg = cc.ANSI.sub("", pr.stderr)
                m = re.search(r"Unable to ([a-z ]+) at path .*?Reason: ([^\n(]*)", msg, re.S)
                if m:
                    # not the program: the write phase failed although the directory was fresh
                    shape = m.group(1).strip().replace(" ", "-") + ":" + m.group(2).strip().replace(" ", "-")
                    out["violations"].append({
                        "rule": "write-failed", "signature": f"{pid}/write-failed/fresh/{shape}",
                        "what": f"[cli] {profile}:{seed} version {i} ({label}): compiling into a fresh directory fails in the write phase: "
                                + msg.strip().replace("\n", " ")[-200:],
                        "witness": {"case": describe, "version": i, "stderr_tail": msg[-600:]}})
                    break
                st["versions_rejected"] += 1
                wants.append(None)
                continue
            wants.append(want)
            if not r.ok():
                msg = cc.ANSI.sub("", r.stderr)
                m = re.search(r"Unable to ([a-z ]+) at path .*?Reason: ([^\n(]*)", msg, re.S)
                shape = (m.group(1).strip().replace(" ", "-") + ":" + m.group(2).strip().replace(" ", "-")) if m else "other"
                out["violations"].append({
                    "rule": "write-failed", "signature": f"{pid}/write-failed/{phase}/{shape}",
                    "what": f"[cli] {profile}:{seed} version {i} ({label}) compiles into a fresh directory but fails over the existing one: "
                            + msg.strip().replace("\n", " ")[-200:],
                    "witness": {"case": describe, "version": i, "stderr_tail": msg[-600:]}})
                break
            st["successful_compiles"] += 1
            if not any("/" in k for k in want):
                st["successful_compiles_without_any_client_field"] += 1
            got = tree_snapshot(adir)
            diffs = tree_diff(got, want)
            st["files_compared"] += sum(1 for v in want.values() if v != "<dir>")
            seen = set()
            for kind_, path in diffs:
                cls = path_class(path, wants)
                if (kind_, cls) in seen:
                    continue
                seen.add((kind_, cls))
                out["violations"].append({
                    "rule": kind_, "signature": f"{pid}/{kind_}/{phase}/{cls}",
                    "what": f"[cli] {profile}:{seed} version {i} ({label}): after a successful compile the artifact directory differs "
                            f"from a compile into a fresh directory: {kind_} {path}",
                    "witness": {"case": describe, "version": i, "diffs": [f"{a} {b}" for a, b in diffs[:8]]}})
            with open(os.path.join(outside, "keep.txt")) as fh:
                if fh.read() != "keep":
                    out["violations"].append({"rule": "touched-outside", "signature": f"{pid}/touched-outside/{phase}/symlink-target",
                                              "what": "[cli] a directory outside the artifact directory was modified",
                                              "witness": {"case": describe}})
            if before:
                out["nontrivial"] = True
                st["compiles_over_nonempty_directory"] += 1
                if i > 0 and wants[i - 1] is not None:
                    removed = [k for k in wants[i - 1] if k not in want]
                    if removed:
                        st["compiles_that_had_to_remove_stale_artifacts"] += 1
                    if any(v == "<dir>" and "/" not in k for k, v in wants[i - 1].items() if k not in want):
                        st["compiles_that_had_to_remove_an_entity_directory"] += 1
        out["sample"] = describe
    finally:
        shutil.rmtree(root + ".pristine", ignore_errors=True)
        shutil.rmtree(root, ignore_errors=True)
    out["stats"] = dict(st)
    return out


def run_cli_cases(ctx, cli, scratch, n, label, pid):
    def one(i):
        base, _fs = scratch.dir_for(i, every=3)
        seed = subseed(ctx.seed, label, "cli", i) % (1 << 48)
        return cli_case(cli, seed, os.path.join(base, f"{label}-cli{i}"), pid)

    return runner.run_shards(list(range(n)), one)


# ---------------------------------------------------------------------------------------------
# leg S: the real CLI under strace fault / kill injection
# ---------------------------------------------------------------------------------------------
SYSCALLS = ["openat", "mkdir", "unlinkat", "rmdir", "write"]
LINE = re.compile(r"^(\d+)\s+(\w+)\((.*)$")


def strace_available(cli, scratch):
    if shutil.which("strace") is None:
        return False, "strace is not installed"
    d = os.path.join(scratch.disk, "strace-smoke")
    os.makedirs(d, exist_ok=True)
    t = os.path.join(d, "t.txt")
    try:
        r = subprocess.run(["strace", "-f", "-o", t, "-e", "trace=mkdir", "-e", "inject=mkdir:error=EIO:when=1", "mkdir", os.path.join(d, "x")],
                           stdout=subprocess.PIPE, stderr=subprocess.PIPE, timeout=60)
        txt = open(t).read() if os.path.exists(t) else ""
    except (OSError, subprocess.TimeoutExpired) as e:
        return False, f"strace cannot run: {e}"
    if "INJECTED" not in txt or r.returncode == 0:
        return False, "strace cannot inject faults here (ptrace unavailable?): " + r.stderr.decode(errors="replace")[-200:]
    return True, ""


def _trace(cli, root, tfile, inject=None, syscalls=SYSCALLS):
    pre = ["strace", "-f", "-y", "-s", "0", "-o", tfile, "-e", "trace=" + ",".join(syscalls)]
    if inject:
        pre += ["-e", "inject=" + inject]
    return cc.run_cli(cli, root, prefix=pre)


def write_phase_points(tfile, adir):
    """From a dry traced run: {syscall: [ordinal N (per main thread) of each invocation that touches the artifact dir]}."""
    main = None
    counts = collections.Counter()
    points = {s: [] for s in SYSCALLS}
    with open(tfile, errors="replace") as fh:
        for line in fh:
            m = LINE.match(line)
            if not m:
                continue
            pid, name, rest = m.group(1), m.group(2), m.group(3)
            if main is None:
                main = pid
            if pid != main or name not in points:
                continue
            counts[name] += 1
            # O_NONBLOCK directory opens are the source walker listing the project root (which contains the artifact
            # directory): read phase, and their position depends on the file system's directory order
            if adir in rest and "O_NONBLOCK" not in rest:
                points[name].append(counts[name])
    return points


def strace_prepare(cli, seed, root, tier_small=True):
    """One project: compile version 0 normally, switch the sources to version 1, measure the write phase of the next compile
    with a traced dry run.  Returns None when the generated versions do not compile."""
    rng = random.Random(seed)
    profile = rng.choice(["core", "plain"])
    p = isogen.generate(seed % (1 << 48), profile, **({"max_decls": 3, "max_types": 3} if tier_small else {}))
    base = root + ".base"
    shutil.rmtree(base, ignore_errors=True)
    p.write(base)
    versions = make_versions(p, rng, 2)
    universe = {k for _, m in versions for k in m}
    describe = {"generator": "pylib/fsops_common.strace_prepare", "seed": seed, "profile": profile, "labels": [l for l, _ in versions]}
    prep = {"base": base, "describe": describe, "id": f"{profile}:{seed}",
            "fingerprint": hashlib.sha1(json.dumps(versions, sort_keys=True).encode()).hexdigest()[:16]}
    try:
        write_sources(base, versions[0][1], universe)
        if not cc.run_cli(cli, base).ok():
            return dict(prep, skipped="version 0 does not compile")
        write_sources(base, versions[-1][1], universe)
        pr, want = pristine_compile(cli, base, root + ".pristine")
        if not pr.ok():
            return dict(prep, skipped="version 1 does not compile")
        cfg = cc.read_config(base)
        shutil.rmtree(root, ignore_errors=True)
        shutil.copytree(base, root, symlinks=True)
        adir = cc.artifact_dir_of(os.path.realpath(root), cfg)
        tfile = root + ".trace"
        r = _trace(cli, root, tfile)
        if not r.ok():
            raise Inconclusive("traced dry run failed: " + r.stderr[-300:])
        points = write_phase_points(tfile, adir)
        if tree_diff(tree_snapshot(adir), want):
            raise Inconclusive("traced dry run produced a different directory than the untraced compile")
        if sum(len(v) for v in points.values()) == 0:
            raise Inconclusive("no write-phase system call seen in the dry trace")
        rel_adir = os.path.relpath(adir, os.path.realpath(root))
        describe["write_phase_invocations"] = {k: len(v) for k, v in points.items()}
        return dict(prep, want=want, points=points, rel_adir=rel_adir)
    finally:
        for d in (root, root + ".pristine"):
            shutil.rmtree(d, ignore_errors=True)
        if os.path.exists(root + ".trace"):
            os.remove(root + ".trace")


def strace_point(cli, prep, sc, n, mode, root, pid):
    """Fail (mode 'error=EIO') or kill at (mode 'signal=KILL') the n-th invocation of syscall sc by the CLI's main thread, then
    compile again untraced in a new process; the directory must equal a compile into a fresh directory."""
    key = f"{sc}:{'EIO' if 'EIO' in mode else 'KILL'}"
    res = {"key": key, "status": None, "violations": [], "reported": None, "damaged": False}
    tfile = root + ".trace"
    try:
        shutil.rmtree(root, ignore_errors=True)
        shutil.copytree(prep["base"], root, symlinks=True)
        adir = os.path.join(os.path.realpath(root), prep["rel_adir"])
        r = _trace(cli, root, tfile, inject=f"{sc}:{mode}:when={n}", syscalls=[sc])
        if r.timed_out:
            raise Inconclusive("CLI watchdog fired under strace")
        txt = open(tfile, errors="replace").read()
        if mode == "error=EIO":
            hit = [l for l in txt.splitlines() if "(INJECTED)" in l]
            if not hit or adir not in hit[0]:
                res["status"] = "missed"
                return res
            res["reported"] = not r.ok()
        elif r.signal != "SIGKILL" and "killed by SIGKILL" not in txt:
            res["status"] = "missed"
            return res
        want = prep["want"]
        res["damaged"] = bool(tree_diff(tree_snapshot(adir), want))
        r2 = cc.run_cli(cli, root)
        inj = f"{sc}:{mode}:when={n}"
        if not r2.ok():
            msg = cc.ANSI.sub("", r2.stderr)
            res["status"] = "violated"
            res["violations"].append({
                "rule": "fresh-process/compile-failed", "signature": f"{pid}/fresh-process/compile-failed/{key}",
                "what": f"[strace] {prep['id']}: after {sc} #{n} was hit with {mode}, the next untraced compile fails: "
                        + msg.strip().replace("\n", " ")[-200:],
                "witness": {"case": prep["describe"], "inject": inj, "stderr_tail": msg[-500:]}})
            return res
        diffs = tree_diff(tree_snapshot(adir), want)
        if not diffs:
            res["status"] = "recovered"
            return res
        res["status"] = "violated"
        seen = set()
        for kind_, path in diffs:
            cls = path_class(path, [want])
            if (kind_, cls) in seen:
                continue
            seen.add((kind_, cls))
            res["violations"].append({
                "rule": "fresh-process/" + kind_, "signature": f"{pid}/fresh-process/{kind_}/{cls}",
                "what": f"[strace] {prep['id']}: after {sc} #{n} was hit with {mode}, the next compile (new process) leaves the "
                        f"directory different from a compile into a fresh directory: {kind_} {path}",
                "witness": {"case": prep["describe"], "inject": inj, "diffs": [f"{a} {b}" for a, b in diffs[:8]]}})
        return res
    finally:
        shutil.rmtree(root, ignore_errors=True)
        if os.path.exists(tfile):
            os.remove(tfile)


def run_strace_leg(ctx, cli, scratch, n_projects, label, pid):
    """Every write-phase invocation of every traced syscall of n_projects projects, EIO and KILL."""
    preps = []
    i = 0
    while len(preps) < n_projects and i < n_projects * 4:
        seed = subseed(ctx.seed, label, "strace", i) % (1 << 48)
        preps.append((i, seed))
        i += 1

    def prepare(job):
        idx, seed = job
        return strace_prepare(cli, seed, os.path.join(scratch.disk, f"{label}-st{idx}"))

    prepared = [p for p in runner.run_shards(preps[:n_projects * 2], prepare) if p and "skipped" not in p][:n_projects]
    jobs = []
    for pi, prep in enumerate(prepared):
        for sc, ns in prep["points"].items():
            for n in ns:
                for mode in ("error=EIO", "signal=KILL"):
                    jobs.append((pi, sc, n, mode))

    def point(job):
        pi, sc, n, mode = job
        base, _fs = scratch.dir_for(n + pi, every=2)
        return strace_point(cli, prepared[pi], sc, n, mode,
                            os.path.join(base, f"{label}-pt{pi}-{sc}-{n}-{mode[-3:]}"), pid)

    results = runner.run_shards(jobs, point)
    for prep in prepared:
        shutil.rmtree(prep["base"], ignore_errors=True)
    agg = {"projects": len(prepared), "points": len(jobs), "stats": collections.Counter(), "violations": [],
           "samples": [p["describe"] for p in prepared[:2]], "fingerprints": {p["fingerprint"] for p in prepared},
           "nontrivial": sum(1 for p in prepared if sum(1 for v in p["points"].values() if len(v) >= 2) >= 2)}
    for r in results:
        agg["stats"][f"{r['status']}:{r['key']}"] += 1
        if r["status"] != "missed":
            agg["stats"][f"injected:{r['key']}"] += 1
            if r["damaged"]:
                agg["stats"][f"left_directory_different:{r['key']}"] += 1
        if r["reported"] is not None:
            agg["stats"][("fault_reported_by_cli:" if r["reported"] else "fault_tolerated_by_cli:") + r["key"]] += 1
        agg["violations"] += r["violations"]
    agg["missed"] = sum(v for k, v in agg["stats"].items() if k.startswith("missed:"))
    agg["stats"] = dict(agg["stats"])
    return agg
