"""C03 thorough legs: the pico_mon GC histories under AddressSanitizer and under valgrind memcheck.

Both tools stop the process at the first report; the shard is restarted after the history that died (its seed is in
the progress file) and that history is re-run by the plain native monitor: if the native monitor attributes it to a
listed known finding (the intern_ref dangling reference is *meant* to be flagged by the tools too - Tag::live reads
through the reference pico handed out), the report is filed under that signature, otherwise it is a new violation."""
import os
import re
import shutil

import pico_common as pc
import runner
from runner import subseed, NCPU


def _first_repo_frame(text):
    for m in re.finditer(r"(?:#\d+ 0x[0-9a-f]+ in |(?:at|by) 0x[0-9A-F]+: )([^\n]+)", text):
        fr = m.group(1)
        if "pico" in fr and "pico_mon" not in fr:
            return re.sub(r"\s*\(.*$|\s+/.*$", "", fr)[:80]
    m = re.search(r"(?:#\d+ 0x[0-9a-f]+ in |(?:at|by) 0x[0-9A-F]+: )([^\n]+)", text)
    return re.sub(r"\s*\(.*$|\s+/.*$", "", m.group(1))[:80] if m else "?"


def _classify(tool, crashes, native_binary, profile, maxops, known, v):
    n_known = n_new = 0
    for c in crashes:
        text = c.get("stderr_head", "") + c.get("stderr_tail", "")
        if tool == "asan":
            m = re.search(r"ERROR: AddressSanitizer: ([a-z-]+)", text)
            kind = m.group(1) if m else ("leak" if "LeakSanitizer" in text else "abort")
        else:
            m = re.search(r"(Invalid (?:read|write) of size \d+|Invalid free|Mismatched free|Conditional jump or move depends on uninitialised|Use of uninitialised value)", text)
            kind = re.sub(r"\s+", "-", m.group(1)) if m else "error"
        ns = pc._native_signatures(native_binary, c["history_seed"], maxops, profile) if c.get("history_seed") is not None else None
        c03 = [s for s in (ns or []) if s.startswith("C03/")]
        if c03 and all(s in known for s in c03) and ("use-after-free" in kind or "Invalid-read" in kind):
            n_known += 1
            for s in c03:
                v.append({"rule": tool, "signature": s, "what": f"{tool}: {kind} (history {c['history_seed']}); same history flagged by the native monitor",
                          "witness": {k: c[k] for k in ("history_seed", "index", "returncode")}})
        else:
            n_new += 1
            v.append({"rule": tool, "signature": f"C03/{tool}/{kind}@{_first_repo_frame(text)}",
                      "what": f"{tool}: {kind} in history {c.get('history_seed')}; native monitor said {ns}",
                      "witness": dict(c, native_signatures=ns)})
    return n_known, n_new


def run_asan_and_valgrind(ctx, v, known):
    out = {}
    native = os.path.join(runner.cargo_build([pc.PKG]), pc.PKG)
    maxops = 40
    # ---- AddressSanitizer (own build flavour; 4x) -------------------------------------------------------
    try:
        asan_bin = os.path.join(runner.cargo_build([pc.PKG], flavour="asan"), pc.PKG)
    except runner.Inconclusive as e:
        asan_bin = None
        out["asan"] = f"inconclusive: {e}"
    if asan_bin:
        per = ctx.pick(2_000, 12_000)
        env = {"ASAN_OPTIONS": "halt_on_error=1:abort_on_error=1:detect_leaks=1:symbolize=1",
               "ASAN_SYMBOLIZER_PATH": shutil.which("llvm-symbolizer-14") or shutil.which("llvm-symbolizer") or ""}
        jobs = [(subseed(ctx.seed, "pico-asan", i), i) for i in range(NCPU)]
        reps = runner.run_shards(jobs, lambda j: pc.native_shard(asan_bin, j[0], per, maxops, "gc", 0, ctx.work, f"asan-{j[1]}", env=env, max_crashes=100_000))
        total, crashes = {}, []
        for r in reps:
            crashes += r.pop("crashes", [])
            pc._merge(total, r)
        k, n = _classify("asan", crashes, native, "gc", maxops, known, v)
        v += pc.violations_for("C03", total)
        out["asan"] = {"histories": total.get("histories", 0), "reports": len(crashes), "reports_matching_known_finding": k, "other_reports": n}
    # ---- valgrind memcheck on the plain build (~25x) -----------------------------------------------------
    vg = shutil.which("valgrind")
    if not vg:
        out["valgrind"] = "inconclusive: valgrind not found"
    else:
        per = ctx.pick(150, 1_500)
        prefix = [vg, "-q", "--error-exitcode=99", "--exit-on-first-error=yes", "--leak-check=no", "--num-callers=30", native]
        jobs = [(subseed(ctx.seed, "pico-vg", i), i) for i in range(NCPU)]
        reps = runner.run_shards(jobs, lambda j: pc.native_shard(prefix, j[0], per, maxops, "gc", 0, ctx.work, f"vg-{j[1]}", max_crashes=100_000))
        total, crashes = {}, []
        for r in reps:
            crashes += r.pop("crashes", [])
            pc._merge(total, r)
        k, n = _classify("valgrind", crashes, native, "gc", maxops, known, v)
        out["valgrind"] = {"histories": total.get("histories", 0), "reports": len(crashes), "reports_matching_known_finding": k, "other_reports": n}
    return out
